mod util;
mod c07;

fn main() {
    let a: Vec<String> = std::env::args().collect();
    if a.len() < 2 {
        eprintln!("usage: vharness <property> [--seed S] [--n N] [--out DIR] [--only I]");
        std::process::exit(2);
    }
    let args = util::Args::parse(&a[2..]);
    match a[1].to_lowercase().as_str() {
        "c07" => c07::run(&args),
        p => {
            eprintln!("unknown property {}", p);
            std::process::exit(2);
        }
    }
}

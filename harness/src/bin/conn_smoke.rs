//! Smoke test of the connection hook: PING, SET, GET split across reads.
use redis_sim::production::{ConnectionConfig, ShardedActorState};
use vharness::conn::run_handler;
fn main() {
    let rt = tokio::runtime::Builder::new_current_thread().enable_all().build().unwrap();
    rt.block_on(async {
        let state = ShardedActorState::with_shards(2);
        let chunks = vec![b"*1\r\n$4\r\nPI".to_vec(), b"NG\r\n*3\r\n$3\r\nSET\r\n$1\r\nk\r\n$1\r\nv\r\n".to_vec(), b"*2\r\n$3\r\nGET\r\n$1\r\nk\r\n".to_vec()];
        let (out, marks) = run_handler(state, ConnectionConfig::default(), chunks).await;
        println!("{:?} {:?}", String::from_utf8_lossy(&out), marks);
    });
}

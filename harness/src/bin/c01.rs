//! C01: commands behave as Redis.  Generated sequences of (set the clock | command) run on ONE
//! real CommandExecutor via set_time + execute; after every step the visible keyspace (TYPE, value
//! dump, PTTL of every key of the alphabet) is probed.  The probes run on a second executor that
//! receives the same steps, so that they cannot hide a stale entry from the executor under test;
//! both must give the same replies.  Every step is printed as a Coq term for the reference model.
#[path = "../rediscmd.rs"]
mod rediscmd;
use rediscmd::*;
use serde_json::json;
use vharness::util::*;

const HEADER: &str = "From RV Require Import Corr.C01.\nLocal Open Scope string_scope.\nLocal Open Scope Z_scope.\nLocal Open Scope list_scope.";

/// at most 2 reports per class, so that one frequent defect does not crowd out the others
fn viol(out: &mut Out, seen: &mut std::collections::BTreeMap<String, u64>, class: &str, i: u64, what: &str, d: serde_json::Value) {
    let n = seen.entry(class.to_string()).or_insert(0);
    *n += 1;
    out.count(&format!("finding:{}", class));
    if *n <= 2 { out.violation(i, what, d); }
}

/// Known finding C01-lossy-members: set members, hash field names and sorted-set members are stored as
/// lossy-UTF-8 Strings, so two different non-UTF-8 byte strings collapse and come back altered.  The
/// generated sequences only use valid UTF-8 members; this probe exercises the class directly
/// (class = a member / field that is not valid UTF-8) on a fresh executor.
fn lossy_probe(out: &mut Out, i: u64) {
    use redis_sim::redis::{Command, RespValue, SDS};
    let mut im = Impl::new();
    let (m1, m2): (Vec<u8>, Vec<u8>) = (vec![0xff, b'a'], vec![0xfe, b'a']);
    let s = |b: &Vec<u8>| SDS::new(b.clone());
    let mut seen = Vec::new();
    let _ = im.exec(&Command::SAdd("s".into(), vec![s(&m1)]));
    if let Ok(RespValue::Integer(1)) = im.exec(&Command::SIsMember("s".into(), s(&m2))) { seen.push("SADD s \\xffa; SISMEMBER s \\xfea -> 1 (Redis: 0)"); }
    if let Ok(RespValue::Array(Some(v))) = im.exec(&Command::SMembers("s".into())) { if v != vec![RespValue::BulkString(Some(m1.clone()))] { seen.push("SMEMBERS does not return the member bytes that were added"); } }
    let _ = im.exec(&Command::HSet("h".into(), vec![(s(&m1), SDS::new(b"v".to_vec()))]));
    if let Ok(RespValue::BulkString(Some(_))) = im.exec(&Command::HGet("h".into(), s(&m2))) { seen.push("HSET h \\xffa v; HGET h \\xfea -> v (Redis: nil)"); }
    let _ = im.exec(&Command::ZAdd { key: "z".into(), pairs: vec![(1.0, s(&m1))], nx: false, xx: false, gt: false, lt: false, ch: false });
    if let Ok(RespValue::BulkString(Some(_))) = im.exec(&Command::ZScore("z".into(), s(&m2))) { seen.push("ZADD z 1 \\xffa; ZSCORE z \\xfea -> 1 (Redis: nil)"); }
    out.impl_checks += 1;
    if !seen.is_empty() { out.known("C01-lossy-members", i, json!({"observed": seen})); }
}

fn main() {
    let a: Vec<String> = std::env::args().collect();
    let args = &Args::parse(&a[1..]);
    let mut out = Out::new(&args.out, "C01", args.shards, HEADER);
    out.nontrivial_rule = "sequences of 8-25 steps over 6 keys: ~25% clock advances straddling live deadlines (delta in {0,1,d-1,d,d+1,...}), else one of the 79 modelled commands with structured arguments (values empty/ASCII/binary/numeric incl. +5 05 -0 i64 bounds; indices i64::MIN..-len-2..len+2..i64::MAX; every grammatical option combination; duplicate members; type conflicts); after every step TYPE/dump/PTTL of all 6 keys; non-trivial = the sequence changed the visible keyspace at least 3 times and used at least 3 command families; distinct by the text of the steps".into();
    std::panic::set_hook(Box::new(|_| {}));
    let maxsteps = args.get("steps", 25);
    let mut vseen: std::collections::BTreeMap<String, u64> = Default::default();
    let range: Vec<u64> = match args.only { Some(i) => vec![i], None => (0..args.n).collect() };
    for i in range {
        let mut rng = case_rng(args.seed, i);
        let mut a_ex = Impl::new(); // under test: receives only the steps
        let mut b_ex = Impl::new(); // receives the steps and the probes
        let mut g = Gen { rng: &mut rng, now: 0, deadlines: vec![], lens: vec![], hot: false, state: vec![], pending: vec![], stale: vec![] };
        // 60 % of the sequences start from a populated keyspace (every type, short collections, TTLs)
        if g.chance(0.6) { let mut p = g.prelude(); p.reverse(); g.pending = p; }
        let nsteps = g.rng.gen_range(8..=maxsteps.max(8));
        let nsteps = if g.pending.is_empty() { nsteps } else { nsteps.max(16) };
        let mut last: Snapshot = vec![];
        let mut terms: Vec<String> = Vec::new();
        let mut trace: Vec<serde_json::Value> = Vec::new();
        let mut changes = 0; let mut fams = std::collections::BTreeSet::new();
        use rand::Rng as _;
        for _ in 0..nsteps {
            let tick = g.pending.is_empty() && g.chance(0.25);
            if tick {
                let t = g.now + g.delta();
                // a third of the clock moves skip the eviction sweep (update_time_readonly): the executor under test then holds
                // lazily expired keys, which must be unobservable (the model knows only one kind of clock move)
                let lazy = g.chance(0.35);
                // ... and a sixth go through the TTL manager's entry evict_expired_direct
                let direct = !lazy && g.chance(0.25);
                let (ra, rb) = if lazy { (a_ex.set_time_lazy(t), b_ex.set_time_lazy(t)) } else if direct { (a_ex.set_time_evict_direct(t), b_ex.set_time_evict_direct(t)) } else { (a_ex.set_time(t), b_ex.set_time(t)) };
                if direct { out.count("step:tick-evict_expired_direct"); }
                if lazy { out.count("step:tick-without-eviction-sweep"); }
                let snap = if ra.is_ok() && rb.is_ok() { snapshot(&mut b_ex, &KEYS) } else { Err(ra.err().or(rb.err()).unwrap()) };
                let snap = match snap { Ok(s) => s, Err(p) => {
                    viol(&mut out, &mut vseen, "panic-set-time", i, "the implementation panicked when the clock was set", json!({"clock": t, "panic": p, "steps_before": trace}));
                    break; } };
                out.impl_checks += 1;
                // a key with deadline d is visible at every t < d and at no t >= d
                for (k, _, p) in &last {
                    let seen = find(&snap, k);
                    let ok = if *p < 0 { seen.map_or(false, |e| e.2 == -1) }
                             else { let d = g.now as i128 + *p as i128; if (t as i128) < d { seen.map_or(false, |e| e.2 as i128 == d - t as i128) } else { seen.is_none() } };
                    if !ok { viol(&mut out, &mut vseen, "deadline-visibility", i, "a key is not visible exactly until its deadline", json!({"key": k, "pttl_before": p, "clock_before": g.now, "clock_after": t, "seen_after": format!("{:?}", seen), "steps_before": trace})); }
                }
                for (k, _, _) in &snap { if find(&last, k).is_none() { viol(&mut out, &mut vseen, "deadline-visibility", i, "a key appeared when only the clock moved", json!({"key": k, "clock": t, "steps_before": trace})); } }
                g.now = t;
                out.count("step:tick");
                terms.push(format!("ST {}%N {}", t, if snap == last { "None".to_string() } else { format!("(Some {})", snap_coq(&snap)) }));
                trace.push(json!({"set_time": t, "keyspace": snap_json(&snap)}));
                if snap != last { changes += 1; }
                last = snap;
            } else if g.pending.is_empty() && g.chance(0.05) {
                // an executor-level transaction: MULTI, 2-4 commands (each must answer QUEUED and change nothing), EXEC.
                // EXEC's array must be what the commands answer when run one after the other (that is how the model sees them).
                use redis_sim::redis::{Command, RespValue};
                let k = g.rng.gen_range(2..=4);
                let cs: Vec<MCmd> = (0..k).map(|_| { g.pending.clear(); g.cmd() }).collect();
                g.pending.clear();
                let mut ok = true; let mut why = String::new();
                let mut run = |im: &mut Impl| -> Result<Vec<RespValue>, String> {
                    if im.exec(&Command::Multi)? != RespValue::simple("OK") { return Err("MULTI did not answer OK".into()); }
                    for c in &cs { let r = im.exec(&c.to_rust())?; if r != RespValue::simple("QUEUED") { return Err(format!("{} inside MULTI answered {:?} instead of QUEUED", c.name(), r)); } }
                    match im.exec(&Command::Exec)? { RespValue::Array(Some(v)) if v.len() == cs.len() => Ok(v), o => Err(format!("EXEC answered {:?}", o)) }
                };
                let (ra, rb) = (run(&mut a_ex), run(&mut b_ex));
                let (ra, rb) = match (ra, rb) { (Ok(x), Ok(y)) => (x, y), (x, y) => { ok = false; why = x.err().or(y.err()).unwrap_or_default(); (vec![], vec![]) } };
                if !ok {
                    viol(&mut out, &mut vseen, "transaction-block", i, &format!("MULTI/EXEC block failed: {}", why), json!({"commands": cs.iter().map(|c| c.to_coq()).collect::<Vec<_>>(), "clock": g.now, "steps_before": trace}));
                    break;
                }
                if ra.iter().zip(cs.iter()).map(|(r, c)| canon_reply(c, r)).collect::<Vec<_>>() != rb.iter().zip(cs.iter()).map(|(r, c)| canon_reply(c, r)).collect::<Vec<_>>() {
                    viol(&mut out, &mut vseen, "probes-change-reply", i, "read-only probes issued earlier changed the replies of a later MULTI/EXEC block", json!({"commands": cs.iter().map(|c| c.to_coq()).collect::<Vec<_>>(), "without_probes": format!("{:?}", ra), "with_probes": format!("{:?}", rb), "steps_before": trace}));
                }
                let snap = match snapshot(&mut b_ex, &KEYS) { Ok(s) => s, Err(p) => {
                    viol(&mut out, &mut vseen, "panic-probe", i, "the implementation panicked while the keyspace was read", json!({"after": "EXEC", "panic": p, "steps_before": trace}));
                    break; } };
                out.count("step:multi-exec-block");
                for (n, (c, r)) in cs.iter().zip(ra.iter()).enumerate() {
                    out.count(&format!("cmd:{}", c.name())); fams.insert(family(c));
                    if n + 1 < cs.len() { terms.push(format!("SN {} {}", c.to_coq(), canon_reply_coq(c, r))); }
                    else { terms.push(format!("SC {} {} {}", c.to_coq(), canon_reply_coq(c, r), if snap == last { "None".to_string() } else { format!("(Some {})", snap_coq(&snap)) })); }
                    trace.push(json!({"in_multi_exec": c.to_coq(), "reply": format!("{:?}", r)}));
                }
                trace.push(json!({"after_exec_keyspace": snap_json(&snap)}));
                if snap != last { changes += 1; }
                last = snap;
            } else {
                let c = g.cmd();
                let rc = c.to_rust();
                // the same behaviour through the executor's other entry points (both executors take the same path)
                let path: u8 = match g.rng.gen_range(0..10) { 0 | 1 => 1, 2 | 3 => 2, 4 => 3, _ => 0 };
                let ra = a_ex.exec_via(&c, path); let rb = b_ex.exec_via(&c, path);
                if let Ok((_, via)) = &ra { if *via != "execute" { out.count(&format!("entry:{}", via)); } }
                let (ra, rb) = (ra.map(|x| x.0), rb.map(|x| x.0));
                let (ra, rb) = match (ra, rb) { (Ok(x), Ok(y)) => (x, y), (x, y) => {
                    let p = x.err().or(y.err()).unwrap_or_default(); let cls = format!("panic:{}:{}", c.name(), p.chars().take(60).collect::<String>());
                    viol(&mut out, &mut vseen, &cls, i, &format!("the implementation panicked in {}: {}", c.name(), p), json!({"command": c.to_coq(), "panic": p, "clock": g.now, "steps_before": trace}));
                    break; } };
                if canon_reply(&c, &ra) != canon_reply(&c, &rb) {
                    viol(&mut out, &mut vseen, "probes-change-reply", i, "read-only probes (TYPE/GET/LRANGE/.../PTTL) issued earlier changed the reply of a later command", json!({"command": c.to_coq(), "reply_without_probes": format!("{:?}", ra), "reply_with_probes": format!("{:?}", rb), "steps_before": trace}));
                }
                let snap = match snapshot(&mut b_ex, &KEYS) { Ok(s) => s, Err(p) => {
                    viol(&mut out, &mut vseen, "panic-probe", i, "the implementation panicked while the keyspace was read", json!({"after_command": c.to_coq(), "panic": p, "steps_before": trace}));
                    break; } };
                out.impl_checks += 1;
                for fd in laws(&c, &ra, &last, &snap, g.now) {
                    let d = json!({"command": c.to_coq(), "redis_command": c.name(), "reply": format!("{:?}", ra), "clock": g.now, "keyspace_before": snap_json(&last), "keyspace_after": snap_json(&snap), "steps_before": trace});
                    match fd.known { Some(key) => out.known(key, i, json!({"what": fd.what, "detail": d})), None => viol(&mut out, &mut vseen, fd.class, i, &fd.what, d) }
                }
                out.count(&format!("cmd:{}", c.name()));
                if let redis_sim::redis::RespValue::Error(t) = &ra { out.count(&format!("error:{}", err_kind(t))); }
                fams.insert(family(&c));
                terms.push(format!("SC {} {} {}", c.to_coq(), canon_reply_coq(&c, &ra), if snap == last { "None".to_string() } else { format!("(Some {})", snap_coq(&snap)) }));
                trace.push(json!({"command": c.to_coq(), "reply": format!("{:?}", ra), "keyspace": snap_json(&snap)}));
                if snap != last { changes += 1; }
                last = snap;
            }
            g.deadlines = last.iter().filter(|e| e.2 >= 0).map(|e| g.now + e.2 as u64).collect();
            g.state = last.clone();
            g.lens = last.iter().filter_map(|e| match &e.1 { Dump::L(v) => Some(v.len() as i64), Dump::S(v) => Some(v.len() as i64), Dump::Z(v) => Some(v.len() as i64), _ => None }).collect();
        }
        if i % 8 == 0 { lossy_probe(&mut out, i); }
        let term = clist(terms.iter(), |t| t.clone());
        out.case(i, term.clone(), changes >= 3 && fams.len() >= 3, &term);
        out.sample(json!({"steps": trace}));
        if args.only.is_some() {
            println!("case {} ({} steps):", i, trace.len());
            for (n, t) in trace.iter().enumerate() { println!("  step {}: {}", n, t); }
            explain_with_model(&args.out, HEADER, &term);
        }
    }
    out.finish(args.seed);
}

//! C05: MULTI/EXEC is all-or-nothing and equals the sequential run; WATCH aborts on change.
//! Two (three) REAL production connection handlers (OptimizedConnectionHandler, verif-hooks) on ONE
//! real ShardedActorState (1 or 4 shards), each on its own channel-backed in-memory stream; a
//! scenario is a sequence of (connection, command) steps fed one at a time: the next step is sent
//! only after the previous one has been answered (sequential interleaving at command boundaries).
//!
//!   A  the client under test: WATCH .. MULTI .. body .. EXEC | DISCARD
//!   B  the second client: set-up writes, writes between WATCH / MULTI / EXEC, value probes, final dump
//!
//! One scenario in six drives the EXECUTOR-level MULTI / EXEC / WATCH instead (CommandExecutor::execute with
//! Command::Multi / Exec / Watch .., src/redis/executor/transaction_ops.rs - the path of the simulator and
//! of every direct caller of execute()): one CommandExecutor, the "other client" being commands executed
//! between WATCH and MULTI (inside MULTI everything is queued), virtual time set with set_time; same
//! oracles; here the executor compares stored values, so keys of every type are in scope for T3.
//!
//! Every reply is printed for the model (Model/Conn.v over Model/MiniExec.v, Corr/C05.v).  Direct
//! oracles on the implementation:
//!   T1 every command queued inside MULTI is answered +QUEUED (or an error) and the keyspace dump taken
//!      by B is the same before and after the queueing (no effect until EXEC)
//!   T2 twin run on a fresh backend: the same steps, but A's transaction replaced by nothing (EXEC
//!      answered nil / EXECABORT, DISCARD) or by its queued commands sent plainly at the position
//!      of EXEC (EXEC answered an array): the array must equal the twin's replies, one per queued
//!      command, and the final dumps must be equal
//!   T3 WATCH: EXEC (no queue-time error) is nil  <=>  the probe fingerprint (GET, LRANGE, HGET, SISMEMBER,
//!      ZCARD) of some watched key taken by B right before EXEC differs from the one taken right before
//!      WATCH.  A miss on keys that hold a non-string value at both instants is the known finding
//!      C05-watch-nonstring; anything else is a violation.
//!   T4 the probes of one key, answered at one instant, are consistent (GET serves a string => LRANGE is WRONGTYPE)
use rand::seq::SliceRandom;
use rand::Rng as _;
use redis_sim::observability::{DatadogConfig, Metrics};
use redis_sim::production::{ConnectionConfig, ConnectionPool, OptimizedConnectionHandler, ShardedActorState};
use redis_sim::security::AclManager;
use serde_json::json;
use std::hash::{Hash, Hasher};
use std::panic::{catch_unwind, AssertUnwindSafe};
use std::pin::Pin;
use std::sync::{Arc, Mutex};
use std::task::{Context, Poll};
use tokio::io::{AsyncRead, AsyncWrite, ReadBuf};
use tokio::sync::mpsc;
use vharness::util::*;

const HEADER: &str = "From RV Require Import Corr.C05.\nLocal Open Scope string_scope.\nLocal Open Scope N_scope.\nLocal Open Scope list_scope.";
const MAXBUF: usize = 1 << 20;
/// set in the thorough tier: one transaction in fifty queues 100-300 commands
static THOROUGH: std::sync::atomic::AtomicBool = std::sync::atomic::AtomicBool::new(false);

/// a stream whose reads wait for the next chunk on a channel; writes are recorded
struct ChanStream {
    rx: mpsc::UnboundedReceiver<Vec<u8>>,
    written: Arc<Mutex<Vec<u8>>>,
    /// set when the handler has come back to `read` and found nothing: everything sent so far
    /// has been processed and answered
    idle: Arc<std::sync::atomic::AtomicBool>,
}
impl AsyncRead for ChanStream {
    fn poll_read(mut self: Pin<&mut Self>, cx: &mut Context<'_>, buf: &mut ReadBuf<'_>) -> Poll<std::io::Result<()>> {
        match self.rx.poll_recv(cx) {
            Poll::Ready(Some(c)) => {
                assert!(c.len() <= buf.remaining());
                buf.put_slice(&c);
                Poll::Ready(Ok(()))
            }
            Poll::Ready(None) => Poll::Ready(Ok(())), // EOF
            Poll::Pending => {
                self.idle.store(true, std::sync::atomic::Ordering::SeqCst);
                Poll::Pending
            }
        }
    }
}
impl AsyncWrite for ChanStream {
    fn poll_write(self: Pin<&mut Self>, _cx: &mut Context<'_>, data: &[u8]) -> Poll<std::io::Result<usize>> {
        self.written.lock().unwrap().extend_from_slice(data);
        Poll::Ready(Ok(data.len()))
    }
    fn poll_flush(self: Pin<&mut Self>, _cx: &mut Context<'_>) -> Poll<std::io::Result<()>> {
        Poll::Ready(Ok(()))
    }
    fn poll_shutdown(self: Pin<&mut Self>, _cx: &mut Context<'_>) -> Poll<std::io::Result<()>> {
        Poll::Ready(Ok(()))
    }
}

fn resp_end(b: &[u8], p: usize, depth: usize) -> Option<usize> {
    if p >= b.len() || depth > 40 {
        return None;
    }
    let line_end = |from: usize| -> Option<usize> { (from..b.len().saturating_sub(1)).find(|&i| b[i] == b'\r' && b[i + 1] == b'\n') };
    match b[p] {
        b'+' | b'-' | b':' => line_end(p).map(|e| e + 2),
        b'$' => {
            let e = line_end(p)?;
            let n: i64 = std::str::from_utf8(&b[p + 1..e]).ok()?.parse().ok()?;
            if n < 0 {
                return Some(e + 2);
            }
            let end = e + 2 + n as usize + 2;
            if end <= b.len() && &b[end - 2..end] == b"\r\n" { Some(end) } else { None }
        }
        b'*' => {
            let e = line_end(p)?;
            let n: i64 = std::str::from_utf8(&b[p + 1..e]).ok()?.parse().ok()?;
            let mut q = e + 2;
            for _ in 0..n.max(0) {
                q = resp_end(b, q, depth + 1)?;
            }
            Some(q)
        }
        _ => None,
    }
}
/// the elements of a RESP array reply (top level), as byte ranges
fn array_elems(b: &[u8]) -> Option<Vec<Vec<u8>>> {
    if b.first() != Some(&b'*') {
        return None;
    }
    let e = (0..b.len() - 1).find(|&i| b[i] == b'\r' && b[i + 1] == b'\n')?;
    let n: i64 = std::str::from_utf8(&b[1..e]).ok()?.parse().ok()?;
    if n < 0 {
        return None;
    }
    let mut q = e + 2;
    let mut v = Vec::new();
    for _ in 0..n {
        let r = resp_end(b, q, 1)?;
        v.push(b[q..r].to_vec());
        q = r;
    }
    Some(v)
}

fn enc(args: &[&[u8]]) -> Vec<u8> {
    let mut v = format!("*{}\r\n", args.len()).into_bytes();
    for a in args {
        v.extend_from_slice(format!("${}\r\n", a.len()).as_bytes());
        v.extend_from_slice(a);
        v.extend_from_slice(b"\r\n");
    }
    v
}

#[derive(Debug)]
enum Ran {
    Ok(Vec<Vec<u8>>), // one reply per step
    Hang(usize),
    Panic(String),
}

struct Env {
    rt: tokio::runtime::Runtime,
    metrics: Arc<Metrics>,
}

/// one write of a client: `bytes` may hold several commands and may end (or start) inside one;
/// `completes` = how many commands it completes (= replies expected before the next write)
#[derive(Clone)]
struct SendPlan {
    conn: usize, // 0 = A, 1 = B, 2 = pause (bytes = milliseconds in ASCII)
    bytes: Vec<u8>,
    completes: usize,
    /// a read-only probe of the harness (exact value fingerprint): executed on the implementation, not
    /// shown to the model, whose mini backend does not have these commands
    oracle_only: bool,
}

/// feed the writes one at a time: the next one is sent only when the handler that got the previous
/// one is back in `read` with nothing to do; returns what each write was answered with
fn run(env: &Env, shards: usize, sends: &[SendPlan]) -> Ran {
    let r = catch_unwind(AssertUnwindSafe(|| {
        let local = tokio::task::LocalSet::new();
        local.block_on(&env.rt, async {
            let state = ShardedActorState::with_shards(shards);
            let mut txs = Vec::new();
            let mut outs = Vec::new();
            let mut idles = Vec::new();
            let mut handles = Vec::new();
            for c in 0..2 {
                let (tx, rx) = mpsc::unbounded_channel::<Vec<u8>>();
                let written = Arc::new(Mutex::new(Vec::new()));
                let idle = Arc::new(std::sync::atomic::AtomicBool::new(false));
                let stream = ChanStream { rx, written: written.clone(), idle: idle.clone() };
                let pool = ConnectionPool::new(2, 2);
                let acl = Arc::new(parking_lot::RwLock::new(AclManager::new()));
                let config = ConnectionConfig { max_buffer_size: MAXBUF, read_buffer_size: 65536, min_pipeline_buffer: 60, batch_threshold: 2 };
                let h = OptimizedConnectionHandler::new(stream, state.clone(), format!("verif:{}", c), pool.buffer_pool(), env.metrics.clone(), config, acl, None);
                handles.push(tokio::task::spawn_local(h.run()));
                txs.push(tx);
                outs.push(written);
                idles.push(idle);
            }
            let mut replies = Vec::new();
            for (si, sp) in sends.iter().enumerate() {
                let c = sp.conn;
                if c >= 2 {
                    let ms: u64 = std::str::from_utf8(&sp.bytes).unwrap().parse().unwrap();
                    tokio::time::sleep(std::time::Duration::from_millis(ms)).await;
                    replies.push(Vec::new());
                    continue;
                }
                let before = outs[c].lock().unwrap().len();
                idles[c].store(false, std::sync::atomic::Ordering::SeqCst);
                if txs[c].send(sp.bytes.clone()).is_err() {
                    return Ran::Hang(si);
                }
                let start = std::time::Instant::now();
                let mut spins = 0u64;
                loop {
                    tokio::task::yield_now().await;
                    if idles[c].load(std::sync::atomic::Ordering::SeqCst) {
                        replies.push(outs[c].lock().unwrap()[before..].to_vec());
                        break;
                    }
                    if handles[c].is_finished() {
                        // the connection task ended (panic inside the task): surface it
                        return Ran::Panic(format!("connection task of client {} ended at write {}", c, si));
                    }
                    spins += 1;
                    if spins % 64 == 0 {
                        tokio::time::sleep(std::time::Duration::from_micros(50)).await;
                        if start.elapsed().as_secs() >= 5 {
                            return Ran::Hang(si);
                        }
                    }
                }
            }
            drop(txs);
            for h in handles {
                let _ = h.await;
            }
            Ran::Ok(replies)
        })
    }));
    match r {
        Ok(x) => x,
        Err(e) => Ran::Panic(e.downcast_ref::<String>().cloned().or_else(|| e.downcast_ref::<&str>().map(|s| s.to_string())).unwrap_or_default()),
    }
}

/// the same plan on ONE CommandExecutor: every write holds exactly one command, whoever "sends" it;
/// a pause advances the virtual clock handed to set_time
fn run_executor(sends: &[SendPlan]) -> Ran {
    use redis_sim::redis::{Command, CommandExecutor, RespCodec, RespParser};
    let r = catch_unwind(AssertUnwindSafe(|| {
        let mut ex = CommandExecutor::new();
        let mut clock = 0u64;
        let mut readonly_clock = false;
        let mut replies = Vec::new();
        for sp in sends {
            if sp.conn >= 2 {
                // 2: time passes and reaches the executor through set_time (evicts expired keys);
                // 3: from now on it reaches it through update_time_readonly (no eviction)
                clock += std::str::from_utf8(&sp.bytes).unwrap().parse::<u64>().unwrap();
                readonly_clock = sp.conn == 3;
                replies.push(Vec::new());
                continue;
            }
            let mut b = bytes::BytesMut::from(&sp.bytes[..]);
            let v = RespCodec::parse(&mut b).expect("generated frames decode").expect("generated frames are complete");
            let cmd = Command::from_resp_zero_copy(&v).expect("generated frames are commands");
            if readonly_clock {
                ex.update_time_readonly(redis_sim::simulator::VirtualTime::from_millis(clock));
            } else {
                ex.set_time(redis_sim::simulator::VirtualTime::from_millis(clock));
            }
            let reply = ex.execute(&cmd);
            replies.push(RespParser::encode(&reply));
        }
        Ran::Ok(replies)
    }));
    match r {
        Ok(x) => x,
        Err(e) => Ran::Panic(e.downcast_ref::<String>().cloned().or_else(|| e.downcast_ref::<&str>().map(|s| s.to_string())).unwrap_or_default()),
    }
}

/// one write per command
fn singles(steps: &[(usize, Vec<u8>)]) -> Vec<SendPlan> {
    steps.iter().map(|s| SendPlan { conn: s.0, bytes: s.1.clone(), completes: if s.0 >= 2 { 0 } else { 1 }, oracle_only: false }).collect()
}
/// split what the writes were answered with into one reply per command; None = some write was
/// answered with a different number of replies than commands it completed
fn per_command(sends: &[SendPlan], answered: &[Vec<u8>]) -> Option<Vec<Vec<u8>>> {
    let mut v = Vec::new();
    for (sp, a) in sends.iter().zip(answered.iter()) {
        if sp.conn >= 2 {
            v.push(Vec::new());
            continue;
        }
        let mut p = 0;
        for _ in 0..sp.completes {
            let e = resp_end(a, p, 0)?;
            v.push(a[p..e].to_vec());
            p = e;
        }
        if p != a.len() {
            return None;
        }
    }
    Some(v)
}

fn hashes_agree(k: &[u8], n: u64) -> bool {
    let mut h1 = std::collections::hash_map::DefaultHasher::new();
    std::str::from_utf8(k).unwrap().hash(&mut h1);
    let mut h2 = std::collections::hash_map::DefaultHasher::new();
    k.hash(&mut h2);
    h1.finish() % n == h2.finish() % n
}
/// four short keys on which hash_key(&str) and hash_key_bytes(&[u8]) pick the same one of 4 shards
/// (DESIGN section 4 row 1 is C03's defect): fast-path SET and every other command then agree on the shard
fn key_alphabet() -> Vec<Vec<u8>> {
    let mut keys = Vec::new();
    for c in 0u32..10000 {
        let k = format!("k{}", c).into_bytes();
        if hashes_agree(&k, 4) {
            keys.push(k);
            if keys.len() == 4 {
                break;
            }
        }
    }
    keys
}

#[derive(Clone, Copy, PartialEq, Debug)]
enum Ty {
    None,
    Str,
    List,
    Hash,
    Set,
    ZSet,
}
const TYS: [Ty; 6] = [Ty::None, Ty::Str, Ty::List, Ty::Hash, Ty::Set, Ty::ZSet];
const VALS: [&[u8]; 6] = [b"a", b"b", b"10", b"", b"x\r\ny", b"9223372036854775807"];

/// a write that creates key k with type t (on an absent key)
fn create(k: &[u8], t: Ty, rng: &mut Rng) -> Option<Vec<u8>> {
    let v = *VALS.choose(rng).unwrap();
    Some(match t {
        Ty::None => return None,
        Ty::Str => enc(&[b"SET", k, v]),
        Ty::List => enc(&[b"LPUSH", k, v]),
        Ty::Hash => enc(&[b"HSET", k, b"f1", v]),
        Ty::Set => enc(&[b"SADD", k, b"m1"]),
        Ty::ZSet => enc(&[b"ZADD", k, b"1", b"m1"]),
    })
}
/// a write by B on key k (whatever it holds): (label, frames)
fn modify(k: &[u8], rng: &mut Rng, own_tx: bool) -> (String, Vec<Vec<u8>>) {
    let v = *VALS.choose(rng).unwrap();
    match rng.gen_range(0..(if own_tx { 14 } else { 12 })) {
        12 | 13 => ("transaction-of-its-own".into(), vec![enc(&[b"MULTI"]), enc(&[b"SET", k, v]), enc(&[b"INCR", k]), enc(&[if rng.gen_bool(0.8) { b"EXEC".as_ref() } else { b"DISCARD" }])]),
        0 => ("set".into(), vec![enc(&[b"SET", k, v])]),
        1 => ("append".into(), vec![enc(&[b"APPEND", k, b"z"])]),
        2 => ("incr".into(), vec![enc(&[b"INCR", k])]),
        3 => ("del".into(), vec![enc(&[b"DEL", k])]),
        4 => ("lpush".into(), vec![enc(&[b"LPUSH", k, v])]),
        5 => ("hset".into(), vec![enc(&[b"HSET", k, [b"f1".as_ref(), b"f2"].choose(rng).unwrap(), v])]),
        6 => ("sadd".into(), vec![enc(&[b"SADD", k, [b"m1".as_ref(), b"m2"].choose(rng).unwrap()])]),
        7 => ("zadd".into(), vec![enc(&[b"ZADD", k, b"2", [b"m1".as_ref(), b"m2"].choose(rng).unwrap()])]),
        8 => ("set-twice".into(), vec![enc(&[b"SET", k, b"tmp"]), enc(&[b"SET", k, v])]), // a revert when k held v
        9 => ("del-then-lpush".into(), vec![enc(&[b"DEL", k]), enc(&[b"LPUSH", k, v])]),
        10 => ("read-only".into(), vec![enc(&[b"GET", k])]),
        _ => ("del-then-set".into(), vec![enc(&[b"DEL", k]), enc(&[b"SET", k, v])]),
    }
}
/// the probes whose replies fingerprint the value of k
fn probes(k: &[u8]) -> Vec<Vec<u8>> {
    vec![
        enc(&[b"GET", k]),
        enc(&[b"LRANGE", k, b"0", b"-1"]),
        enc(&[b"HGET", k, b"f1"]),
        enc(&[b"HGET", k, b"f2"]),
        enc(&[b"SISMEMBER", k, b"m1"]),
        enc(&[b"SISMEMBER", k, b"m2"]),
        enc(&[b"ZCARD", k]),
    ]
}

/// exact, type-specific reads of k (positions 7.. of a fingerprint): every change of a value shows in
/// one of the ten probes - sorted-set scores, the value of an existing hash field, set members
fn exact_probes(k: &[u8]) -> Vec<Vec<u8>> {
    vec![enc(&[b"ZRANGE", k, b"0", b"-1", b"WITHSCORES"]), enc(&[b"HGETALL", k]), enc(&[b"SMEMBERS", k])]
}
/// HGETALL / SMEMBERS answer in per-process hash order: sort the pairs / members
fn canon_reply(frame: &[u8], reply: &[u8]) -> Vec<u8> {
    let pairs = frame.starts_with(b"*2\r\n$7\r\nHGETALL\r\n");
    let members = frame.starts_with(b"*2\r\n$8\r\nSMEMBERS\r\n");
    if !(pairs || members) {
        return reply.to_vec();
    }
    match array_elems(reply) {
        None => reply.to_vec(),
        Some(el) => {
            let mut groups: Vec<Vec<u8>> = if pairs { el.chunks(2).map(|c| c.concat()).collect() } else { el };
            groups.sort();
            let mut v = format!("*{}\r\n", if pairs { groups.len() * 2 } else { groups.len() }).into_bytes();
            for g in groups {
                v.extend_from_slice(&g);
            }
            v
        }
    }
}
/// all probes of key i with the given role constructor: the seven the model also answers, then the exact ones
fn push_probes(steps: &mut Vec<Step>, keys: &[Vec<u8>], i: usize, role: &dyn Fn(usize, usize) -> Role, label: &str) {
    for (j, p) in probes(&keys[i]).into_iter().enumerate() {
        steps.push((1, p, role(i, j), label.into()));
    }
    for (j, p) in exact_probes(&keys[i]).into_iter().enumerate() {
        steps.push((1, p, role(i, 7 + j), "exact".into()));
    }
}

#[derive(Clone, PartialEq, Debug)]
enum Role {
    Setup,
    Watch(Vec<usize>),       // A: WATCH keys (indices)
    ProbeW(usize, usize),    // B: probe #j of key i right before WATCH
    Between,                 // B: write
    Multi,                   // A
    Body(bool),              // A: command inside MULTI; true = the harness expects it to be queued
    DumpBefore(usize, usize), // B: dump taken right after MULTI (probe j of key i)
    ProbeE(usize, usize),    // B: probe right before EXEC (also the "no effect" dump)
    Exec,
    Discard,
    Dump(usize, usize), // B: final dump
    After,              // A: a plain command after the transaction
    Sleep(u64),         // nobody sends anything for that many milliseconds (conn index 2)
}

struct Scenario {
    executor_level: bool,
    steps: Vec<(usize, Vec<u8>, Role, String)>, // the commands, in the order they complete
    sends: Vec<SendPlan>,                       // how they travel: one write per command, or pipelined chunks
}

type Step = (usize, Vec<u8>, Role, String);
/// commands pushed since the last call travel one per write
fn flush_singles(sends: &mut Vec<SendPlan>, steps: &[Step], covered: &mut usize) {
    for s in &steps[*covered..] {
        sends.push(SendPlan { conn: s.0, bytes: s.1.clone(), completes: if s.0 >= 2 { 0 } else { 1 }, oracle_only: s.3 == "exact" });
    }
    *covered = steps.len();
}
/// A's commands `frames` travel PIPELINED: concatenated and cut at 0-3 random positions (also inside a
/// command); between two chunks B sometimes probes one key (it must see no effect of queued commands)
fn push_pipelined(steps: &mut Vec<Step>, sends: &mut Vec<SendPlan>, covered: &mut usize, frames: Vec<(Vec<u8>, Role, String)>, keys: &[Vec<u8>], rng: &mut Rng, out: &mut Out) {
    flush_singles(sends, steps, covered);
    let total: Vec<u8> = frames.iter().flat_map(|f| f.0.clone()).collect();
    let l = total.len();
    let mut ends = Vec::new();
    let mut p = 0;
    for f in &frames {
        p += f.0.len();
        ends.push(p);
    }
    let ncut = *[0usize, 1, 1, 2, 3].choose(rng).unwrap();
    let mut cuts: Vec<usize> = (0..ncut).map(|_| rng.gen_range(1..l.max(2))).filter(|c| *c < l).collect();
    cuts.sort();
    cuts.dedup();
    out.count(&format!("pipelined:chunks:{}", cuts.len() + 1));
    cuts.push(l);
    let mut fi = 0;
    let mut prev = 0;
    let mut it = frames.into_iter();
    for &c in &cuts {
        let mut completes = 0;
        while fi < ends.len() && ends[fi] <= c {
            let f = it.next().unwrap();
            steps.push((0, f.0, f.1, f.2));
            completes += 1;
            fi += 1;
        }
        if c - prev >= 60 {
            out.count("pipelined:chunk_of_60_bytes_or_more");
        }
        sends.push(SendPlan { conn: 0, bytes: total[prev..c].to_vec(), completes, oracle_only: false });
        *covered = steps.len();
        prev = c;
        if c != l && rng.gen_bool(0.6) {
            let i = rng.gen_range(0..keys.len());
            for (j, pr) in probes(&keys[i]).into_iter().enumerate() {
                steps.push((1, pr, Role::DumpBefore(i, j), "mid-probe".into()));
            }
            flush_singles(sends, steps, covered);
            out.count("pipelined:b_probes_between_chunks");
        }
    }
}

fn gen_scenario(keys: &[Vec<u8>], rng: &mut Rng, out: &mut Out) -> Scenario {
    let mut sends: Vec<SendPlan> = Vec::new();
    let mut covered = 0usize;
    let mut steps: Vec<(usize, Vec<u8>, Role, String)> = Vec::new();
    let nk = keys.len();
    // set-up: every key gets a random type
    for k in keys {
        let t = *TYS.choose(rng).unwrap();
        out.count(&format!("setup:{:?}", t));
        if let Some(f) = create(k, t, rng) {
            steps.push((1, f, Role::Setup, format!("create {:?}", t)));
        }
    }
    // one scenario in 16: key 0 is a string with a deadline (PX 40 = runs out during a 90 ms pause,
    // PX 60000 = never runs out); A watches it; the pause falls between WATCH and MULTI or before EXEC
    let ttl = rng.gen_range(0..16) == 0;
    let ttl_px: &[u8] = if rng.gen_bool(0.75) { b"40" } else { b"60000" };
    let ttl_pause_before_multi = rng.gen_bool(0.5);
    let ttl_touch_shard = rng.gen_bool(0.4); // a generic command on the key's shard after the pause
    // quiet: NOBODY sends anything between the pause and EXEC (B's probes are generic-path commands and
    // would move the shard's clock): A watches key 0 only, the pause comes right before EXEC, and the
    // EXEC-time fingerprint of key 0 is taken right AFTER EXEC (nobody writes key 0 in these scenarios)
    let ttl_quiet = ttl && rng.gen_bool(0.5);
    if ttl_quiet {
        out.count("ttl:quiet_between_expiry_and_exec");
    }
    if ttl {
        out.count(&format!("ttl:px{}", String::from_utf8_lossy(ttl_px)));
        steps.push((1, enc(&[b"DEL", &keys[0]]), Role::Setup, "ttl-setup".into()));
        steps.push((1, enc(&[b"SET", &keys[0], b"ttl-value", b"PX", ttl_px]), Role::Setup, "set-px".into()));
    }
    let rounds = if ttl { 1 } else if rng.gen_bool(0.35) { 2 } else { 1 };
    for _ in 0..rounds {
        // WATCH phase: 0-3 WATCH commands (overlapping key lists, a key may be repeated inside one
        // WATCH), B writing between any two of them, sometimes an UNWATCH in between
        let mut watched: Vec<usize> = Vec::new(); // keys watched when MULTI arrives (generator's view)
        let wr = |steps: &mut Vec<(usize, Vec<u8>, Role, String)>, rng: &mut Rng, out: &mut Out, watched: &Vec<usize>| {
            // in a deadline scenario key 0 changes by expiry only (nobody rewrites or deletes it: DEL of an
            // expired key that no reader has dropped yet answers 1 in the code, which the mini backend does not follow)
            let i = if ttl { rng.gen_range(1..nk) } else if !watched.is_empty() && rng.gen_bool(0.7) { *watched.choose(rng).unwrap() } else { rng.gen_range(0..nk) };
            let (l, fs) = modify(&keys[i], rng, true);
            out.count(&format!("b_write:{}", l));
            for f in fs {
                steps.push((1, f, Role::Between, l.clone()));
            }
        };
        let nwatch = if ttl { 1 } else { match rng.gen_range(0..10) { 0..=1 => 0, 2..=5 => 1, 6..=8 => 2, _ => 3 } };
        out.count(&format!("watch_commands:{}", nwatch));
        for _ in 0..nwatch {
            let mut ks: Vec<usize> = match rng.gen_range(0..10) {
                0..=5 => vec![rng.gen_range(0..nk)],
                6..=8 => vec![rng.gen_range(0..nk), rng.gen_range(0..nk)],
                _ => vec![rng.gen_range(0..nk), rng.gen_range(0..nk), rng.gen_range(0..nk)],
            };
            // re-watch an already watched key more often than chance would
            if !watched.is_empty() && rng.gen_bool(0.5) {
                ks[0] = *watched.choose(rng).unwrap();
            }
            if ttl {
                ks[0] = 0;
            }
            if ttl_quiet {
                ks.truncate(1);
            }
            if ks.iter().any(|k| watched.contains(k)) {
                out.count("watch:key_watched_again");
            }
            let mut distinct = ks.clone();
            distinct.sort();
            distinct.dedup();
            if distinct.len() < ks.len() {
                out.count("watch:key_repeated_in_one_watch");
            }
            for &i in &distinct {
                push_probes(&mut steps, keys, i, &|i, j| Role::ProbeW(i, j), "probe");
            }
            let mut args: Vec<&[u8]> = vec![b"WATCH"];
            for &i in &ks {
                args.push(&keys[i]);
            }
            steps.push((0, enc(&args), Role::Watch(ks.clone()), "watch".into()));
            for k in distinct {
                if !watched.contains(&k) {
                    watched.push(k);
                }
            }
            if rng.gen_range(0..8) == 0 {
                steps.push((0, enc(&[b"UNWATCH"]), Role::After, "unwatch".into()));
                watched.clear();
                out.count("watch:unwatch");
            }
            // B between two WATCHes / between WATCH and MULTI
            for _ in 0..rng.gen_range(0..3) {
                wr(&mut steps, rng, out, &watched);
            }
        }
        out.count(&format!("watched_keys:{}", watched.len()));
        if nwatch == 0 {
            for _ in 0..rng.gen_range(0..2) {
                wr(&mut steps, rng, out, &watched);
            }
        }
        // how A's transaction travels: 0 = one write per command; 1 = MULTI alone, then the body pipelined;
        // 2 = MULTI alone, then body + EXEC pipelined; 3 = WATCH + MULTI + body + EXEC pipelined
        let pipe = if ttl { 0 } else { match rng.gen_range(0..10) { 0..=4 => 0, 5..=6 => 1, 7..=8 => 2, _ => 3 } };
        out.count(&format!("transport:{}", ["one-write-per-command", "body-pipelined", "body+exec-pipelined", "watch+multi+body+exec-pipelined"][pipe]));
        let mut region: Vec<(Vec<u8>, Role, String)> = Vec::new();
        let probe_e = |steps: &mut Vec<Step>| {
            for i in 0..nk {
                push_probes(steps, keys, i, &|i, j| Role::ProbeE(i, j), "probe");
            }
        };
        if pipe == 3 {
            // nobody writes once the pipelined block has started: the EXEC-time fingerprints are taken now
            let kx = if !watched.is_empty() && rng.gen_bool(0.5) { *watched.choose(rng).unwrap() } else { rng.gen_range(0..nk) };
            push_probes(&mut steps, keys, kx, &|i, j| Role::ProbeW(i, j), "probe");
            probe_e(&mut steps);
            region.push((enc(&[b"WATCH", &keys[kx]]), Role::Watch(vec![kx]), "watch".into()));
            if !watched.contains(&kx) {
                watched.push(kx);
            }
        }
        if ttl && ttl_pause_before_multi && !ttl_quiet {
            steps.push((2, b"90".to_vec(), Role::Sleep(90), "pause".into()));
            if ttl_touch_shard {
                steps.push((1, enc(&[b"LLEN", &keys[0]]), Role::Between, "touch-shard".into()));
            }
        }
        if pipe == 3 {
            region.push((enc(&[b"MULTI"]), Role::Multi, "multi".into()));
        } else {
            steps.push((0, enc(&[b"MULTI"]), Role::Multi, "multi".into()));
        }
        if pipe == 2 {
            probe_e(&mut steps);
        }
        // a pipelined body starts with a run of 2-6 plain GET / SET (two SETs are already 60 bytes)
        if pipe > 0 {
            for _ in 0..rng.gen_range(2..7) {
                let k = keys.choose(rng).unwrap();
                let v = *VALS.choose(rng).unwrap();
                let f = if rng.gen_bool(0.6) { enc(&[[b"SET".as_ref(), b"set"].choose(rng).unwrap(), k, v]) } else { enc(&[[b"GET".as_ref(), b"get"].choose(rng).unwrap(), k]) };
                out.count("body:plain-get-set-run");
                region.push((f, Role::Body(true), "get/set".into()));
            }
        }
        // body
        let nb = if THOROUGH.load(std::sync::atomic::Ordering::Relaxed) && rng.gen_range(0..50) == 0 { out.count("body:100-300_commands"); rng.gen_range(100..300) } else { rng.gen_range(0..6) };
        for _ in 0..nb {
            let k = if ttl { keys[1..].choose(rng).unwrap() } else { keys.choose(rng).unwrap() };
            let v = *VALS.choose(rng).unwrap();
            let (label, frame, queued): (&str, Vec<u8>, bool) = match rng.gen_range(0..25) {
                0..=2 => ("set", enc(&[b"SET", k, v]), true),
                3 => ("get", enc(&[b"GET", k]), true),
                4..=5 => ("incr", enc(&[b"INCR", k]), true),
                6 => ("append", enc(&[b"APPEND", k, v]), true),
                7..=8 => ("lpush", enc(&[b"LPUSH", k, v]), true),
                9 => ("del", enc(&[b"DEL", k]), true),
                10 => ("hset", enc(&[b"HSET", k, b"f2", v]), true),
                11 => ("sadd", enc(&[b"SADD", k, b"m2"]), true),
                12 => ("lrange", enc(&[b"LRANGE", k, b"0", b"-1"]), true),
                13 => ("unwatch-in-multi", enc(&[b"UNWATCH"]), true),
                14 => ("hello-stub", enc(&[b"HELLO"]), true),
                15 => ("ping", enc(&[b"PING"]), true),
                16 => ("unknown", enc(&[b"FOO", k]), false),
                17 => ("arity-error", enc(&[b"GET"]), false),
                18 => ("nested-multi", enc(&[b"MULTI"]), false),
                19 => ("watch-in-multi", enc(&[b"WATCH", k]), false),
                20 => ("publish-stub", enc(&[b"PUBLISH", b"ch", v]), false),
                _ => {
                    if ttl || rng.gen_bool(0.3) { ("zadd", enc(&[b"ZADD", k, b"3", b"m3"]), true) } else { let (l, f) = wide_cmd(keys, rng); (l, f, true) }
                }
            };
            out.count(&format!("body:{}", label));
            if pipe > 0 {
                region.push((frame, Role::Body(queued), label.into()));
            } else {
                steps.push((0, frame, Role::Body(queued), label.into()));
                if rng.gen_range(0..4) == 0 {
                    wr(&mut steps, rng, out, &watched);
                }
            }
        }
        if pipe == 1 {
            push_pipelined(&mut steps, &mut sends, &mut covered, std::mem::take(&mut region), keys, rng, out);
        }
        if pipe <= 1 {
            for _ in 0..rng.gen_range(0..2) {
                wr(&mut steps, rng, out, &watched);
            }
        }
        if ttl_quiet {
            steps.push((2, b"90".to_vec(), Role::Sleep(90), "pause".into()));
        } else if ttl && !ttl_pause_before_multi {
            steps.push((2, b"90".to_vec(), Role::Sleep(90), "pause".into()));
            if ttl_touch_shard {
                steps.push((1, enc(&[b"LLEN", &keys[0]]), Role::Between, "touch-shard".into()));
            }
        }
        if pipe <= 1 && !ttl_quiet {
            probe_e(&mut steps);
        }
        let fin: Step = if rng.gen_range(0..7) == 0 { (0, enc(&[b"DISCARD"]), Role::Discard, "discard".into()) } else { (0, enc(&[b"EXEC"]), Role::Exec, "exec".into()) };
        if pipe >= 2 {
            region.push((fin.1, fin.2, fin.3));
            push_pipelined(&mut steps, &mut sends, &mut covered, std::mem::take(&mut region), keys, rng, out);
        } else {
            steps.push(fin);
        }
        if ttl_quiet {
            push_probes(&mut steps, keys, 0, &|i, j| Role::ProbeE(i, j), "probe-after-exec");
        }
        if rng.gen_bool(0.3) {
            let k = keys.choose(rng).unwrap();
            let f = match rng.gen_range(0..3) { 0 => enc(&[b"EXEC"]), 1 => enc(&[b"INCR", k]), _ => enc(&[b"DISCARD"]) };
            steps.push((0, f, Role::After, "after".into()));
        }
    }
    for i in 0..nk {
        push_probes(&mut steps, keys, i, &|i, j| Role::Dump(i, j), "dump");
    }
    flush_singles(&mut sends, &steps, &mut covered);
    Scenario { executor_level: false, steps, sends }
}

/// keyspace-wide and multi-key commands for transaction bodies
fn wide_cmd(keys: &[Vec<u8>], rng: &mut Rng) -> (&'static str, Vec<u8>) {
    let k = keys.choose(rng).unwrap();
    let k2 = keys.choose(rng).unwrap();
    let v = *VALS.choose(rng).unwrap();
    match rng.gen_range(0..7) {
        0 => ("flushall", enc(&[b"FLUSHALL"])),
        1 => ("flushdb", enc(&[b"FLUSHDB"])),
        2 | 3 => ("dbsize", enc(&[b"DBSIZE"])),
        4 => ("mset", enc(&[b"MSET", k, v, k2, b"w2"])),
        5 => ("mget", enc(&[b"MGET", k, k2])),
        _ => ("del-multi", enc(&[b"DEL", k, k2])),
    }
}

/// executor-level scenario: WATCH .. (foreign commands) .. MULTI .. body .. EXEC | DISCARD on one executor
fn gen_exec_scenario(keys: &[Vec<u8>], rng: &mut Rng, out: &mut Out) -> Scenario {
    let mut steps: Vec<Step> = Vec::new();
    let nk = keys.len();
    for k in keys {
        let t = *TYS.choose(rng).unwrap();
        out.count(&format!("x:setup:{:?}", t));
        if let Some(f) = create(k, t, rng) {
            steps.push((1, f, Role::Setup, format!("create {:?}", t)));
        }
    }
    let ttl = rng.gen_range(0..6) == 0;
    let ttl_px: &[u8] = if rng.gen_bool(0.75) { b"40" } else { b"60000" };
    let ttl_pause_in_multi = rng.gen_bool(0.5);
    // how the clock reaches the executor after the pause: 2 = set_time (evicts), 3 = update_time_readonly
    let pause_kind: usize = if rng.gen_bool(0.4) { 3 } else { 2 };
    // late watch: the deadline passes BEFORE the key is watched, the clock moves without eviction, and
    // the key is read only after the WATCH (its fingerprint "at WATCH" is taken right after it)
    let late_watch = ttl && rng.gen_range(0..3) == 0;
    if late_watch {
        out.count("x:ttl:watch_after_the_deadline_before_any_eviction");
    }
    if ttl {
        out.count(&format!("x:ttl:clock_through:{}", if late_watch || pause_kind == 3 { "update_time_readonly" } else { "set_time" }));
        out.count(&format!("x:ttl:px{}", String::from_utf8_lossy(ttl_px)));
        steps.push((1, enc(&[b"DEL", &keys[0]]), Role::Setup, "ttl-setup".into()));
        steps.push((1, enc(&[b"SET", &keys[0], b"ttl-value", b"PX", ttl_px]), Role::Setup, "set-px".into()));
    }
    let rounds = if ttl { 1 } else if rng.gen_bool(0.35) { 2 } else { 1 };
    for _ in 0..rounds {
        let mut watched: Vec<usize> = Vec::new();
        let wr = |steps: &mut Vec<Step>, rng: &mut Rng, out: &mut Out, watched: &Vec<usize>| {
            let i = if ttl { rng.gen_range(1..nk) } else if !watched.is_empty() && rng.gen_bool(0.7) { *watched.choose(rng).unwrap() } else { rng.gen_range(0..nk) };
            let (l, fs) = modify(&keys[i], rng, false);
            out.count(&format!("x:foreign_write:{}", l));
            for f in fs {
                steps.push((1, f, Role::Between, l.clone()));
            }
        };
        let nwatch = if ttl { rng.gen_range(1..3) } else { match rng.gen_range(0..10) { 0..=1 => 0, 2..=5 => 1, 6..=8 => 2, _ => 3 } };
        out.count(&format!("x:watch_commands:{}", nwatch));
        for w in 0..nwatch {
            let mut ks: Vec<usize> = match rng.gen_range(0..10) {
                0..=5 => vec![rng.gen_range(0..nk)],
                6..=8 => vec![rng.gen_range(0..nk), rng.gen_range(0..nk)],
                _ => vec![rng.gen_range(0..nk), rng.gen_range(0..nk), rng.gen_range(0..nk)],
            };
            if !watched.is_empty() && rng.gen_bool(0.5) {
                ks[0] = *watched.choose(rng).unwrap();
            }
            if ttl && w == 0 {
                ks[0] = 0;
            }
            if ks.iter().any(|k| watched.contains(k)) {
                out.count("x:watch:key_watched_again");
            }
            let mut distinct = ks.clone();
            distinct.sort();
            distinct.dedup();
            let late = late_watch && w == 0;
            if late {
                ks.truncate(1);
                distinct = vec![0];
                steps.push((3, b"90".to_vec(), Role::Sleep(90), "time-passes".into()));
            } else {
                for &i in &distinct {
                    push_probes(&mut steps, keys, i, &|i, j| Role::ProbeW(i, j), "probe");
                }
            }
            let mut args: Vec<&[u8]> = vec![b"WATCH"];
            for &i in &ks {
                args.push(&keys[i]);
            }
            steps.push((0, enc(&args), Role::Watch(ks.clone()), "watch".into()));
            if late {
                push_probes(&mut steps, keys, 0, &|i, j| Role::ProbeW(i, j), "probe");
            }
            for k in distinct {
                if !watched.contains(&k) {
                    watched.push(k);
                }
            }
            if !ttl && rng.gen_range(0..8) == 0 {
                steps.push((0, enc(&[b"UNWATCH"]), Role::After, "unwatch".into()));
                watched.clear();
                out.count("x:watch:unwatch");
            }
            for _ in 0..rng.gen_range(0..3) {
                wr(&mut steps, rng, out, &watched);
            }
        }
        if nwatch == 0 {
            for _ in 0..rng.gen_range(0..2) {
                wr(&mut steps, rng, out, &watched);
            }
        }
        if ttl && !ttl_pause_in_multi && !late_watch {
            steps.push((pause_kind, b"90".to_vec(), Role::Sleep(90), "time-passes".into()));
        }
        // nothing but time can change between MULTI and EXEC (every command is queued): the EXEC-time
        // fingerprints are taken now; the deadline key's fingerprint is taken right after EXEC
        for i in (if ttl { 1 } else { 0 })..nk {
            push_probes(&mut steps, keys, i, &|i, j| Role::ProbeE(i, j), "probe");
        }
        steps.push((0, enc(&[b"MULTI"]), Role::Multi, "multi".into()));
        let nb = if THOROUGH.load(std::sync::atomic::Ordering::Relaxed) && rng.gen_range(0..50) == 0 { out.count("body:100-300_commands"); rng.gen_range(100..300) } else { rng.gen_range(0..6) };
        out.count(&format!("x:body_commands:{}", nb));
        for _ in 0..nb {
            let k = if ttl { keys[1..].choose(rng).unwrap() } else { keys.choose(rng).unwrap() };
            let v = *VALS.choose(rng).unwrap();
            let (label, frame, queued): (&str, Vec<u8>, bool) = match rng.gen_range(0..22) {
                0..=2 => ("set", enc(&[b"SET", k, v]), true),
                3 => ("get", enc(&[b"GET", k]), true),
                4..=5 => ("incr", enc(&[b"INCR", k]), true),
                6 => ("append", enc(&[b"APPEND", k, v]), true),
                7..=8 => ("lpush", enc(&[b"LPUSH", k, v]), true),
                9 => ("del", enc(&[b"DEL", k]), true),
                10 => ("hset", enc(&[b"HSET", k, b"f2", v]), true),
                11 => ("sadd", enc(&[b"SADD", k, b"m2"]), true),
                12 => ("lrange", enc(&[b"LRANGE", k, b"0", b"-1"]), true),
                13 => ("unwatch-in-multi", enc(&[b"UNWATCH"]), true),
                14 => ("ping", enc(&[b"PING"]), true),
                15 => ("unknown-queued", enc(&[b"FOO", k]), true),
                16 => ("nested-multi", enc(&[b"MULTI"]), false),
                17 => ("watch-in-multi", enc(&[b"WATCH", k]), false),
                18 => ("zadd", enc(&[b"ZADD", k, b"3", b"m3"]), true),
                _ => {
                    let (l, f) = if ttl { ("dbsize", enc(&[b"DBSIZE"])) } else { wide_cmd(keys, rng) };
                    (l, f, true)
                }
            };
            out.count(&format!("x:body:{}", label));
            steps.push((0, frame, Role::Body(queued), label.into()));
        }
        if ttl && ttl_pause_in_multi && !late_watch {
            steps.push((pause_kind, b"90".to_vec(), Role::Sleep(90), "time-passes".into()));
        }
        if rng.gen_range(0..7) == 0 {
            steps.push((0, enc(&[b"DISCARD"]), Role::Discard, "discard".into()));
        } else {
            steps.push((0, enc(&[b"EXEC"]), Role::Exec, "exec".into()));
        }
        if ttl {
            push_probes(&mut steps, keys, 0, &|i, j| Role::ProbeE(i, j), "probe-after-exec");
        }
        if rng.gen_bool(0.3) {
            let k = keys.choose(rng).unwrap();
            let f = match rng.gen_range(0..3) { 0 => enc(&[b"EXEC"]), 1 => enc(&[b"INCR", k]), _ => enc(&[b"DISCARD"]) };
            steps.push((0, f, Role::After, "after".into()));
        }
    }
    for i in 0..nk {
        push_probes(&mut steps, keys, i, &|i, j| Role::Dump(i, j), "dump");
    }
    let mut sends = Vec::new();
    let mut covered = 0;
    flush_singles(&mut sends, &steps, &mut covered);
    Scenario { executor_level: true, steps, sends }
}

fn main() {
    let argv: Vec<String> = std::env::args().skip(1).collect();
    let args = Args::parse(&argv);
    std::panic::set_hook(Box::new(|_| {}));
    let env = Env {
        rt: tokio::runtime::Builder::new_current_thread().enable_all().build().unwrap(),
        metrics: Arc::new(Metrics::new(&DatadogConfig::from_env())),
    };
    let keys = key_alphabet();
    THOROUGH.store(args.n >= 10000, std::sync::atomic::Ordering::Relaxed);
    let mut out = Out::new(&args.out, "C05", args.shards, HEADER);
    out.nontrivial_rule = "a scenario counts when client A reached EXEC or DISCARD inside MULTI with a non-empty body or a non-empty watch list; distinct by (shards, steps, replies)".into();
    for i in 0..args.n {
        if let Some(o) = args.only {
            if o != i {
                continue;
            }
        }
        let mut rng = case_rng(args.seed, i);
        let shards = *[1usize, 1, 4, 4, 16].choose(&mut rng).unwrap();
        let xl = i % 6 == 4; // executor-level scenario
        out.count(&format!("shards:{}", shards));
        let sc = if xl { gen_exec_scenario(&keys, &mut rng, &mut out) } else { gen_scenario(&keys, &mut rng, &mut out) };
        out.count(if xl { "level:executor (CommandExecutor)" } else { "level:connection handler" });
        let runner = |sends: &[SendPlan]| if sc.executor_level { run_executor(sends) } else { run(&env, shards, sends) };
        let got = runner(&sc.sends);
        out.impl_checks += 1;
        let descr = |replies: &[Vec<u8>]| -> Vec<String> {
            sc.steps.iter().enumerate().filter(|(_, s)| !matches!(s.2, Role::DumpBefore(..) | Role::Dump(..) | Role::ProbeW(..) | Role::ProbeE(..))).map(|(j, s)| format!("{} {:?} -> {:?}", if s.0 == 0 { "A" } else if s.0 == 1 { "B" } else if s.0 == 2 { "pause ms" } else { "pause ms (clock then moves through update_time_readonly)" }, String::from_utf8_lossy(&s.1), replies.get(j).map(|r| String::from_utf8_lossy(r).to_string()))).collect()
        };
        let answered = match got {
            Ran::Ok(r) => r,
            other => {
                out.violation(i, "the connection handler panicked or hung during a transaction scenario", json!({"result": format!("{:?}", other), "steps": descr(&[])}));
                let term = format!("({} [] [] [] true)", if xl { "KXTx" } else { "KTx" });
                out.case(i, term, false, "");
                continue;
            }
        };
        // the model side: the writes as they travelled and what each was answered with
        let mut tbl: Vec<Vec<u8>> = Vec::new();
        let mut idx: std::collections::HashMap<Vec<u8>, usize> = Default::default();
        let mut ix = |b: &Vec<u8>, tbl: &mut Vec<Vec<u8>>| -> usize {
            if let Some(&n) = idx.get(b) {
                return n;
            }
            tbl.push(b.clone());
            idx.insert(b.clone(), tbl.len() - 1);
            tbl.len() - 1
        };
        // (1, i) = A writes tbl[i]; (0, i) = B writes tbl[i]; (2, ms) = a pause
        let step_ix: Vec<(usize, usize)> = sc.sends.iter().filter(|sp| !sp.oracle_only).map(|sp| if sp.conn >= 2 { (sp.conn, std::str::from_utf8(&sp.bytes).unwrap().parse().unwrap()) } else { (if sp.conn == 0 { 1 } else { 0 }, ix(&sp.bytes, &mut tbl)) }).collect();
        let reply_ix: Vec<usize> = sc.sends.iter().zip(answered.iter()).filter(|(sp, _)| !sp.oracle_only).map(|(_, r)| ix(r, &mut tbl)).collect();
        let term = format!("({} {} {} {} false)", if xl { "KXTx" } else { "KTx" }, clist(tbl.iter(), |b| chex(b)), clist(step_ix.iter(), |s| format!("({}, {})", s.0, s.1)), clist(reply_ix.iter(), |r| r.to_string()));
        let canon = format!("{}{}", shards, sc.sends.iter().zip(answered.iter()).map(|(s, r)| format!("{}{}{}", s.conn, hex(&s.bytes), hex(r))).collect::<String>());
        let replies = match per_command(&sc.sends, &answered) {
            Some(r) => r.iter().zip(sc.steps.iter()).map(|(r, st)| canon_reply(&st.1, r)).collect::<Vec<_>>(),
            None => {
                let w: Vec<String> = sc.sends.iter().zip(answered.iter()).filter(|(sp, _)| sp.conn == 0).map(|(sp, a)| format!("A writes {:?} (completes {} commands) -> {:?}", String::from_utf8_lossy(&sp.bytes), sp.completes, String::from_utf8_lossy(a))).collect();
                out.violation(i, "T1: a write was answered with a different number of replies than the commands it completes", json!({"writes_of_A": w}));
                out.case(i, term, true, &canon);
                continue;
            }
        };
        // ---------------- direct oracles, per round
        let mut in_multi = false;
        let mut aborted = false; // a queue-time error was answered
        let mut queued: Vec<Vec<u8>> = Vec::new();
        let mut watched: Vec<usize> = Vec::new();
        let mut fp_w: std::collections::BTreeMap<usize, Vec<Vec<Vec<u8>>>> = Default::default(); // per key: one fingerprint per WATCH instant
        let mut fp_e: std::collections::BTreeMap<usize, Vec<Vec<u8>>> = Default::default();
        let mut dump_b: std::collections::BTreeMap<(usize, usize), Vec<u8>> = Default::default();
        let mut twin: Vec<(usize, Vec<u8>)> = Vec::new(); // twin schedule
        let mut twin_expect: Vec<(usize, Vec<u8>)> = Vec::new(); // (twin step index, reply expected there)
        let mut nontrivial = false;
        let mut exec_kinds = Vec::new();
        for (j, s) in sc.steps.iter().enumerate() {
            let r = &replies[j];
            match &s.2 {
                Role::Setup | Role::Between | Role::Sleep(_) => twin.push((s.0, s.1.clone())),
                Role::After => {
                    if s.3 == "unwatch" {
                        watched.clear();
                        fp_w.clear();
                    }
                    if !(r.starts_with(b"-ERR EXEC without") || r.starts_with(b"-ERR DISCARD without") || s.3 == "unwatch") {
                        twin.push((s.0, s.1.clone()));
                        twin_expect.push((twin.len() - 1, r.clone()));
                    }
                }
                Role::Watch(ks) => {
                    for k in ks {
                        if !watched.contains(k) {
                            watched.push(*k);
                        }
                    }
                    if r != b"+OK\r\n" {
                        out.violation(i, "WATCH outside MULTI was not answered +OK", json!({"steps": descr(&replies)}));
                    }
                }
                Role::ProbeW(k, jj) => {
                    // a key watched again keeps its EARLIER snapshots too (watched_keys is appended to)
                    let e = fp_w.entry(*k).or_insert_with(Vec::new);
                    if *jj == 0 {
                        e.push(Vec::new());
                    }
                    e.last_mut().unwrap().push(r.clone());
                    twin.push((s.0, s.1.clone()));
                    twin_expect.push((twin.len() - 1, r.clone()));
                }
                Role::Multi => {
                    in_multi = true;
                    aborted = false;
                    queued.clear();
                    dump_b.clear();
                    if r != b"+OK\r\n" {
                        out.violation(i, "MULTI was not answered +OK", json!({"steps": descr(&replies)}));
                    }
                }
                Role::DumpBefore(k, jj) => {
                    dump_b.insert((*k, *jj), r.clone());
                    twin.push((s.0, s.1.clone()));
                    twin_expect.push((twin.len() - 1, r.clone()));
                }
                Role::Body(expect_q) => {
                    if *expect_q {
                        if r == b"+QUEUED\r\n" {
                            queued.push(s.1.clone());
                        } else {
                            out.violation(i, "T1: a queueable command inside MULTI was not answered +QUEUED", json!({"step": j, "steps": descr(&replies)}));
                        }
                    } else {
                        if r.first() != Some(&b'-') {
                            out.violation(i, "T1: a command that must be rejected inside MULTI was not answered with an error", json!({"step": j, "steps": descr(&replies)}));
                        }
                        if s.3 == "unknown" || s.3 == "arity-error" || s.3 == "publish-stub" {
                            aborted = true;
                        }
                    }
                }
                Role::ProbeE(k, jj) => {
                    fp_e.entry(*k).or_insert_with(Vec::new).push(r.clone());
                    // T4: the seven probes of a key are answered at one instant (nobody writes in between):
                    // if GET serves a string value, LRANGE must say WRONGTYPE - a key that LRANGE sees as
                    // absent while GET still serves its value is an expired key served from a stale clock
                    if *jj == 1 {
                        let g = &fp_e[k][0];
                        if g.first() == Some(&b'$') && !g.starts_with(b"$-1") && !r.starts_with(b"-WRONGTYPE") {
                            out.violation(i, "T4: GET serves a value for a key that the next command (LRANGE, generic path) sees as absent: an expired key is still served by the plain GET path", json!({"key": String::from_utf8_lossy(&keys[*k]), "get": String::from_utf8_lossy(g), "lrange": String::from_utf8_lossy(r), "steps": descr(&replies)}));
                        }
                    }
                    // T1: the twin has B's writes but none of A's queued commands: same dump = no effect until EXEC
                    let _ = jj;
                    twin.push((s.0, s.1.clone()));
                    twin_expect.push((twin.len() - 1, r.clone()));
                }
                Role::Exec | Role::Discard => {
                    nontrivial = nontrivial || !queued.is_empty() || !watched.is_empty();
                    // T1: nothing A sent since MULTI has had an effect: B's dump changed only by B's own writes.
                    // (checked through the twin below, which has B's writes but not A's queued commands.)
                    let kind;
                    if s.2 == Role::Discard {
                        kind = "discard";
                        if r != b"+OK\r\n" {
                            out.violation(i, "DISCARD inside MULTI was not answered +OK", json!({"steps": descr(&replies)}));
                        }
                    } else if aborted {
                        kind = "execabort";
                        if !r.starts_with(b"-EXECABORT") {
                            out.violation(i, "EXEC after a queue-time error was not answered EXECABORT", json!({"steps": descr(&replies)}));
                        }
                    } else {
                        // T3
                        let mut changed_keys = Vec::new();
                        for &k in &watched {
                            let w = fp_w.get(&k).cloned().unwrap_or_default();
                            let mut e = fp_e.get(&k).cloned().unwrap_or_default();
                            if e.is_empty() {
                                // quiet deadline scenario: the fingerprint is taken right after EXEC
                                for (jj, s2) in sc.steps.iter().enumerate().skip(j + 1) {
                                    match &s2.2 {
                                        Role::ProbeE(k2, _) if *k2 == k => e.push(replies[jj].clone()),
                                        _ => break,
                                    }
                                }
                            }
                            // EVERY snapshot of the key since the last EXEC / DISCARD / UNWATCH (it may have been
                            // watched more than once) must equal the EXEC-time fingerprint: the first WATCH decides
                            let differing: Vec<&Vec<Vec<u8>>> = w.iter().filter(|sn| **sn != e).collect();
                            if !differing.is_empty() {
                                let e_ns = e.first().map(|g| g.starts_with(b"-WRONGTYPE")).unwrap_or(false);
                                let nonstring_both = e_ns && differing.iter().all(|sn| sn.first().map(|g| g.starts_with(b"-WRONGTYPE")).unwrap_or(false));
                                changed_keys.push((k, nonstring_both));
                                if w.len() > 1 {
                                    out.count("t3:changed_key_watched_more_than_once");
                                    if *w.last().unwrap() == e {
                                        out.count("t3:only_an_earlier_snapshot_differs");
                                    }
                                }
                            }
                        }
                        let expect_nil = !changed_keys.is_empty();
                        // the executor answers a failed WATCH with a nil bulk, the connection handler with a nil array
                        let is_nil = r == b"*-1\r\n" || (xl && r == b"$-1\r\n");
                        let is_arr = array_elems(r).is_some();
                        if !is_nil && !is_arr {
                            out.violation(i, "EXEC answered neither nil nor an array", json!({"steps": descr(&replies)}));
                        }
                        if expect_nil && !is_nil {
                            if !xl && changed_keys.iter().all(|c| c.1) {
                                out.known("C05-watch-nonstring", i, json!({"watched_changed_keys": changed_keys.iter().map(|c| String::from_utf8_lossy(&keys[c.0]).to_string()).collect::<Vec<_>>(), "steps": descr(&replies)}));
                            } else {
                                out.violation(i, "T3: the value of a watched key changed between WATCH and EXEC but EXEC applied the transaction", json!({"changed": format!("{:?}", changed_keys), "steps": descr(&replies)}));
                            }
                        }
                        if !expect_nil && is_nil {
                            out.violation(i, "T3: no watched key changed between WATCH and EXEC but EXEC answered nil", json!({"steps": descr(&replies)}));
                        }
                        kind = if is_nil { "exec-nil" } else { "exec-applied" };
                        if is_arr {
                            let elems = array_elems(r).unwrap();
                            if elems.len() != queued.len() {
                                out.violation(i, "T2: EXEC returned a different number of results than commands queued", json!({"queued": queued.len(), "results": elems.len(), "steps": descr(&replies)}));
                            }
                            for (q, e) in queued.iter().zip(elems.iter()) {
                                // HELLO / UNWATCH are answered by the connection itself outside MULTI: compare only backend commands
                                twin.push((0, q.clone()));
                                if !(q.starts_with(b"*1\r\n$5\r\nHELLO") || q.starts_with(b"*1\r\n$7\r\nUNWATCH")) {
                                    twin_expect.push((twin.len() - 1, e.clone()));
                                }
                            }
                        }
                    }
                    exec_kinds.push(kind);
                    out.count(&format!("outcome:{}", kind));
                    in_multi = false;
                    watched.clear();
                    fp_w.clear();
                    fp_e.clear();
                    let _ = in_multi;
                }
                Role::Dump(..) => twin.push((s.0, s.1.clone())),
            }
        }
        // T2: the twin
        let ndump = sc.steps.iter().filter(|s| matches!(s.2, Role::Dump(..))).count();
        match runner(&singles(&twin)) {
            Ran::Ok(tr) => {
                let tr: Vec<Vec<u8>> = tr.iter().zip(twin.iter()).map(|(r, t)| canon_reply(&t.1, r)).collect();
                out.impl_checks += 1;
                for (idx, want) in &twin_expect {
                    if tr[*idx] != *want {
                        out.violation(i, "T1/T2: the twin run (A's queued commands sent plainly at the position of EXEC, nothing for aborted transactions) answers a command differently: a queued command had an effect before EXEC, or a result inside EXEC's array differs from the plain reply", json!({"twin_step": String::from_utf8_lossy(&twin[*idx].1), "in_exec": String::from_utf8_lossy(want), "plain": String::from_utf8_lossy(&tr[*idx]), "steps": descr(&replies)}));
                        break;
                    }
                }
                if tr[tr.len() - ndump..] != replies[replies.len() - ndump..] {
                    out.violation(i, "T2: the final keyspace differs from the twin run (aborted transactions must apply nothing, executed ones everything)", json!({"outcomes": exec_kinds, "steps": descr(&replies)}));
                }
            }
            other => out.violation(i, "the twin run panicked or hung", json!({"result": format!("{:?}", other)})),
        }
        out.case(i, term, nontrivial, &canon);
        out.sample(json!({"shards": shards, "outcomes": exec_kinds, "steps": descr(&replies)}));
        if args.only.is_some() {
            println!("shards {}", shards);
            for l in descr(&replies) {
                println!("{}", l);
            }
            println!("outcomes {:?}", exec_kinds);
        }
    }
    out.finish(args.seed);
}

//! C03: shard count is unobservable.
//! Every case runs ONE generated request sequence - all entry paths of `ShardedActorState`
//! mixed on the same keys (generic `execute`, `fast_get`/`fast_set`, the pooled variants, the
//! batch pipelines) - on a real 1-shard instance and on a real N-shard instance, N in {2,3,16},
//! and compares every reply (the tail of the sequence is a KEYS/DBSIZE/TYPE/value dump).
//! That comparison IS the property on the implementation.
//!
//! `hash_key` / `hash_key_bytes` are private, so the shard a key lives in is inferred by probing a
//! real N-shard instance:
//!   * shard 0 is recognisable: RANDOMKEY (keyless) is answered by shard 0 only;
//!   * two keys share a shard iff MSETNX [(k1,_),(k2,_)] - executed wholly on the shard of k1 -
//!     sees a k2 written before (reply 0).  Writing k2 through `execute(SET)` probes the `&str`
//!     routing function, writing it through `fast_set` probes the `&[u8]` one.
//! These observed facts (and the raw 64-bit DefaultHasher values of both byte streams) are printed
//! for the Coq side, which evaluates `home_str` / `home_bytes` of Model/Shard.v on the same keys.
use rand::seq::SliceRandom;
use rand::Rng as _;
use redis_sim::io::TimeSource;
use redis_sim::production::{ShardConfig, ShardedActorState};
use redis_sim::redis::{Command, RespValue, SDS};
use serde_json::json;
use std::collections::{BTreeMap, BTreeSet};
use std::hash::{Hash, Hasher};
use vharness::util::*;

const HEADER: &str = "From RV Require Import Corr.C03.\nLocal Open Scope string_scope.\nLocal Open Scope N_scope.\nLocal Open Scope list_scope.";
const SHARD_COUNTS: [usize; 3] = [2, 3, 16];

/// The time source of an instance: a counter the harness advances (only in 'ttl' cases). The
/// 1-shard and the N-shard instance of a case share one clock, so they see the same time.
#[derive(Clone)]
struct Clock(std::sync::Arc<std::sync::atomic::AtomicU64>);
impl Clock {
    fn new() -> Clock {
        Clock(std::sync::Arc::new(std::sync::atomic::AtomicU64::new(1_700_000_000_000)))
    }
    fn advance(&self, ms: u64) {
        self.0.fetch_add(ms, std::sync::atomic::Ordering::SeqCst);
    }
}
impl TimeSource for Clock {
    fn now_millis(&self) -> u64 {
        self.0.load(std::sync::atomic::Ordering::SeqCst)
    }
}
type State = ShardedActorState<Clock>;
fn instance_at(n: usize, clock: &Clock) -> State {
    ShardedActorState::with_config_and_time_source(ShardConfig::with_shards(n), clock.clone())
}
/// the other constructor (PerformanceConfig path), with a response pool small enough to be exhausted
fn instance_perf(n: usize, clock: &Clock, pool: (usize, usize)) -> State {
    let mut pc = redis_sim::production::PerformanceConfig::default();
    pc.num_shards = n;
    pc.response_pool.capacity = pool.0;
    pc.response_pool.prewarm = pool.1;
    ShardedActorState::with_perf_config_and_time_source(&pc, ShardConfig::with_shards(n), clock.clone())
}
fn instance(n: usize) -> State {
    instance_at(n, &Clock::new())
}

// ---------------------------------------------------------------- requests
#[derive(Clone, Debug)]
enum Rq {
    Gen(Command),
    FastGet(String),
    PooledGet(String),
    FastSet(String, Vec<u8>),
    PooledSet(String, Vec<u8>),
    PipeGet(Vec<String>),
    PipeSet(Vec<(String, Vec<u8>)>),
    /// the clock moves on by the given ms (done by the case loop, once for both instances), then one
    /// TTL-manager tick: `evict_expired_all_shards()`; the reply is the number of evicted keys
    Tick(u64),
    /// the clock moves on without a tick (only with --free_time 1)
    Advance(u64),
    /// one command sent as RESP bytes through the production connection handler ('conn' cases)
    Wire(Vec<Vec<u8>>),
}

fn b(k: &str) -> bytes::Bytes {
    bytes::Bytes::copy_from_slice(k.as_bytes())
}
async fn run_one(st: &State, r: &Rq) -> RespValue {
    match r {
        Rq::Gen(c) => st.execute(c).await,
        Rq::FastGet(k) => st.fast_get(b(k)).await,
        Rq::PooledGet(k) => st.pooled_fast_get(b(k)).await,
        Rq::FastSet(k, v) => st.fast_set(b(k), bytes::Bytes::copy_from_slice(v)).await,
        Rq::PooledSet(k, v) => st.pooled_fast_set(b(k), bytes::Bytes::copy_from_slice(v)).await,
        Rq::PipeGet(ks) => RespValue::Array(Some(st.fast_batch_get_pipeline(ks.iter().map(|k| b(k)).collect()).await)),
        Rq::PipeSet(kvs) => RespValue::Array(Some(
            st.fast_batch_set_pipeline(kvs.iter().map(|(k, v)| (b(k), bytes::Bytes::copy_from_slice(v))).collect()).await,
        )),
        Rq::Tick(_) => RespValue::Integer(st.evict_expired_all_shards().await as i64),
        Rq::Advance(_) => RespValue::simple("OK"),
        Rq::Wire(_) => unreachable!("wire commands are run by run_conn"),
    }
}

// ---------------------------------------------------------------- canonical replies
fn err_kind(s: &str) -> String {
    if s.starts_with("WRONGTYPE") {
        "WRONGTYPE".into()
    } else {
        s.to_string()
    }
}
fn sort_resp(v: &mut Vec<RespValue>) {
    v.sort_by(|a, b| format!("{:?}", a).cmp(&format!("{:?}", b)));
}
fn bulk_sort(v: &mut Vec<RespValue>) {
    v.sort_by(|a, b| match (a, b) {
        (RespValue::BulkString(Some(x)), RespValue::BulkString(Some(y))) => x.cmp(y),
        _ => format!("{:?}", a).cmp(&format!("{:?}", b)),
    });
}
/// unordered multi-element replies are sorted; error texts become kinds
fn canon(r: &Rq, v: RespValue) -> RespValue {
    let v = match v {
        RespValue::Error(e) => RespValue::Error(err_kind(&e).into()),
        RespValue::Array(Some(items)) => RespValue::Array(Some(
            items.into_iter().map(|x| if let RespValue::Error(e) = x { RespValue::Error(err_kind(&e).into()) } else { x }).collect(),
        )),
        x => x,
    };
    match (r, v) {
        // INFO prints num_shards, pid, memory, clocks: only the key count of the Keyspace section is compared
        (Rq::Gen(Command::Info), RespValue::BulkString(Some(text))) => {
            let t = String::from_utf8_lossy(&text).to_string();
            let line = t.lines().find(|l| l.starts_with("db0:")).unwrap_or("db0:absent").to_string();
            RespValue::BulkString(Some(line.into_bytes()))
        }
        // TIME is the wall clock: only the shape is compared
        (Rq::Gen(Command::Time), RespValue::Array(Some(l))) => RespValue::SimpleString(format!("time-array-of-{}", l.len()).into()),
        (Rq::Gen(Command::Keys(_)), RespValue::Array(Some(mut l)))
        | (Rq::Gen(Command::SMembers(_)), RespValue::Array(Some(mut l)))
        | (Rq::Gen(Command::HKeys(_)), RespValue::Array(Some(mut l)))
        | (Rq::Gen(Command::HVals(_)), RespValue::Array(Some(mut l))) => {
            bulk_sort(&mut l);
            RespValue::Array(Some(l))
        }
        (Rq::Gen(Command::HGetAll(_)), RespValue::Array(Some(l))) => {
            let mut pairs: Vec<RespValue> = l.chunks(2).map(|c| RespValue::Array(Some(c.to_vec()))).collect();
            sort_resp(&mut pairs);
            RespValue::Array(Some(pairs))
        }
        (Rq::Gen(Command::Scan { .. }), RespValue::Array(Some(mut parts))) => {
            if parts.len() == 2 {
                if let RespValue::Array(Some(l)) = &mut parts[1] {
                    bulk_sort(l);
                }
            }
            RespValue::Array(Some(parts))
        }
        (_, v) => v,
    }
}

// ---------------------------------------------------------------- Coq terms
fn hk(k: &str) -> String {
    chex(k.as_bytes())
}
fn reply_term(v: &RespValue) -> String {
    match v {
        RespValue::SimpleString(s) => format!("(RS {})", chex(s.as_bytes())),
        RespValue::Error(s) => format!("(RE {})", chex(s.as_bytes())),
        RespValue::Integer(i) => {
            if *i < 0 {
                format!("(RI ({})%Z)", i)
            } else {
                format!("(RI {}%Z)", i)
            }
        }
        RespValue::BulkString(None) => "(RB None)".into(),
        RespValue::BulkString(Some(x)) => format!("(RB (Some {}))", chex(x)),
        RespValue::Array(None) => "(RA None)".into(),
        RespValue::Array(Some(l)) => format!("(RA (Some {}))", clist(l.iter(), reply_term)),
    }
}
fn op(tag: &str, keys: &[&String], arg: String) -> String {
    format!("(Op \"{}\" {} {})", tag, clist(keys.iter(), |k| hk(k)), arg)
}
fn ab(v: &SDS) -> String {
    format!("(AB {})", chex(v.as_bytes()))
}
fn al(vs: &[SDS]) -> String {
    format!("(AL {})", clist(vs.iter(), |v| chex(v.as_bytes())))
}
/// Coq term of a command of the modelled subset (None: the command is outside Model/MiniKV.v)
fn cmd_term(c: &Command) -> Option<String> {
    Some(match c {
        Command::Ping(None) => "(Ping None)".into(),
        Command::Ping(Some(m)) => format!("(Ping (Some {}))", chex(m.as_bytes())),
        Command::FlushDb => "(Flush false)".into(),
        Command::FlushAll => "(Flush true)".into(),
        Command::Keys(p) => format!("(Keys {})", hk(p)),
        Command::MGet(ks) => format!("(MGet {})", clist(ks.iter(), |k| hk(k))),
        Command::MSet(kvs) => format!("(MSet {})", clist(kvs.iter(), |(k, v)| format!("({}, {})", hk(k), chex(v.as_bytes())))),
        Command::DbSize => "DbSize".into(),
        Command::Scan { cursor, pattern, count } => format!("(Scan {} {} {})", cursor, copt(pattern, |p| hk(p)), copt(count, |c| c.to_string())),
        Command::Del(ks) => format!("(Del {})", clist(ks.iter(), |k| hk(k))),
        Command::Exists(ks) => format!("(Exs {})", clist(ks.iter(), |k| hk(k))),
        Command::Get(k) => op("Get", &[k], "A0".into()),
        Command::Set { key, value, ex: None, px: None, exat: None, pxat: None, nx: false, xx: false, get: false, keepttl: false } => op("Set", &[key], ab(value)),
        Command::SetNx(k, v) => op("SetNx", &[k], ab(v)),
        Command::Append(k, v) => op("Append", &[k], ab(v)),
        Command::GetSet(k, v) => op("GetSet", &[k], ab(v)),
        Command::StrLen(k) => op("StrLen", &[k], "A0".into()),
        Command::TypeOf(k) => op("TypeOf", &[k], "A0".into()),
        Command::LPush(k, vs) => op("LPush", &[k], al(vs)),
        Command::RPush(k, vs) => op("RPush", &[k], al(vs)),
        Command::LPop(k) => op("LPop", &[k], "A0".into()),
        Command::RPop(k) => op("RPop", &[k], "A0".into()),
        Command::LLen(k) => op("LLen", &[k], "A0".into()),
        Command::LRange(k, 0, -1) => op("LRange", &[k], "A0".into()),
        Command::RPopLPush(s, d) => op("RPopLPush", &[s, d], "A0".into()),
        Command::LMove { source, dest, wherefrom, whereto } => op("LMove", &[source, dest], format!("(AD {} {})", cbool(wherefrom == "LEFT"), cbool(whereto == "LEFT"))),
        Command::Rename(s, d) => op("Rename", &[s, d], "A0".into()),
        Command::RenameNx(s, d) => op("RenameNx", &[s, d], "A0".into()),
        Command::MSetNx(kvs) => {
            let ks: Vec<&String> = kvs.iter().map(|(k, _)| k).collect();
            let vs: Vec<SDS> = kvs.iter().map(|(_, v)| v.clone()).collect();
            op("MSetNx", &ks, al(&vs))
        }
        Command::Sort { key, store: None } => op("Sort", &[key], "A0".into()),
        Command::Sort { key, store: Some(d) } => op("Sort", &[key, d], "A0".into()),
        Command::RandomKey => op("RandomKey", &[], "A0".into()),
        Command::Echo(m) => op("Echo", &[], ab(m)),
        _ => return None,
    })
}
fn rq_term(r: &Rq) -> Option<String> {
    Some(match r {
        Rq::Gen(c) => format!("(G {})", cmd_term(c)?),
        Rq::FastGet(k) => format!("(FG {})", hk(k)),
        Rq::PooledGet(k) => format!("(PG {})", hk(k)),
        Rq::FastSet(k, v) => format!("(FS {} {})", hk(k), chex(v)),
        Rq::PooledSet(k, v) => format!("(PS {} {})", hk(k), chex(v)),
        Rq::PipeGet(ks) => format!("(BG {})", clist(ks.iter(), |k| hk(k))),
        Rq::PipeSet(kvs) => format!("(BS {})", clist(kvs.iter(), |(k, v)| format!("({}, {})", hk(k), chex(v)))),
        Rq::Tick(_) | Rq::Advance(_) => return None, // time is outside the Coq model
        Rq::Wire(_) => return None,                  // so is the connection layer (C04/C05)
    })
}
fn lossy(v: &[u8]) -> String {
    format!("{:?}", String::from_utf8_lossy(v))
}
/// human-readable request (replay output, evidence samples)
fn rq_text(r: &Rq) -> String {
    let kv = |kvs: &Vec<(String, Vec<u8>)>| kvs.iter().map(|(k, v)| format!("{:?}={}", k, lossy(v))).collect::<Vec<_>>().join(" ");
    match r {
        Rq::Gen(c) => {
            let vals: Vec<String> = match c {
                Command::Set { value, ex, px, .. } => vec![lossy(value.as_bytes()), format!("ex={:?} px={:?}", ex, px)],
                Command::Expire { seconds, .. } => vec![format!("{}", seconds)],
                Command::PExpire { milliseconds, .. } => vec![format!("{}", milliseconds)],
                Command::Ttl(_) | Command::Pttl(_) | Command::Persist(_) => vec![],
                Command::SetNx(_, v) | Command::Append(_, v) | Command::GetSet(_, v) | Command::Echo(v) => vec![lossy(v.as_bytes())],
                Command::LPush(_, vs) | Command::RPush(_, vs) => vs.iter().map(|v| lossy(v.as_bytes())).collect(),
                Command::MSet(kvs) | Command::MSetNx(kvs) => kvs.iter().map(|(_, v)| lossy(v.as_bytes())).collect(),
                Command::Scan { cursor, pattern, count } => vec![format!("cursor={} match={:?} count={:?}", cursor, pattern, count)],
                Command::Sort { store, .. } => vec![format!("store={:?}", store)],
                Command::LMove { wherefrom, whereto, .. } => vec![wherefrom.clone(), whereto.clone()],
                Command::Eval { script, args, .. } => vec![format!("{:?}", script), args.iter().map(|a| lossy(a.as_bytes())).collect::<Vec<_>>().join(" ")],
                Command::EvalSha { sha1, args, .. } => vec![format!("sha={}", sha1), args.iter().map(|a| lossy(a.as_bytes())).collect::<Vec<_>>().join(" ")],
                Command::ScriptLoad(sc) => vec![format!("{:?}", sc)],
                Command::ScriptExists(shas) => vec![shas.join(" ")],
                Command::ScriptFlush => vec![],
                Command::Get(_) | Command::StrLen(_) | Command::TypeOf(_) | Command::LPop(_) | Command::RPop(_) | Command::LLen(_) | Command::LRange(..)
                | Command::MGet(_) | Command::Del(_) | Command::Exists(_) | Command::Keys(_) | Command::DbSize | Command::FlushDb | Command::FlushAll
                | Command::Ping(_) | Command::RPopLPush(..) | Command::Rename(..) | Command::RenameNx(..) | Command::RandomKey => vec![],
                other => vec![format!("{:?}", other)],
            };
            format!("execute({} keys={:?}{}{})", c.name(), c.get_keys(), if vals.is_empty() { "" } else { " " }, vals.join(" "))
        }
        Rq::FastGet(k) => format!("fast_get({:?})", k),
        Rq::PooledGet(k) => format!("pooled_fast_get({:?})", k),
        Rq::FastSet(k, v) => format!("fast_set({:?}, {})", k, lossy(v)),
        Rq::PooledSet(k, v) => format!("pooled_fast_set({:?}, {})", k, lossy(v)),
        Rq::PipeGet(ks) => format!("fast_batch_get_pipeline({:?})", ks),
        Rq::PipeSet(kvs) => format!("fast_batch_set_pipeline({})", kv(kvs)),
        Rq::Tick(ms) => format!("clock += {} ms; evict_expired_all_shards()", ms),
        Rq::Advance(ms) => format!("clock += {} ms", ms),
        Rq::Wire(a) => format!("wire: {}", a.iter().map(|x| lossy(x)).collect::<Vec<_>>().join(" ")),
    }
}
fn show(v: &RespValue) -> String {
    match v {
        RespValue::BulkString(Some(x)) => format!("bulk {}", lossy(x)),
        RespValue::BulkString(None) => "nil".into(),
        RespValue::Array(Some(l)) => format!("[{}]", l.iter().map(show).collect::<Vec<_>>().join(", ")),
        RespValue::Array(None) => "nil-array".into(),
        RespValue::SimpleString(s) => format!("+{}", s),
        RespValue::Error(s) => format!("-{}", s),
        RespValue::Integer(i) => format!(":{}", i),
    }
}
fn rq_kind(r: &Rq) -> String {
    match r {
        Rq::Gen(c) => format!("execute:{}", c.name()),
        Rq::FastGet(_) => "fast_get".into(),
        Rq::PooledGet(_) => "pooled_fast_get".into(),
        Rq::FastSet(..) => "fast_set".into(),
        Rq::PooledSet(..) => "pooled_fast_set".into(),
        Rq::PipeGet(_) => "fast_batch_get_pipeline".into(),
        Rq::PipeSet(_) => "fast_batch_set_pipeline".into(),
        Rq::Tick(_) => "tick:evict_expired_all_shards".into(),
        Rq::Advance(_) => "clock-advance-without-tick".into(),
        Rq::Wire(a) => format!("wire:{}", String::from_utf8_lossy(&a[0]).to_uppercase()),
    }
}

// ---------------------------------------------------------------- probing the real routing
struct Probe {
    st: State,
    n: usize,
}
impl Probe {
    async fn flush(&self) {
        self.st.execute(&Command::FlushAll).await;
    }
    async fn write(&self, k: &str, fast: bool) {
        if fast {
            self.st.fast_set(b(k), bytes::Bytes::from_static(b"x")).await;
        } else {
            self.st.execute(&Command::set(k.to_string(), SDS::from_str("x"))).await;
        }
    }
    /// does the key, written through the given path, live in shard 0?
    async fn in0(&self, k: &str, fast: bool) -> bool {
        self.flush().await;
        self.write(k, fast).await;
        self.st.execute(&Command::RandomKey).await != RespValue::BulkString(None)
    }
    /// shard_str(k1) == shard_<path>(k2)?  (MSETNX runs wholly on the shard of its first key)
    async fn coloc(&self, k1: &str, k2: &str, fast2: bool) -> bool {
        if k1 == k2 && !fast2 {
            return true;
        }
        self.flush().await;
        self.write(k2, fast2).await;
        let r = if k1 == k2 {
            // same name: SETNX k1 is refused iff the fast-path write landed in the shard execute() looks in
            self.st.execute(&Command::SetNx(k1.to_string(), SDS::from_str("y"))).await
        } else {
            self.st.execute(&Command::MSetNx(vec![(k1.to_string(), SDS::from_str("y")), (k2.to_string(), SDS::from_str("z"))])).await
        };
        r == RespValue::Integer(0)
    }
}
fn std_hash_str(k: &str) -> u64 {
    let mut h = std::collections::hash_map::DefaultHasher::new();
    k.hash(&mut h);
    h.finish()
}
fn std_hash_slice(k: &[u8]) -> u64 {
    let mut h = std::collections::hash_map::DefaultHasher::new();
    k.hash(&mut h);
    h.finish()
}

// ---------------------------------------------------------------- key pools
/// keys that may hold strings (and lists, when a list push creates them)
fn pool_s() -> Vec<String> {
    let mut v: Vec<String> = vec!["".into(), "k".into(), "foo".into(), "a b".into(), "ключ".into(), "键".into(), "clé:1".into()];
    for i in 0..90 {
        v.push(format!("k{}", i));
    }
    for i in 0..8 {
        v.push(format!("user:profile:{:012}", i));
    }
    v
}
/// keys that only ever hold lists (destinations of RPOPLPUSH / LMOVE / SORT..STORE)
fn pool_d() -> Vec<String> {
    let mut v: Vec<String> = vec!["d".into(), "дек".into()];
    for i in 0..90 {
        v.push(format!("d{}", i));
    }
    for i in 0..6 {
        v.push(format!("queue:pending:{:010}", i));
    }
    v
}
/// key NAMES with unusual shapes (the property quantifies over all key names): hash-tag shapes,
/// names sharing a tag / differing only inside it, blanks and control bytes, multi-byte UTF-8,
/// lengths around the SipHash block size, very long names.  All valid UTF-8 (the generic path only
/// ever sees `String` keys).  No glob metacharacters (`*`, `?`, `[`, `\`): names double as KEYS patterns.
fn pool_e() -> Vec<String> {
    let mut v: Vec<String> = [
        "{a}", "x{a}y", "{a}{b}", "{}", "{", "}", "a{", "{{a}}", "}{", "a}b{", "{a", "a}", "x{}y{a}",
        "{user:1}:inbox", "{user:1}:sent", "session:{0}", "session:{1}", "{0}", "json:{\"a\":1}",
        "x{a}1", "x{b}1", "{a}x", "{a}y", "{acct:0}:balance",
        " ", "a  b", "line\rfeed", "new\nline", "cr\r\nlf", "nul\0byte", "\0", "del\x7f", "\t",
        "ключ{тег}", "键{值}", "é", "😀", "😀{😀}x",
        "abcdefg", "abcdefgh", "abcdefghi", "abcdefghijklmno", "abcdefghijklmnop", "abcdefghijklmnopq",
        "{bcdefg}", "{bcdefgh}", "a{cdefghi}jklmnopq",
    ]
    .iter()
    .map(|s| s.to_string())
    .collect();
    v.push(format!("long:{}", "y".repeat(500)));
    v.push(format!("long:{}{{t}}", "z".repeat(300)));
    v
}
/// unusual names for list keys (destinations of the two-key commands)
fn pool_ed() -> Vec<String> {
    ["{q}:pending", "{q}:done", "q:{1}", "q:{2}", "{", "li st\n", "очередь{1}", "queue:{pending}:0123456789abcdef"].iter().map(|s| s.to_string()).collect()
}
const VALS: [&[u8]; 6] = [b"a", b"b", b"", b"10", b"\x00\xff", b"a much longer value 0123456789"];
fn val(rng: &mut Rng) -> Vec<u8> {
    VALS[rng.gen_range(0..VALS.len())].to_vec()
}
fn sds(rng: &mut Rng) -> SDS {
    SDS::new(val(rng))
}

fn name_shape(k: &str) -> &'static str {
    let tag = k.find('{').and_then(|o| k[o + 1..].find('}').map(|l| l > 0)).unwrap_or(false);
    if tag {
        "non-empty {tag}"
    } else if k.contains('{') || k.contains('}') {
        "braces without a tag"
    } else if k.bytes().any(|b| b < 0x20 || b == 0x7f) {
        "control byte"
    } else if !k.is_ascii() {
        "multi-byte UTF-8"
    } else if k.len() > 100 {
        "very long"
    } else if k.contains(' ') {
        "blank"
    } else {
        "length near a SipHash block boundary"
    }
}
struct Ctx {
    sk: Vec<String>,
    dk: Vec<String>,
}
impl Ctx {
    fn s(&self, rng: &mut Rng) -> String {
        self.sk[rng.gen_range(0..self.sk.len())].clone()
    }
    fn d(&self, rng: &mut Rng) -> String {
        self.dk[rng.gen_range(0..self.dk.len())].clone()
    }
    /// two different keys of the same pool
    fn two(&self, rng: &mut Rng) -> (String, String) {
        let pool = if rng.gen_bool(0.5) { &self.sk } else { &self.dk };
        let i = rng.gen_range(0..pool.len());
        let j = (i + rng.gen_range(1..pool.len())) % pool.len();
        (pool[i].clone(), pool[j].clone())
    }
    fn any(&self, rng: &mut Rng) -> String {
        if rng.gen_bool(0.7) {
            self.s(rng)
        } else {
            self.d(rng)
        }
    }
    fn some(&self, rng: &mut Rng, lo: usize, hi: usize, strings_only: bool) -> Vec<String> {
        let n = rng.gen_range(lo..=hi);
        (0..n).map(|_| if strings_only { self.s(rng) } else { self.any(rng) }).collect()
    }
    fn all(&self) -> Vec<String> {
        self.sk.iter().chain(self.dk.iter()).cloned().collect()
    }
}

/// KEYS / SCAN MATCH patterns over the whole grammar of CommandExecutor::glob_match: literals (a
/// key name), `*`, `?`, classes with ranges and negation - alone, combined, and as the ONLY construct
/// of the pattern - degenerate classes, and `\` (a literal for this matcher). The class patterns
/// match the plain pool names (k<n>, d<n>, "k", "d"), so their matches spread over several shards.
fn gen_pattern(rng: &mut Rng, c: &Ctx) -> String {
    const FIXED: [&str; 40] = [
        "*", "k*", "d*", "?", "*1", "k?", "??", "k??", "*{*", "*}",
        // classes only (no `*`, no `?`)
        "k[0-9]", "k[0-9][0-9]", "d[0-9][0-9]", "[kd][0-9]", "[kd][0-9][0-9]", "[kd]", "[k]", "[^k]", "[^x][0-9][0-9]",
        "k[0-4][0-9]", "k[5-9][0-9]", "[a-z][0-9][0-9]", "[a-z][^a-z]", "k[13579]", "k[1-35-7]", "[d-k][0-9]", "k[^0-4][0-9]",
        "user:profile:00000000000[0-7]", "[u]ser:profile:00000000000[^0]", "queue:pending:000000000[0-5]",
        // classes mixed with wildcards
        "[kd]*", "[^k]*", "k[0-9]*", "*[0-9]", "?[0-9]", "[kd]?", "*[^0-9]",
        // degenerate classes and the backslash
        "k[", "[z-a]", "k\\*",
    ];
    match rng.gen_range(0..10) {
        0 => c.any(rng),
        1 | 2 => {
            // a key of the case with one byte replaced by a class that contains it
            let k = c.any(rng);
            let cs: Vec<char> = k.chars().collect();
            let idx: Vec<usize> = (0..cs.len()).filter(|&i| cs[i].is_ascii_alphanumeric()).collect();
            if idx.is_empty() {
                return "[^k]*".into();
            }
            let i = idx[rng.gen_range(0..idx.len())];
            let ch = cs[i];
            let class = match rng.gen_range(0..4) {
                0 => format!("[{}]", ch),
                1 => if ch.is_ascii_digit() { "[0-9]".to_string() } else { "[a-z]".to_string() },
                2 => "[^ ]".to_string(),
                _ => format!("[x{}-{}]", ch, ch),
            };
            let mut p: String = cs[..i].iter().collect();
            p.push_str(&class);
            p.extend(cs[i + 1..].iter());
            // (names with '[' , '*', '?' are not in the pools, so the rest of the name is literal)
            p
        }
        _ => FIXED[rng.gen_range(0..FIXED.len())].to_string(),
    }
}
/// requests every shard count must answer alike (SingleHome): single-key commands on every path
/// and the fan-out commands of the dispatcher
fn gen_single_home(rng: &mut Rng, c: &Ctx) -> Rq {
    match rng.gen_range(0..100) {
        0..=7 => Rq::Gen(Command::Get(c.any(rng))),
        8..=14 => Rq::Gen(Command::set(c.s(rng), sds(rng))),
        15..=17 => Rq::Gen(Command::SetNx(c.s(rng), sds(rng))),
        18..=20 => Rq::Gen(Command::Append(c.s(rng), sds(rng))),
        21..=22 => Rq::Gen(Command::GetSet(c.s(rng), sds(rng))),
        23..=24 => Rq::Gen(Command::StrLen(c.any(rng))),
        25..=26 => Rq::Gen(Command::TypeOf(c.any(rng))),
        27..=33 => Rq::FastGet(c.any(rng)),
        34..=39 => Rq::FastSet(c.s(rng), val(rng)),
        40..=44 => Rq::PooledGet(c.any(rng)),
        45..=49 => Rq::PooledSet(c.s(rng), val(rng)),
        50..=53 => Rq::PipeGet(c.some(rng, 0, 4, false)),
        54..=57 => {
            let ks = c.some(rng, 0, 4, true);
            Rq::PipeSet(ks.into_iter().map(|k| (k, val(rng))).collect())
        }
        58..=61 => Rq::Gen(Command::LPush(c.any(rng), (0..rng.gen_range(1..3)).map(|_| sds(rng)).collect())),
        62..=65 => Rq::Gen(Command::RPush(c.any(rng), (0..rng.gen_range(1..3)).map(|_| sds(rng)).collect())),
        66..=67 => Rq::Gen(Command::LPop(c.any(rng))),
        68..=69 => Rq::Gen(Command::RPop(c.any(rng))),
        70..=71 => Rq::Gen(Command::LLen(c.any(rng))),
        72..=73 => Rq::Gen(Command::LRange(c.any(rng), 0, -1)),
        74..=78 => Rq::Gen(Command::MGet(c.some(rng, 0, 4, false))),
        79..=83 => {
            // distinct keys: in debug builds the postcondition of execute_batch_set rejects a repeated key
            // (it compares every pair, not the last one per key) and kills the shard task
            let mut ks = c.some(rng, 0, 4, true);
            let mut seen = BTreeSet::new();
            ks.retain(|k| seen.insert(k.clone()));
            Rq::Gen(Command::MSet(ks.into_iter().map(|k| (k, sds(rng))).collect()))
        }
        84..=88 => Rq::Gen(Command::Del(c.some(rng, 0, 3, false))),
        89..=92 => Rq::Gen(Command::Exists(c.some(rng, 0, 3, false))),
        93..=95 => Rq::Gen(Command::Keys(gen_pattern(rng, c))),
        96..=97 => Rq::Gen(Command::DbSize),
        98 => Rq::Gen(if rng.gen_bool(0.5) { Command::FlushDb } else { Command::FlushAll }),
        _ => Rq::Gen(match rng.gen_range(0..3) { 0 => Command::Ping(None), 1 => Command::Ping(Some(sds(rng))), _ => Command::Echo(sds(rng)) }),
    }
}
/// commands of the known-finding class: they name two or more keys (executed wholly on the shard of
/// the first) or are keyless and state dependent (executed on shard 0)
fn gen_class(rng: &mut Rng, c: &Ctx, wide: bool) -> Rq {
    let top = if wide { 15 } else { 8 };
    Rq::Gen(match rng.gen_range(0..top) {
        // executor-level MULTI/EXEC/DISCARD/WATCH/UNWATCH sent through execute(): keyless (WATCH: first
        // key) and dependent on executor state that lives on one shard only - known class; the
        // production server intercepts them in the connection layer ('conn' cases)
        10 => Command::Multi,
        11 => Command::Exec,
        12 => Command::Discard,
        13 => Command::Watch(c.some(rng, 1, 2, true)),
        14 => Command::Unwatch,
        0 => Command::RPopLPush(c.any(rng), c.d(rng)),
        1 => Command::LMove { source: c.any(rng), dest: c.d(rng), wherefrom: if rng.gen_bool(0.5) { "LEFT".into() } else { "RIGHT".into() }, whereto: if rng.gen_bool(0.5) { "LEFT".into() } else { "RIGHT".into() } },
        // source != destination: RENAME k k trips a debug postcondition of the executor (not this property)
        2 => {
            let (a, b2) = c.two(rng);
            Command::Rename(a, b2)
        }
        3 => {
            let (a, b2) = c.two(rng);
            Command::RenameNx(a, b2)
        }
        4 => {
            let ks = c.some(rng, 2, 3, true);
            Command::MSetNx(ks.into_iter().map(|k| (k, sds(rng))).collect())
        }
        5 => Command::Sort { key: c.d(rng), store: Some(c.d(rng)) },
        6 => Command::RandomKey,
        7 => Command::Sort { key: c.any(rng), store: None },
        8 => Command::Eval { script: "return redis.call('GET', KEYS[2])".into(), keys: vec![c.s(rng), c.s(rng)], args: vec![] },
        _ => Command::Eval { script: format!("return redis.call('EXISTS', '{}')", c.sk.iter().find(|k| k.chars().all(|ch| ch.is_ascii_alphanumeric())).cloned().unwrap_or_else(|| "k1".into())), keys: vec![], args: vec![] },
    })
}
/// single-key commands on the other value types (direct 1-vs-N comparison only; not in Model/MiniKV.v)
fn gen_wide(rng: &mut Rng, c: &Ctx) -> Rq {
    // (the empty key trips a debug precondition of incr_by_impl: not this property)
    let ne: Vec<&String> = c.sk.iter().filter(|k| !k.is_empty()).collect();
    let k = ne[rng.gen_range(0..ne.len())].clone();
    let m = |rng: &mut Rng| SDS::from_str(["m1", "m2", "m3"][rng.gen_range(0..3)]);
    let big = |rng: &mut Rng| SDS::from_str(["9223372036854775807", "-9223372036854775808", "9223372036854775806", "0", "-1", "1e3", " 7"][rng.gen_range(0..7)]);
    Rq::Gen(match rng.gen_range(0..56) {
        24 => Command::set(k, big(rng)),
        25 => Command::IncrBy(k, [i64::MAX, i64::MIN, 1, -1, 1 << 62][rng.gen_range(0..5)]),
        26 => Command::DecrBy(k, [i64::MAX, i64::MIN + 1, 1, -1][rng.gen_range(0..4)]),
        27 => Command::IncrByFloat(k, [0.5, -0.25, 1e3][rng.gen_range(0..3)]),
        28 => Command::GetEx { key: k, ex: None, px: None, exat: None, pxat: None, persist: rng.gen_bool(0.5) },
        29 => Command::SetBit(k, rng.gen_range(0..70), rng.gen_range(0..2)),
        30 => Command::GetBit(k, rng.gen_range(0..70)),
        31 => Command::HScan { key: k, cursor: 0, pattern: None, count: None },
        32 => Command::ZScan { key: k, cursor: 0, pattern: None, count: None },
        33 => Command::ObjectEncoding(k),
        34 => Command::ObjectRefCount(k),
        35 => Command::DebugObject(k),
        36 => Command::LIndex(c.d(rng), rng.gen_range(-2..3)),
        37 => Command::LSet(c.d(rng), rng.gen_range(-2..3), sds(rng)),
        38 => Command::LTrim(c.d(rng), rng.gen_range(-3..2), rng.gen_range(-2..4)),
        39 => Command::ZRank(k, m(rng)),
        40 => Command::ZCount(k, "-inf".into(), "+inf".into()),
        41 => Command::ZRangeByScore { key: k, min: "0".into(), max: "(3".into(), with_scores: true, limit: None },
        42 => Command::ZRevRange(k, 0, -1, false),
        43 => Command::HExists(k, m(rng)),
        44 => Command::HIncrBy(k, m(rng), rng.gen_range(-3..4)),
        45 => Command::HVals(k),
        46 => Command::ExpireTime(k),
        47 => Command::PExpireTime(k),
        48 => Command::Pttl(k),
        49 => Command::Info,
        50 => Command::Time,
        51 => Command::Select(0),
        52 => Command::ConfigGet("maxmemory".into()),
        53 => Command::Wait(0, 0),
        54 => Command::CommandCount,
        55 => Command::Unknown("NOSUCHCOMMAND".into()),
        0 => Command::SAdd(k, vec![m(rng), m(rng)]),
        1 => Command::SRem(k, vec![m(rng)]),
        2 => Command::SMembers(k),
        3 => Command::SCard(k),
        4 => Command::SIsMember(k, m(rng)),
        5 => Command::HSet(k, vec![(m(rng), sds(rng))]),
        6 => Command::HGet(k, m(rng)),
        7 => Command::HGetAll(k),
        8 => Command::HDel(k, vec![m(rng)]),
        9 => Command::HLen(k),
        10 => Command::ZAdd { key: k, pairs: vec![(rng.gen_range(0..4) as f64, m(rng))], nx: false, xx: false, gt: false, lt: false, ch: false },
        11 => Command::ZRange(k, 0, -1, true),
        12 => Command::ZScore(k, m(rng)),
        13 => Command::ZCard(k),
        14 => Command::Incr(k),
        15 => Command::IncrBy(k, rng.gen_range(-3..4)),
        16 => Command::Decr(k),
        17 => Command::HVals(k), // (GETRANGE on a non-string trips a debug postcondition of execute_getrange: not this property)
        18 => Command::SetRange(k, rng.gen_range(0..3), sds(rng)),
        19 => Command::GetDel(k),
        20 => Command::Ttl(k),
        21 => Command::Persist(k),
        22 => Command::HKeys(k),
        _ => Command::ZRem(k, vec![m(rng)]),
    })
}
fn set_ttl(k: String, v: SDS, ex: Option<i64>, px: Option<i64>) -> Command {
    Command::Set { key: k, value: v, ex, px, exat: None, pxat: None, nx: false, xx: false, get: false, keepttl: false }
}
fn px_choice(rng: &mut Rng) -> i64 {
    [1, 50, 100, 150, 1000, 2500][rng.gen_range(0..6)]
}
/// expiring keys: SET..PX/EX, EXPIRE/PEXPIRE/PERSIST, TTL/PTTL, reads through every entry point, and
/// the passage of time. Unless --free_time 1, time only moves together with a TTL-manager tick (every
/// shard is told the new time), which is the regime in which the shards' clocks agree.
fn gen_ttl(rng: &mut Rng, c: &Ctx, free_time: bool) -> Rq {
    let k = c.s(rng);
    match rng.gen_range(0..100) {
        0..=13 => Rq::Gen(set_ttl(k, sds(rng), None, Some(px_choice(rng)))),
        14..=19 => Rq::Gen(set_ttl(k, sds(rng), Some(rng.gen_range(1..4)), None)),
        20..=25 => Rq::Gen(Command::PExpire { key: c.any(rng), milliseconds: px_choice(rng), nx: false, xx: false, gt: false, lt: false }),
        26..=29 => Rq::Gen(Command::expire(c.any(rng), rng.gen_range(1..4))),
        30..=32 => Rq::Gen(Command::Persist(k)),
        33..=36 => Rq::Gen(Command::Ttl(c.any(rng))),
        37..=40 => Rq::Gen(Command::Pttl(c.any(rng))),
        41..=54 => {
            let dt = [1u64, 49, 50, 100, 101, 1000, 3000][rng.gen_range(0..7)];
            if free_time && rng.gen_bool(0.5) { Rq::Advance(dt) } else { Rq::Tick(dt) }
        }
        55..=60 => Rq::Gen(Command::Get(k)),
        61..=67 => Rq::FastGet(k),
        68..=73 => Rq::PooledGet(k),
        74..=78 => Rq::PipeGet(c.some(rng, 1, 4, false)),
        79..=82 => Rq::FastSet(k, val(rng)),
        83..=85 => Rq::PooledSet(k, val(rng)),
        86..=87 => Rq::PipeSet(vec![(k, val(rng))]),
        88..=89 => Rq::Gen(Command::MGet(c.some(rng, 1, 4, false))),
        90..=91 => Rq::Gen(Command::Exists(c.some(rng, 1, 3, false))),
        92..=93 => Rq::Gen(Command::DbSize),
        94..=95 => Rq::Gen(Command::Keys(gen_pattern(rng, c))),
        96 => Rq::Gen(Command::Scan { cursor: 0, pattern: None, count: Some(rng.gen_range(1..5)) }),
        97 => {
            // absolute deadlines around "now" (the clock starts at 1_700_000_000_000 ms and has moved a few seconds at most)
            let at_ms = 1_700_000_000_000i64 + [-1000, 0, 1, 50, 100, 1000, 3000, 6000][rng.gen_range(0..8)];
            Rq::Gen(match rng.gen_range(0..8) {
                0 => Command::ExpireAt(k, at_ms / 1000 + rng.gen_range(0..3)),
                1 => Command::PExpireAt(k, at_ms),
                2 => Command::Set { key: k, value: sds(rng), ex: None, px: None, exat: Some(at_ms / 1000 + 1), pxat: None, nx: false, xx: false, get: false, keepttl: false },
                3 => Command::Set { key: k, value: sds(rng), ex: None, px: None, exat: None, pxat: Some(at_ms), nx: false, xx: false, get: false, keepttl: false },
                4 => Command::GetEx { key: k, ex: None, px: Some(px_choice(rng)), exat: None, pxat: None, persist: false },
                5 => Command::Set { key: k, value: sds(rng), ex: None, px: None, exat: None, pxat: None, nx: false, xx: false, get: false, keepttl: true },
                6 => Command::PExpireTime(k),
                _ => Command::ExpireTime(k),
            })
        }
        98 => Rq::Gen(if rng.gen_bool(0.5) { Command::Append(k, sds(rng)) } else { Command::Del(c.some(rng, 1, 2, false)) }),
        _ => Rq::Gen(Command::LPush(c.d(rng), vec![sds(rng)])),
    }
}
/// several hundred keys that expire together, one tick, then reads through the fast paths FIRST (a
/// generic command would tell the shard the time), then the aggregate commands
fn mass_expiry(rng: &mut Rng) -> Vec<Rq> {
    let n = rng.gen_range(260..420);
    let ttl = [40i64, 100, 1000][rng.gen_range(0..3)];
    let name = |i: usize| format!("sess:{}", i);
    let mut v: Vec<Rq> = Vec::new();
    for i in 0..n {
        // a few survive the tick
        let t = if i % 37 == 5 { ttl * 100 } else { ttl };
        v.push(Rq::Gen(set_ttl(name(i), SDS::from_str("s"), None, Some(t))));
    }
    v.push(Rq::Tick(ttl as u64 + rng.gen_range(0..3)));
    let mut sample: Vec<usize> = (0..n).collect();
    sample.shuffle(rng);
    for &i in sample.iter().take(24) {
        v.push(match rng.gen_range(0..3) { 0 => Rq::FastGet(name(i)), 1 => Rq::PooledGet(name(i)), _ => Rq::PipeGet(vec![name(i), name((i + 1) % n)]) });
    }
    v.push(Rq::PipeGet((0..n).step_by(3).map(name).collect()));
    v.push(Rq::Gen(Command::DbSize));
    v.push(Rq::Gen(Command::Keys("sess:*".into())));
    v.push(Rq::Gen(Command::Keys("sess:[0-9]".into())));
    v.push(Rq::Gen(Command::Scan { cursor: 0, pattern: Some("sess:[1-3]*".into()), count: Some(500) }));
    v.push(Rq::Gen(Command::Exists(sample.iter().take(8).map(|&i| name(i)).collect())));
    v.push(Rq::Gen(Command::Pttl(name(5))));
    v.push(Rq::Gen(Command::Ttl(name(sample[0]))));
    v.push(Rq::Tick(1));
    v.push(Rq::Gen(Command::DbSize));
    v
}
// ---------------------------------------------------------------- Lua scripts ('script' cases)
/// single-key scripts: they touch KEYS[1] only (multi-key / keyless scripts are the known class)
const SCRIPTS: [&str; 9] = [
    "return redis.call('GET', KEYS[1])",
    "return redis.call('SET', KEYS[1], ARGV[1])",
    "return redis.call('INCR', KEYS[1])",
    "return ARGV[1]",
    "return redis.call('LPUSH', KEYS[1], 'x')",
    "return {KEYS[1], ARGV[1]}",
    "return redis.call('APPEND', KEYS[1], ARGV[1])",
    "return 1",
    "redis.call('SET', KEYS[1], ARGV[1]) return redis.call('STRLEN', KEYS[1])",
];
fn sha_of(script: &str) -> String {
    redis_sim::redis::lua::ScriptCache::compute_sha1(script)
}
fn script_key(rng: &mut Rng, c: &Ctx) -> String {
    let ne: Vec<&String> = c.sk.iter().filter(|k| !k.is_empty()).collect();
    ne[rng.gen_range(0..ne.len())].clone()
}
fn gen_script(rng: &mut Rng, c: &Ctx) -> Rq {
    let sc = SCRIPTS[rng.gen_range(0..SCRIPTS.len())];
    let k = script_key(rng, c);
    let args = vec![sds(rng)];
    Rq::Gen(match rng.gen_range(0..100) {
        0..=29 => Command::Eval { script: sc.to_string(), keys: vec![k], args },
        30..=64 => Command::EvalSha { sha1: sha_of(sc), keys: vec![k], args },
        65..=74 => Command::ScriptLoad(sc.to_string()),
        75..=89 => Command::ScriptExists(vec![sha_of(sc), sha_of(SCRIPTS[rng.gen_range(0..SCRIPTS.len())]), "0000000000000000000000000000000000000000".to_string()]),
        90..=94 => Command::ScriptFlush,
        _ => Command::EvalSha { sha1: "ffffffffffffffffffffffffffffffffffffffff".to_string(), keys: vec![k], args },
    })
}
/// a script introduced by EVAL on one key (or by SCRIPT LOAD), used by EVALSHA on every other key,
/// SCRIPT EXISTS, SCRIPT FLUSH, EVALSHA again
fn script_block(rng: &mut Rng, c: &Ctx) -> Vec<Rq> {
    let keys: Vec<String> = c.sk.iter().filter(|k| !k.is_empty()).cloned().collect();
    let (a, b2) = (SCRIPTS[rng.gen_range(0..SCRIPTS.len())], SCRIPTS[rng.gen_range(0..SCRIPTS.len())]);
    let mut v = Vec::new();
    let arg = || vec![SDS::from_str("7")];
    v.push(Rq::Gen(Command::Eval { script: a.to_string(), keys: vec![keys[0].clone()], args: arg() }));
    for k in &keys {
        v.push(Rq::Gen(Command::EvalSha { sha1: sha_of(a), keys: vec![k.clone()], args: arg() }));
    }
    v.push(Rq::Gen(Command::ScriptExists(vec![sha_of(a), sha_of(b2)])));
    v.push(Rq::Gen(Command::ScriptLoad(b2.to_string())));
    for k in &keys {
        v.push(Rq::Gen(Command::EvalSha { sha1: sha_of(b2), keys: vec![k.clone()], args: arg() }));
    }
    v.push(Rq::Gen(Command::ScriptExists(vec![sha_of(a), sha_of(b2)])));
    v.push(Rq::Gen(Command::ScriptFlush));
    for k in &keys {
        v.push(Rq::Gen(Command::EvalSha { sha1: sha_of(if rng.gen_bool(0.5) { a } else { b2 }), keys: vec![k.clone()], args: arg() }));
    }
    v.push(Rq::Gen(Command::ScriptExists(vec![sha_of(a), sha_of(b2)])));
    v
}

// ---------------------------------------------------------------- the connection handler ('conn' cases)
fn w(args: &[&[u8]]) -> Rq {
    Rq::Wire(args.iter().map(|a| a.to_vec()).collect())
}
fn wire_cmd(rng: &mut Rng, c: &Ctx, in_multi: bool) -> Rq {
    let ne: Vec<&String> = c.sk.iter().filter(|k| !k.is_empty()).collect();
    let k = ne[rng.gen_range(0..ne.len())].clone();
    let kb = k.as_bytes();
    let v = val(rng);
    let d = c.d(rng);
    // inside MULTI the keyspace-wide commands are more frequent
    let wide_p = if in_multi { 45 } else { 25 };
    if rng.gen_range(0..100) < wide_p {
        return match rng.gen_range(0..12) {
            0 | 1 => w(&[b"FLUSHALL"]),
            2 => w(&[b"FLUSHDB"]),
            3 | 4 => {
                let p = gen_pattern(rng, c);
                w(&[b"KEYS", p.as_bytes()])
            }
            5 | 6 => w(&[b"DBSIZE"]),
            7 => {
                let cnt = rng.gen_range(1..6).to_string();
                if rng.gen_bool(0.5) {
                    let p = gen_pattern(rng, c);
                    w(&[b"SCAN", b"0", b"MATCH", p.as_bytes(), b"COUNT", cnt.as_bytes()])
                } else {
                    w(&[b"SCAN", b"0", b"COUNT", cnt.as_bytes()])
                }
            }
            8 => {
                let ks = c.some(rng, 1, 4, false);
                let mut a: Vec<Vec<u8>> = vec![b"MGET".to_vec()];
                a.extend(ks.iter().map(|k| k.as_bytes().to_vec()));
                Rq::Wire(a)
            }
            9 => {
                let mut ks = c.some(rng, 1, 3, true);
                let mut seen = BTreeSet::new();
                ks.retain(|k| seen.insert(k.clone()));
                let mut a: Vec<Vec<u8>> = vec![b"MSET".to_vec()];
                for k in ks {
                    a.push(k.into_bytes());
                    a.push(val(rng));
                }
                Rq::Wire(a)
            }
            10 => {
                let ks = c.some(rng, 1, 3, false);
                let mut a: Vec<Vec<u8>> = vec![b"DEL".to_vec()];
                a.extend(ks.iter().map(|k| k.as_bytes().to_vec()));
                Rq::Wire(a)
            }
            _ => {
                let ks = c.some(rng, 1, 3, false);
                let mut a: Vec<Vec<u8>> = vec![b"EXISTS".to_vec()];
                a.extend(ks.iter().map(|k| k.as_bytes().to_vec()));
                Rq::Wire(a)
            }
        };
    }
    match rng.gen_range(0..12) {
        0..=2 => w(&[b"SET", kb, &v]),
        3..=5 => w(&[if rng.gen_bool(0.5) { b"GET" } else { b"get" }, kb]),
        6 => w(&[b"APPEND", kb, &v]),
        7 => w(&[b"STRLEN", kb]),
        8 => w(&[b"INCR", kb]),
        9 => w(&[b"RPUSH", d.as_bytes(), &v]),
        10 => w(&[b"LRANGE", d.as_bytes(), b"0", b"-1"]),
        _ => w(&[b"PING"]),
    }
}
/// plain commands, pipelines (several commands per read) and MULTI .. EXEC / DISCARD blocks whose bodies
/// mix keyspace-wide commands with single-key writes and reads; then a dump.
/// Returns the commands and, per command, whether it starts a new read.
fn gen_conn(rng: &mut Rng, c: &Ctx) -> (Vec<Rq>, Vec<bool>) {
    let mut seq = Vec::new();
    let items = rng.gen_range(5..14);
    for _ in 0..items {
        if rng.gen_bool(0.45) {
            if rng.gen_bool(0.25) {
                let k = script_key(rng, c);
                seq.push(w(&[b"WATCH", k.as_bytes()]));
                if rng.gen_bool(0.5) {
                    seq.push(wire_cmd(rng, c, false)); // possibly touches the watched key
                }
            }
            seq.push(w(&[b"MULTI"]));
            for _ in 0..rng.gen_range(2..7) {
                seq.push(wire_cmd(rng, c, true));
            }
            seq.push(if rng.gen_bool(0.9) { w(&[b"EXEC"]) } else { w(&[b"DISCARD"]) });
        } else {
            for _ in 0..rng.gen_range(1..4) {
                seq.push(wire_cmd(rng, c, false));
            }
        }
    }
    // a read holding many plain GETs / SETs (the batch collectors; counts around 64 / 128)
    if rng.gen_bool(0.4) {
        let g = [2usize, 3, 63, 64, 65, 129][rng.gen_range(0..6)];
        let ne: Vec<&String> = c.sk.iter().filter(|k| !k.is_empty()).collect();
        let set = rng.gen_bool(0.5);
        for i in 0..g {
            let k = ne[i % ne.len()].as_bytes();
            seq.push(if set { w(&[b"SET", k, i.to_string().as_bytes()]) } else { w(&[b"GET", k]) });
        }
    }
    seq.push(w(&[b"DBSIZE"]));
    seq.push(w(&[b"KEYS", b"*"]));
    for k in c.all() {
        if !k.is_empty() {
            seq.push(w(&[b"GET", k.as_bytes()]));
            seq.push(w(&[b"LRANGE", k.as_bytes(), b"0", b"-1"]));
        }
    }
    let pipelined = rng.gen_bool(0.5);
    let starts: Vec<bool> = (0..seq.len()).map(|i| i == 0 || !pipelined || rng.gen_bool(0.4)).collect();
    (seq, starts)
}
fn enc_wire(a: &[Vec<u8>]) -> Vec<u8> {
    let mut v = format!("*{}\r\n", a.len()).into_bytes();
    for x in a {
        v.extend_from_slice(format!("${}\r\n", x.len()).as_bytes());
        v.extend_from_slice(x);
        v.extend_from_slice(b"\r\n");
    }
    v
}
fn wire_name(r: &Rq) -> String {
    match r {
        Rq::Wire(a) => String::from_utf8_lossy(&a[0]).to_uppercase(),
        _ => String::new(),
    }
}
fn canon_wire(cmd: &Rq, v: RespValue) -> RespValue {
    let v = canon(cmd, v); // error kinds
    match (wire_name(cmd).as_str(), v) {
        ("KEYS", RespValue::Array(Some(mut l))) => {
            bulk_sort(&mut l);
            RespValue::Array(Some(l))
        }
        ("SCAN", RespValue::Array(Some(mut parts))) => {
            if parts.len() == 2 {
                if let RespValue::Array(Some(l)) = &mut parts[1] {
                    bulk_sort(l);
                }
            }
            RespValue::Array(Some(parts))
        }
        (_, v) => v,
    }
}
/// the same byte stream through a fresh OptimizedConnectionHandler on a fresh n-shard state: one
/// reply per command, in order (C04); the elements of an EXEC reply belong to the queued commands
/// `split`: the commands from that index on are sent on a SECOND connection to the same state,
/// after the first connection ended (possibly in the middle of a MULTI block)
async fn run_conn(n: usize, seq: &[Rq], starts: &[bool], split: Option<usize>) -> Vec<RespValue> {
    use redis_sim::production::ConnectionConfig;
    let state = ShardedActorState::with_shards(n);
    let cut = split.unwrap_or(seq.len()).min(seq.len());
    let mut written: Vec<u8> = Vec::new();
    for (lo, hi) in [(0usize, cut), (cut, seq.len())] {
        if lo == hi { continue; }
        let mut chunks: Vec<Vec<u8>> = Vec::new();
        for i in lo..hi {
            let bytes = match &seq[i] { Rq::Wire(a) => enc_wire(a), _ => unreachable!() };
            if starts[i] || chunks.is_empty() { chunks.push(bytes) } else { chunks.last_mut().unwrap().extend(bytes) }
        }
        let config = ConnectionConfig { max_buffer_size: 1 << 24, read_buffer_size: 1 << 20, min_pipeline_buffer: 60, batch_threshold: 2 };
        let (wr, _) = vharness::conn::run_handler(state.clone(), config, chunks).await;
        written.extend(wr);
    }
    let mut replies = Vec::new();
    let mut off = 0;
    while off < written.len() {
        match redis_sim::redis::RespParser::parse(&written[off..]) {
            Ok((v, used)) if used > 0 => {
                replies.push(v);
                off += used;
            }
            _ => {
                replies.push(RespValue::Error(format!("UNPARSABLE OUTPUT at byte {}", off).into()));
                break;
            }
        }
    }
    let mut out = Vec::new();
    let mut queue: Vec<&Rq> = Vec::new();
    let mut in_multi = false;
    for (i, r) in seq.iter().enumerate() {
        if i == cut {
            in_multi = false; // a new connection starts outside MULTI
            queue.clear();
        }
        let v = replies.get(i).cloned().unwrap_or_else(|| RespValue::Error("MISSING REPLY".into()));
        let name = wire_name(r);
        let v = match name.as_str() {
            "MULTI" => { in_multi = true; queue.clear(); v }
            "DISCARD" => { in_multi = false; queue.clear(); v }
            "EXEC" => {
                in_multi = false;
                let q = std::mem::take(&mut queue);
                match v {
                    RespValue::Array(Some(items)) if items.len() == q.len() => RespValue::Array(Some(items.into_iter().zip(q).map(|(x, c)| canon_wire(c, x)).collect())),
                    other => other,
                }
            }
            _ if in_multi => { queue.push(r); v }
            _ => canon_wire(r, v),
        };
        out.push(v);
    }
    if replies.len() != seq.len() {
        out.push(RespValue::Error(format!("{} replies for {} commands", replies.len(), seq.len()).into()));
    }
    out
}

/// key counts and value sizes around the constants of the code under test: SCAN's default COUNT 10,
/// response-pool prewarm 64 / capacity 256, connection batch sizes, 4 KiB / 64 KiB / 1 MiB values
fn big_case(rng: &mut Rng, big_max: usize) -> (Vec<Rq>, bool) {
    let mut sizes: Vec<usize> = vec![9, 10, 11, 20, 21, 63, 64, 65, 127, 128, 129, 255, 256, 257];
    if big_max > 257 {
        sizes.extend([1000, 4096, big_max]);
    }
    let m = if big_max > 100_000_000 { big_max - 100_000_000 } else { sizes[rng.gen_range(0..sizes.len())] }; // (timing aid)
    let name = |i: usize| format!("b:{}", i);
    let all: Vec<String> = (0..m).map(name).collect();
    let mut v: Vec<Rq> = Vec::new();
    // write every key through one of the bulk / per-key paths
    // (per-key generic commands cost O(keys) each in a debug build - verify_invariants after every set_time -
    // so above 300 keys only the bulk paths are used)
    match if m > 300 { [0usize, 1, 3][rng.gen_range(0..3)] } else { rng.gen_range(0..4) } {
        0 => v.push(Rq::Gen(Command::MSet(all.iter().map(|k| (k.clone(), SDS::from_str(k))).collect()))),
        1 => v.push(Rq::PipeSet(all.iter().map(|k| (k.clone(), k.as_bytes().to_vec())).collect())),
        2 => for (i, k) in all.iter().enumerate() {
            v.push(match i % 3 { 0 => Rq::FastSet(k.clone(), k.as_bytes().to_vec()), 1 => Rq::PooledSet(k.clone(), k.as_bytes().to_vec()), _ => Rq::Gen(Command::set(k.clone(), SDS::from_str(k))) });
        },
        _ => {
            // two bulk writes whose sizes are c-1 / c+1 around the count
            let cut = m / 2;
            v.push(Rq::Gen(Command::MSet(all[..cut].iter().map(|k| (k.clone(), SDS::from_str(k))).collect())));
            v.push(Rq::PipeSet(all[cut..].iter().map(|k| (k.clone(), k.as_bytes().to_vec())).collect()));
        }
    }
    v.push(Rq::Gen(Command::MGet(all.clone())));
    v.push(Rq::PipeGet(all.clone()));
    if m <= 300 {
        for k in all.iter() {
            v.push(Rq::PooledGet(k.clone())); // more pooled requests than the pool has slots
        }
    }
    v.push(Rq::Gen(Command::DbSize));
    v.push(Rq::Gen(Command::Info));
    v.push(Rq::Gen(Command::Keys("b:*".into())));
    v.push(Rq::Gen(Command::Keys("b:[0-9]".into())));
    let some: Vec<String> = if m > 300 { all.iter().step_by(m / 300 + 1).cloned().collect() } else { all.clone() };
    v.push(Rq::Gen(Command::Exists(some.clone())));
    // a complete SCAN iteration (the cursor is an index into the sorted key list, so the pages of a
    // correct server start at multiples of COUNT), then cursors and counts at the edges
    let count: Option<usize> = [None, Some(1), Some(7), Some(10), Some(11), Some(64), Some(m.saturating_sub(1).max(1)), Some(m), Some(m + 1)][rng.gen_range(0..9)];
    let step = count.unwrap_or(10);
    let mut cur = 0usize;
    let mut pages = 0;
    let max_pages = if m > 5000 { 6 } else { 45 }; // (every page of a large scan gathers and sorts all keys)
    while cur <= m + step && pages < max_pages {
        v.push(Rq::Gen(Command::Scan { cursor: cur as u64, pattern: if rng.gen_bool(0.2) { Some("b:[1-4]*".into()) } else { None }, count }));
        cur += step;
        pages += 1;
    }
    for cursor in [m.saturating_sub(1) as u64, m as u64, m as u64 + 1, u64::MAX, (1u64 << 32) + 1] {
        v.push(Rq::Gen(Command::Scan { cursor, pattern: None, count: Some([1usize, 10, usize::MAX][rng.gen_range(0..3)]) }));
    }
    // values around 4 KiB / 64 KiB / 1 MiB, written on one path and read on the other
    let mut huge = false;
    if rng.gen_bool(0.5) {
        for (j, len) in [4095usize, 4096, 4097, 65535, 65536, 65537, 1 << 20].iter().enumerate() {
            if *len >= 65535 { huge = true; }
            let k = format!("bv:{}", j);
            let val: Vec<u8> = (0..*len).map(|i| (i % 251) as u8).collect();
            match j % 3 { 0 => v.push(Rq::FastSet(k.clone(), val)), 1 => v.push(Rq::Gen(Command::set(k.clone(), SDS::new(val)))), _ => v.push(Rq::PipeSet(vec![(k.clone(), val)])) }
            v.push(Rq::Gen(Command::StrLen(k.clone())));
            v.push(if j % 2 == 0 { Rq::Gen(Command::Get(k)) } else { Rq::PooledGet(k) });
        }
    }
    // multi-key DEL of half of the keys, the rest one by one or flushed
    v.push(Rq::Gen(Command::Del(all.iter().step_by(2).cloned().collect())));
    v.push(Rq::Gen(Command::DbSize));
    v.push(Rq::Gen(Command::Exists(some)));
    v.push(Rq::Gen(Command::Scan { cursor: 0, pattern: None, count: None }));
    v.push(Rq::Gen(if rng.gen_bool(0.5) { Command::FlushAll } else { Command::Del(all.clone()) }));
    v.push(Rq::Gen(Command::DbSize));
    (v, m > 65 || huge)
}

fn dump_tail(c: &Ctx, wide: bool) -> Vec<Rq> {
    let all = c.all();
    let mut v = vec![Rq::Gen(Command::Keys("*".into())), Rq::Gen(Command::DbSize), Rq::Gen(Command::MGet(all.clone())), Rq::Gen(Command::Exists(all.clone())), Rq::PipeGet(all.clone())];
    for k in &all {
        v.push(Rq::Gen(Command::TypeOf(k.clone())));
        v.push(Rq::Gen(Command::Get(k.clone())));
        v.push(Rq::FastGet(k.clone()));
        v.push(Rq::Gen(Command::LRange(k.clone(), 0, -1)));
        if wide {
            v.push(Rq::Gen(Command::SMembers(k.clone())));
            v.push(Rq::Gen(Command::HGetAll(k.clone())));
            v.push(Rq::Gen(Command::ZRange(k.clone(), 0, -1, true)));
        }
    }
    v
}

fn main() {
    let a: Vec<String> = std::env::args().collect();
    let args = &Args::parse(&a[1..]);
    let mut out = Out::new(&args.out, "C03", args.shards, HEADER);
    out.nontrivial_rule = "one case = one request sequence (8-30 requests + a KEYS/DBSIZE/MGET/EXISTS/TYPE/GET/LRANGE dump of every key of the case) run on a real 1-shard and a real N-shard ShardedActorState, N drawn from {2,3,16}; all entry paths mixed on 6-10 keys: plain names from two pools that cover every shard of every N plus 1-2 names of unusual shape (hash-tag shapes {a}, x{a}y, {}, {{a}}, shared / differing tags, blanks, CR/LF/NUL/0x7f, multi-byte UTF-8, lengths 7/8/9/15/16/17, 300-500 byte names); every string key is written through one entry path and read back through the other routing function's paths inside the sequence; 'pure' cases use only single-home requests, 'class' cases add two-key / keyless state-dependent commands, 'scan' cases add SCAN with a small COUNT and cursors, 'script' cases add single-key EVAL / EVALSHA (sha computed by the harness) / SCRIPT LOAD / SCRIPT EXISTS / SCRIPT FLUSH with a script introduced on one key and used on the others; 'conn' cases send one RESP byte stream (plain commands, pipelines, MULTI..EXEC/DISCARD blocks mixing FLUSHALL/FLUSHDB/KEYS/DBSIZE/SCAN/MGET/MSET/DEL/EXISTS with single-key writes and reads) through the production OptimizedConnectionHandler on a 1-shard and an N-shard state; 'wide' cases add sets/hashes/zsets/counters and 'ttl' cases add SET..PX/EX, EXPIRE/PEXPIRE/PERSIST, TTL/PTTL, clock advances with evict_expired_all_shards ticks and (35 %) a block of 260-420 keys expiring in one tick followed by fast-path reads (both compared 1-vs-N only: time is outside the Coq model); KEYS / SCAN MATCH patterns cover the whole glob grammar of the executor (literals, *, ?, classes with ranges and negation, class-only patterns, degenerate classes); every case also carries the routing facts observed by probing (shard-0 membership and co-location under both routing functions) and the raw DefaultHasher values of its keys; non-trivial = the N-shard run touched at least two different shards; distinct by request text".into();
    if std::env::var("C03_PANICS").is_err() { std::panic::set_hook(Box::new(|_| {})); }
    let rt = tokio::runtime::Builder::new_current_thread().enable_all().build().unwrap();
    let range: Vec<u64> = match args.only { Some(i) => vec![i], None => (0..args.n).collect() };
    let (ps, pd, pe, ped) = (pool_s(), pool_d(), pool_e(), pool_ed());
    let free_time = args.get("free_time", 0) == 1;
    let big_max = args.get("big_max", 257) as usize;
    let force_big = args.get("force_big", 0) == 1;

    if args.get("nonutf8", 0) == 1 {
        // observation only (not part of the check): a key that is not valid UTF-8
        rt.block_on(async {
            let raw: &[u8] = b"k\xff\xfe";
            let lossy_key = String::from_utf8_lossy(raw).to_string();
            for n in [1usize, 16] {
                let st = instance(n);
                let w = st.fast_set(bytes::Bytes::from_static(b"k\xff\xfe"), bytes::Bytes::from_static(b"v")).await;
                let g_fast = st.fast_get(bytes::Bytes::from_static(b"k\xff\xfe")).await;
                let g_gen = st.execute(&Command::Get(lossy_key.clone())).await;
                let keys = st.execute(&Command::Keys("*".into())).await;
                let w2 = st.execute(&Command::set(lossy_key.clone(), SDS::from_str("w"))).await;
                let dbsize = st.execute(&Command::DbSize).await;
                println!("{} shard(s): fast_set(k\\xff\\xfe)={} fast_get(raw)={} execute(GET lossy {:?})={} KEYS*={} then execute(SET lossy)={} DBSIZE={}",
                    n, show(&w), show(&g_fast), lossy_key, show(&g_gen), show(&keys), show(&w2), show(&dbsize));
            }
        });
        return;
    }
    rt.block_on(async {
        // ---- partition of the key pools by shard, observed on real N-shard instances
        let mut probes: BTreeMap<usize, Probe> = BTreeMap::new();
        let mut class_of: BTreeMap<usize, BTreeMap<String, usize>> = BTreeMap::new();
        for &n in SHARD_COUNTS.iter() {
            let p = Probe { st: instance(n), n };
            let mut reps: Vec<String> = Vec::new();
            let mut cls: BTreeMap<String, usize> = BTreeMap::new();
            for k in ps.iter().chain(pd.iter()).chain(pe.iter()).chain(ped.iter()) {
                let mut found = None;
                for (ci, r) in reps.iter().enumerate() {
                    if p.coloc(r, k, false).await {
                        found = Some(ci);
                        break;
                    }
                }
                let ci = match found {
                    Some(ci) => ci,
                    None => {
                        reps.push(k.clone());
                        reps.len() - 1
                    }
                };
                cls.insert(k.clone(), ci);
            }
            for _ in 0..reps.len() {
                out.count(&format!("pool_shards_observed_n{}", n));
            }
            // both pools must reach every shard, so that every shard pair can be hit by two-key commands
            let s_cls: BTreeSet<usize> = ps.iter().map(|k| cls[k]).collect();
            let d_cls: BTreeSet<usize> = pd.iter().map(|k| cls[k]).collect();
            if reps.len() != n || s_cls.len() != n || d_cls.len() != n {
                out.violation(0, "key pool does not reach every shard (harness precondition)", json!({"n": n, "classes": reps.len(), "string_pool": s_cls.len(), "list_pool": d_cls.len()}));
            }
            probes.insert(n, p);
            class_of.insert(n, cls);
        }
        let mut pairs_hit: BTreeMap<usize, BTreeSet<(usize, usize)>> = BTreeMap::new();

        for i in range {
            let mut rng = case_rng(args.seed, i);
            // mostly the three shard counts whose pools are partitioned at start-up; sometimes another
            // one (powers of two and not, up to max_shards = 256)
            const EXTRA_COUNTS: [usize; 8] = [4, 5, 7, 8, 17, 32, 64, 256];
            let n = if rng.gen_bool(0.12) { EXTRA_COUNTS[rng.gen_range(0..EXTRA_COUNTS.len())] } else { SHARD_COUNTS[rng.gen_range(0..SHARD_COUNTS.len())] };
            let flavour = match rng.gen_range(0..100) { 0..=35 => "pure", 36..=49 => "class", 50..=56 => "scan", 57..=68 => "wide", 69..=79 => "ttl", 80..=86 => "script", 87..=94 => "conn", _ => "big" };
            let flavour = if force_big { "big" } else { flavour };
            let wide = flavour == "wide";
            let mut sk = ps.clone();
            sk.shuffle(&mut rng);
            sk.truncate(rng.gen_range(3..6));
            // one or two names of unusual shape among the string keys, sometimes one among the list keys
            let mut ek = pe.clone();
            ek.shuffle(&mut rng);
            ek.truncate(rng.gen_range(1..3));
            sk.retain(|k| !ek.contains(k));
            sk.extend(ek.iter().cloned());
            let mut dk = pd.clone();
            dk.shuffle(&mut rng);
            dk.truncate(rng.gen_range(2..4));
            if rng.gen_bool(0.4) {
                let x = ped[rng.gen_range(0..ped.len())].clone();
                if !sk.contains(&x) && !dk.contains(&x) {
                    dk.push(x);
                }
            }
            sk.retain(|k| !dk.contains(k));
            let c = Ctx { sk, dk };
            let (mut conn_seq, mut conn_starts): (Vec<Rq>, Vec<bool>) = (Vec::new(), Vec::new());
            if flavour == "conn" {
                let (a, b2) = gen_conn(&mut rng, &c);
                conn_seq = a;
                conn_starts = b2;
            }
            let len = rng.gen_range(8..31);
            let mut seq: Vec<Rq> = Vec::new();
            for _ in 0..len {
                let r = match flavour {
                    "class" if rng.gen_bool(0.25) => gen_class(&mut rng, &c, false),
                    "scan" if rng.gen_bool(0.2) => Rq::Gen(Command::Scan { cursor: if rng.gen_bool(0.8) { 0 } else { rng.gen_range(1..4) }, pattern: if rng.gen_bool(0.5) { Some(gen_pattern(&mut rng, &c)) } else { None }, count: if rng.gen_bool(0.8) { Some(rng.gen_range(1..4)) } else { None } }),
                    "wide" if rng.gen_bool(0.5) => gen_wide(&mut rng, &c),
                    "wide" if rng.gen_bool(0.15) => gen_class(&mut rng, &c, true),
                    "ttl" if rng.gen_bool(0.75) => gen_ttl(&mut rng, &c, free_time),
                    "script" if rng.gen_bool(0.6) => gen_script(&mut rng, &c),
                    _ => gen_single_home(&mut rng, &c),
                };
                seq.push(r);
            }
            // every string key of the case is written through one entry path and read back through the
            // paths of the OTHER routing function (and once more through its own), in the same sequence
            let at = rng.gen_range(0..=seq.len());
            let mut block: Vec<Rq> = Vec::new();
            for k in c.sk.iter() {
                let v = val(&mut rng);
                match rng.gen_range(0..6) {
                    0 => block.push(Rq::FastSet(k.clone(), v)),
                    1 => block.push(Rq::PooledSet(k.clone(), v)),
                    2 => block.push(Rq::PipeSet(vec![(k.clone(), v)])),
                    3 => block.push(Rq::Gen(Command::set(k.clone(), SDS::new(v)))),
                    4 => block.push(Rq::Gen(Command::MSet(vec![(k.clone(), SDS::new(v))]))),
                    _ => block.push(Rq::Gen(Command::Append(k.clone(), SDS::new(v)))),
                }
                let wrote_fast = matches!(block.last(), Some(Rq::FastSet(..)) | Some(Rq::PooledSet(..)) | Some(Rq::PipeSet(_)));
                if wrote_fast {
                    block.push(match rng.gen_range(0..4) { 0 => Rq::Gen(Command::Get(k.clone())), 1 => Rq::Gen(Command::MGet(vec![k.clone()])), 2 => Rq::Gen(Command::Exists(vec![k.clone()])), _ => Rq::Gen(Command::StrLen(k.clone())) });
                    block.push(match rng.gen_range(0..3) { 0 => Rq::FastGet(k.clone()), 1 => Rq::PooledGet(k.clone()), _ => Rq::PipeGet(vec![k.clone()]) });
                } else {
                    block.push(match rng.gen_range(0..3) { 0 => Rq::FastGet(k.clone()), 1 => Rq::PooledGet(k.clone()), _ => Rq::PipeGet(vec![k.clone()]) });
                    block.push(match rng.gen_range(0..2) { 0 => Rq::Gen(Command::Get(k.clone())), _ => Rq::Gen(Command::MGet(vec![k.clone()])) });
                }
            }
            for r in &block {
                out.count(&format!("cross-path:{}", rq_kind(r)));
            }
            let tail_part = seq.split_off(at);
            seq.extend(block);
            seq.extend(tail_part);
            if flavour == "ttl" {
                if rng.gen_bool(0.35) {
                    out.count("ttl:mass-expiry-block");
                    seq.extend(mass_expiry(&mut rng));
                }
                // the dump is taken after a tick, and reports TTLs
                seq.push(Rq::Tick(rng.gen_range(0..200)));
                for k in c.all() {
                    seq.push(Rq::FastGet(k.clone()));
                    seq.push(Rq::Gen(Command::Pttl(k.clone())));
                    seq.push(Rq::Gen(Command::Ttl(k)));
                }
            }
            if flavour == "script" {
                seq.extend(script_block(&mut rng, &c));
            }
            let mut no_model = false;
            if flavour == "big" {
                let (b2, heavy) = big_case(&mut rng, big_max);
                out.count(&format!("big:requests~{}", (b2.len() / 100) * 100));
                no_model = heavy;
                seq.extend(b2);
            }
            let len = seq.len();
            for k in ek.iter() {
                out.count(&format!("name-shape:{}", name_shape(k)));
            }
            if flavour == "scan" {
                seq.push(Rq::Gen(Command::Scan { cursor: 0, pattern: None, count: Some(2) }));
            }
            seq.extend(dump_tail(&c, wide));
            let is_conn = flavour == "conn";
            let (seq, len) = if is_conn { let l = conn_seq.len(); (conn_seq, l) } else { (seq, len) };
            out.count(&format!("flavour:{}", flavour));
            out.count(&format!("shards:{}", n));
            for r in &seq[..seq.len().min(len + 1)] {
                out.count(&rq_kind(r));
            }

            // ---- run on the implementation: 1 shard and N shards, fresh instances
            let clock = Clock::new();
            let ctor = rng.gen_range(0..3);
            let pool = [(256usize, 64usize), (2, 1), (64, 64)][rng.gen_range(0..3)];
            let (one, many) = if ctor == 0 { (instance_perf(1, &clock, pool), instance_perf(n, &clock, pool)) } else { (instance_at(1, &clock), instance_at(n, &clock)) };
            // requests alternate between the state and a clone of it (the server hands a clone to every connection)
            let (one2, many2) = (one.clone(), many.clone());
            out.count(if ctor == 0 { "ctor:with_perf_config_and_time_source" } else { "ctor:with_config_and_time_source" });
            let mut obs1 = Vec::new();
            let mut obsn = Vec::new();
            // the number a sweep reports is no reply to any client: it is compared only while time has
            // moved together with sweeps alone (then every shard count has evicted the same keys); once the
            // clock has advanced without a sweep, a single shard has lazily dropped keys that other shards
            // of an N-shard node have had no reason to look at, and the counts legitimately differ
            let mut free_seen = false;
            let mut rq_no = 0u64;
            if is_conn {
                let split = if rng.gen_bool(0.4) { Some(rng.gen_range(1..seq.len())) } else { None };
                if split.is_some() { out.count("conn:two-connections-on-one-state"); }
                obs1 = run_conn(1, &seq, &conn_starts, split).await;
                obsn = run_conn(n, &seq, &conn_starts, split).await;
            }
            for r in seq.iter().filter(|_| !is_conn) {
                if let Rq::Tick(ms) | Rq::Advance(ms) = r {
                    clock.advance(*ms);
                }
                if matches!(r, Rq::Advance(_)) {
                    free_seen = true;
                }
                rq_no += 1;
                let (a, b) = if rq_no % 2 == 0 { (run_one(&one, r).await, run_one(&many, r).await) } else { (run_one(&one2, r).await, run_one(&many2, r).await) };
                if free_seen && matches!(r, Rq::Tick(_)) {
                    obs1.push(RespValue::simple("OK"));
                    obsn.push(RespValue::simple("OK"));
                } else {
                    obs1.push(canon(r, a));
                    obsn.push(canon(r, b));
                }
            }

            // ---- routing facts of this case's keys, observed on the probe instance
            let keys = c.all();
            if !probes.contains_key(&n) {
                probes.insert(n, Probe { st: instance(n), n });
            }
            let p = &probes[&n];
            // shard classes of the case's keys: from the start-up partition, or (other shard counts) by probing now
            let cls_local: BTreeMap<String, usize>;
            let cls: &BTreeMap<String, usize> = if let Some(m) = class_of.get(&n) { m } else {
                let mut reps: Vec<String> = Vec::new();
                let mut m: BTreeMap<String, usize> = BTreeMap::new();
                for k in &keys {
                    let mut found = None;
                    for (ci, r) in reps.iter().enumerate() {
                        if p.coloc(r, k, false).await { found = Some(ci); break; }
                    }
                    let ci = match found { Some(ci) => ci, None => { reps.push(k.clone()); reps.len() - 1 } };
                    m.insert(k.clone(), ci);
                }
                cls_local = m;
                &cls_local
            };
            let mut facts: Vec<String> = Vec::new();
            let mut split_keys: Vec<String> = Vec::new();
            for k in &keys {
                let other = &keys[rng.gen_range(0..keys.len())];
                let in0g = p.in0(k, false).await;
                let in0f = p.in0(k, true).await;
                let same_path = p.coloc(k, k, true).await; // shard_str(k) == shard_bytes(k)
                let cgg = p.coloc(k, other, false).await;
                let cgf = p.coloc(k, other, true).await;
                out.impl_checks += 1;
                if !same_path {
                    split_keys.push(k.clone());
                }
                facts.push(format!("(RF {} {} {} {} {} {} {} {})", hk(k), hk(other), cbool(in0g), cbool(in0f), cbool(same_path), cbool(cgg), cbool(cgf),
                    format!("{} {}", std_hash_str(k), std_hash_slice(k.as_bytes()))));
            }
            // the sharpest form of the property: a key written through the fast path is read back through execute()
            if !split_keys.is_empty() {
                let k = &split_keys[0];
                let o = instance(1);
                let m = instance(n);
                let w = Rq::FastSet(k.clone(), b"v".to_vec());
                let g = Rq::Gen(Command::Get(k.clone()));
                run_one(&o, &w).await;
                run_one(&m, &w).await;
                let (r1, rn) = (run_one(&o, &g).await, run_one(&m, &g).await);
                out.violation(i, "a key written through fast_set is not found by execute(GET) on N shards (hash_key(&str) and hash_key_bytes(&[u8]) route the same key to different shards); 1 shard answers the value",
                    json!({"shards": n, "key": k, "keys_of_this_case_with_two_homes": split_keys, "sequence": ["fast_set(key, \"v\")", "execute(GET key)"],
                           "reply_1_shard": show(&r1), "reply_n_shards": show(&rn)}));
            }

            // ---- the property itself: N shards answer like 1 shard
            let cross = |r: &Rq| -> Option<&'static str> {
                if let Rq::Gen(cmd) = r {
                    let ks: Vec<String> = match cmd {
                        Command::RPopLPush(..) | Command::LMove { .. } | Command::Rename(..) | Command::RenameNx(..) | Command::MSetNx(_) | Command::Sort { .. } | Command::Eval { .. } => cmd.get_keys(),
                        Command::RandomKey | Command::Multi | Command::Exec | Command::Discard | Command::Watch(_) | Command::Unwatch => return Some("keyless"),
                        _ => vec![],
                    };
                    if matches!(cmd, Command::Eval { .. }) && ks.is_empty() {
                        return Some("keyless");
                    }
                    let cs: BTreeSet<usize> = ks.iter().filter_map(|k| cls.get(k).copied()).collect();
                    if cs.len() > 1 {
                        return Some("cross");
                    }
                }
                None
            };
            for r in &seq {
                if let Rq::Gen(cmd) = r {
                    let ks = cmd.get_keys();
                    if ks.len() >= 2 && ks.len() <= 16 && !matches!(cmd, Command::Keys(_)) {
                        for x in &ks {
                            for y in &ks {
                                if let (Some(a), Some(b2)) = (cls.get(x), cls.get(y)) {
                                    pairs_hit.entry(n).or_default().insert((*a, *b2));
                                }
                            }
                        }
                    }
                }
            }
            out.impl_checks += seq.len() as u64;
            // RANDOMKEY may answer any key of the store it looks at (hash-map iteration order, seeded per
            // process): only "some key" vs "nil" is compared between the two instances
            let blur = |r: &Rq, v: &RespValue| -> RespValue {
                match (r, v) {
                    (Rq::Gen(Command::RandomKey), RespValue::BulkString(Some(_))) => RespValue::BulkString(Some(b"<some key>".to_vec())),
                    _ => v.clone(),
                }
            };
            let first_diff = (0..seq.len()).find(|&j| blur(&seq[j], &obs1[j]) != blur(&seq[j], &obsn[j]));
            if let Some(j) = first_diff {
                let class_before = seq[..=j].iter().position(|r| cross(r).is_some());
                let scan_before = seq[..=j].iter().position(|r| matches!(r, Rq::Gen(Command::Scan { .. })));
                let detail = json!({"shards": n, "flavour": flavour, "first_differing_request_index": j, "request": rq_text(&seq[j]),
                    "reply_1_shard": show(&obs1[j]), "reply_n_shards": show(&obsn[j]),
                    "class_command_before": class_before.map(|x| rq_text(&seq[x])), "scan_before": scan_before.map(|x| rq_text(&seq[x])),
                    "sequence": seq[..=j].iter().map(rq_text).collect::<Vec<_>>()});
                if let Some(_) = class_before {
                    out.known("C03-cross-shard-keys", i, detail);
                } else {
                    // (SCAN is single-home since /repo d46063a: a difference after a SCAN is a violation like any other)
                    out.violation(i, "N shards answered a request differently from 1 shard", detail);
                }
            }

            // ---- the Coq case
            let modelled: Option<Vec<String>> = if no_model { None } else { seq.iter().map(rq_term).collect() };
            let (reqs, o1, on) = match &modelled {
                Some(ts) => (format!("[{}]", ts.join("; ")), clist(obs1.iter(), reply_term), clist(obsn.iter(), reply_term)),
                None => ("[]".to_string(), "[]".to_string(), "[]".to_string()),
            };
            let term = format!("(KC {} [{}] {} {} {})", n, facts.join("; "), reqs, on, o1);
            let touched: BTreeSet<usize> = keys.iter().filter_map(|k| cls.get(k).copied()).collect();
            let canon_text = seq.iter().map(rq_text).collect::<Vec<_>>().join("|");
            out.case(i, term, touched.len() >= 2, &format!("{}#{}", n, canon_text));
            out.count(if modelled.is_some() { "coq:sequence+routing" } else { "coq:routing-only" });
            out.sample(json!({"shards": n, "flavour": flavour, "requests": seq.iter().take(len).map(rq_text).collect::<Vec<_>>()}));
            if args.only.is_some() {
                println!("case {} ({} shards, {}): keys {:?}", i, n, flavour, keys);
                println!("routing facts (key, other, in-shard-0 via execute, via fast path, same home on both paths, co-located with other via execute/execute, execute/fast, std hash of str / of [u8]):");
                for f in &facts {
                    println!("  {}", f);
                }
                for (j, r) in seq.iter().enumerate() {
                    let mark = if blur(r, &obs1[j]) != blur(r, &obsn[j]) { "  <-- DIFFERS" } else { "" };
                    println!("  [{}] {}\n        1 shard : {}\n        {} shards: {}{}", j, rq_text(r), show(&obs1[j]), n, show(&obsn[j]), mark);
                }
            }
        }
        for (n, s) in &pairs_hit {
            for _ in 0..s.len() {
                out.count(&format!("ordered_shard_pairs_hit_by_multi_key_commands_n{}", n));
            }
        }
        let _ = &probes.values().map(|p| p.n).count();
    });
    out.finish(args.seed);
}

//! C18: anti-entropy digests and one digest-driven sync round.
//! Correspondence cases for the Coq model (Model/Digest.v, h := SipHash-1-3) and the
//! property itself evaluated on the implementation:
//!   O1  equal content  => !differs_from and no divergent bucket
//!   O2  different content => differs_from (a miss is a finding only inside the
//!       digest-blind class: every differing key has a value the value hash does not cover)
//!   O3  after one run_anti_entropy_sync whose limit covers the divergent buckets both
//!       sides hold merge(prior values) for every key of those buckets, keys elsewhere
//!       are untouched, and a second digest exchange finds no divergence
//!   O4  repeated rounds under a small limit either converge or reach a divergent fixed
//!       point (limit starvation, a known finding)
use vharness::rv::{obs, rv_term};
use rand::seq::SliceRandom;
use rand::Rng as _;
use redis_sim::redis::SDS;
use redis_sim::redis::Command;
use redis_sim::replication::anti_entropy::{AntiEntropyConfig, AntiEntropyManager, KeyDigest, StateDigest};
use redis_sim::replication::lattice::{GCounter, GSet, LamportClock, ORSet, PNCounter, ReplicaId, VectorClock};
use redis_sim::replication::state::{CrdtValue, ReplicatedValue, ReplicationDelta, ShardReplicaState};
use redis_sim::replication::ConsistencyLevel;
use redis_sim::simulator::multi_node::MultiNodeSimulation;
use serde_json::json;
use std::collections::{BTreeMap, BTreeSet, HashMap};
use vharness::util::*;

const HEADER0: &str = "From RV Require Import Corr.C18.\nLocal Open Scope string_scope.\nLocal Open Scope N_scope.\nLocal Open Scope list_scope.";
const NSYM_KEYS: usize = 120;

/// Coq elaborates a string literal at ~50 us per character, which dominated the run time
/// of the case files; keys and LWW values come from small alphabets, so the header defines
/// each of them once (`Definition k7 := "6b37".`) and the cases refer to the names.
fn header() -> String {
    let mut h = String::from(HEADER0);
    for i in 0..NSYM_KEYS {
        h.push_str(&format!("\nDefinition k{} := {}.", i, chex(key_name(i).as_bytes())));
    }
    for (i, v) in VALS.iter().enumerate() {
        h.push_str(&format!("\nDefinition v{} := {}.", i, chex(v)));
    }
    h
}
fn key_sym(k: &str) -> String {
    for i in 0..NSYM_KEYS {
        if key_name(i) == k {
            return format!("k{}", i);
        }
    }
    chex(k.as_bytes())
}
fn val_sym(v: &[u8]) -> String {
    match VALS.iter().position(|x| *x == v) {
        Some(i) => format!("v{}", i),
        None => chex(v),
    }
}

type Map = HashMap<String, ReplicatedValue>;

const VALS: [&[u8]; 6] = [b"", b"a", b"bb", b"\x00\xff", b"10", b"a"];
const FIELDS: [&str; 3] = ["f1", "f2", "\u{e9}"];
const ELEMS: [&str; 3] = ["x", "y", ""];

fn key_name(i: usize) -> String {
    match i {
        0 => " ".to_string(),
        1 => "\u{e9}k".to_string(),
        _ => format!("k{}", i),
    }
}

/// One local write on `key`; returns the delta a replica would gossip.
fn local_op(rng: &mut Rng, s: &mut ShardReplicaState, key: &str, kind: u32, plain: bool) -> Option<ReplicationDelta> {
    let rid = s.replica_id;
    match kind {
        0 => {
            if rng.gen_bool(0.8) {
                let val: Vec<u8> = if plain && rng.gen_bool(0.05) {
                    longval(LENS[rng.gen_range(0..LENS.len())], rng.gen())
                } else {
                    VALS[rng.gen_range(0..VALS.len())].to_vec()
                };
                let exp = if !plain && rng.gen_bool(0.3) { Some(rng.gen_range(0..5u64) * 1000) } else { None };
                Some(s.record_write(key.to_string(), SDS::new(val), exp))
            } else {
                s.record_delete(key.to_string())
            }
        }
        5 => {
            if rng.gen_bool(0.8) {
                let n = rng.gen_range(1..3);
                let fields: Vec<(String, SDS)> = (0..n)
                    .map(|_| (FIELDS[rng.gen_range(0..FIELDS.len())].to_string(), SDS::new(VALS[rng.gen_range(0..VALS.len())].to_vec())))
                    .collect();
                Some(s.record_hash_write(key.to_string(), fields))
            } else {
                s.record_hash_delete(key.to_string(), vec![FIELDS[rng.gen_range(0..FIELDS.len())].to_string()])
            }
        }
        _ => {
            let mut v = s.replicated_keys.remove(key).unwrap_or_else(|| ReplicatedValue::new(rid));
            let nops = rng.gen_range(1..3);
            let crdt = match kind {
                1 => {
                    let mut g = match &v.crdt { CrdtValue::GCounter(g) => g.clone(), _ => GCounter::new() };
                    for _ in 0..nops { g.increment_by(rid, rng.gen_range(0..4)); }
                    CrdtValue::GCounter(g)
                }
                2 => {
                    let mut p = match &v.crdt { CrdtValue::PNCounter(g) => g.clone(), _ => PNCounter::new() };
                    for _ in 0..nops {
                        if rng.gen_bool(0.5) { p.increment_by(rid, rng.gen_range(0..4)); } else { p.decrement_by(rid, rng.gen_range(0..4)); }
                    }
                    CrdtValue::PNCounter(p)
                }
                3 => {
                    let mut g = match &v.crdt { CrdtValue::GSet(g) => g.clone(), _ => GSet::new() };
                    for _ in 0..nops { g.add(ELEMS[rng.gen_range(0..ELEMS.len())].to_string()); }
                    CrdtValue::GSet(g)
                }
                _ => {
                    let mut o = match &v.crdt { CrdtValue::ORSet(g) => g.clone(), _ => ORSet::new() };
                    for _ in 0..nops {
                        let e = ELEMS[rng.gen_range(0..ELEMS.len())].to_string();
                        if rng.gen_bool(0.7) { o.add(e, rid); } else { o.remove(&e); }
                    }
                    CrdtValue::ORSet(o)
                }
            };
            v.crdt = crdt;
            v.timestamp = s.lamport_clock.tick();
            if !plain && rng.gen_bool(0.2) {
                let mut vc = v.vector_clock.clone().unwrap_or_else(VectorClock::new);
                vc.increment(rid);
                v.vector_clock = Some(vc);
            }
            s.replicated_keys.insert(key.to_string(), v.clone());
            Some(ReplicationDelta::new(key.to_string(), v, rid))
        }
    }
}

struct Hist {
    st: Vec<ShardReplicaState>,
    log: Vec<ReplicationDelta>,
}

/// Three replicas write to a small key space and gossip some of the deltas to each other.
/// `plain`: LWW strings only, no expiry / vector clock / rf (every value digest-visible).
fn history(rng: &mut Rng, plain: bool, nkeys: usize, steps: usize, deliver: f64) -> Hist {
    let level = if !plain && rng.gen_bool(0.3) { ConsistencyLevel::Causal } else { ConsistencyLevel::Eventual };
    let mut st: Vec<ShardReplicaState> = (1..=3u64).map(|r| ShardReplicaState::new(ReplicaId(r), level)).collect();
    for s in st.iter_mut() {
        s.lamport_clock.time = rng.gen_range(0..3);
    }
    let kinds = [0u32, 0, 0, 5, 5, 1, 2, 3, 4];
    // a key keeps its kind (a rare re-typing gives mixed-kind merges)
    let kind_of: Vec<u32> = (0..nkeys).map(|_| if plain { 0 } else { kinds[rng.gen_range(0..kinds.len())] }).collect();
    let mut log: Vec<ReplicationDelta> = Vec::new();
    for _ in 0..steps {
        let r = rng.gen_range(0..3usize);
        if !log.is_empty() && rng.gen_bool(deliver) {
            let d = log[rng.gen_range(0..log.len())].clone();
            if d.source_replica != st[r].replica_id {
                st[r].apply_remote_delta(d);
            }
        } else {
            let ki = rng.gen_range(0..nkeys);
            let kind = if !plain && rng.gen_bool(0.03) { kinds[rng.gen_range(0..kinds.len())] } else { kind_of[ki] };
            if let Some(d) = local_op(rng, &mut st[r], &key_name(ki), kind, plain) {
                log.push(d);
            }
            if !plain && rng.gen_bool(0.03) {
                if let Some(v) = st[r].replicated_keys.get_mut(&key_name(ki)) {
                    v.replication_factor = Some(rng.gen_range(1..5));
                }
            }
        }
    }
    Hist { st, log }
}

fn content(m: &Map) -> BTreeMap<String, String> {
    m.iter().map(|(k, v)| (k.clone(), obs(v))).collect()
}
fn visible(v: &ReplicatedValue) -> bool {
    match v.lww() {
        Some(l) => {
            l.timestamp == v.timestamp
                && (l.tombstone == l.value.is_none())
                && v.vector_clock.is_none()
                && v.expiry_ms.is_none()
                && v.replication_factor.is_none()
        }
        None => false,
    }
}
fn rebuild_shuffled(rng: &mut Rng, m: &Map) -> Map {
    let mut e: Vec<(&String, &ReplicatedValue)> = m.iter().collect();
    e.sort_by(|a, b| a.0.cmp(b.0));
    e.shuffle(rng);
    let mut out: Map = HashMap::new();
    for (k, v) in e {
        out.insert(k.clone(), v.clone());
    }
    out
}
fn fold_deltas(rng: &mut Rng, log: &[ReplicationDelta], rid: u64) -> Map {
    let mut d: Vec<&ReplicationDelta> = log.iter().collect();
    d.shuffle(rng);
    let mut s = ShardReplicaState::new(ReplicaId(rid), ConsistencyLevel::Eventual);
    for x in d {
        s.apply_remote_delta(x.clone());
    }
    s.replicated_keys
}

/// Lengths around powers of two and around the 8-byte SipHash block / any sampling
/// threshold a digest might use, up to a few KiB.
const LENS: [usize; 22] = [47, 63, 64, 65, 127, 128, 129, 255, 256, 257, 300, 511, 512, 513, 514, 768, 1023, 1024, 1025, 2048, 4096, 4097];

/// A long LWW string is a deterministic byte pattern of (len, seed), possibly with a few
/// bytes overwritten, so that the Coq case can name it as `(lv len seed [(off, byte)])`
/// instead of a hex literal (Corr/C18.v `lv`): byte i = (seed + 31 i + 7 (i >> 8)) mod 256.
fn pat(i: usize, seed: u8) -> u8 {
    (seed as usize).wrapping_add(31 * i).wrapping_add(7 * (i >> 8)) as u8
}
fn longval(len: usize, seed: u8) -> Vec<u8> {
    (0..len).map(|i| pat(i, seed)).collect()
}
/// (seed, patches) such that `b` = longval(len, seed) with the patches applied, if few.
fn long_decode(b: &[u8]) -> Option<(u8, Vec<(usize, u8)>)> {
    if b.len() < 40 {
        return None;
    }
    let mut best: Option<(u8, Vec<(usize, u8)>)> = None;
    for seed in [b[0], b[1].wrapping_sub(31), b[2].wrapping_sub(62)] {
        let d: Vec<(usize, u8)> = (0..b.len()).filter(|&i| b[i] != pat(i, seed)).map(|i| (i, b[i])).collect();
        if d.len() <= 4 && best.as_ref().map_or(true, |x| d.len() < x.1.len()) {
            best = Some((seed, d));
        }
    }
    best
}
fn bytes_term(b: &[u8]) -> Option<String> {
    long_decode(b).map(|(seed, d)| format!("(lv {} {} {})", b.len(), seed, clist(d.iter(), |(o, x)| format!("({},{})", o, x))))
}

/// Coq term of a value: the short form `VL` for a plain LWW register stamped like its
/// wrapper (no vector clock / expiry / rf) — `VB` when its string is a long pattern value —
/// and the general `V` form of Corr/C07.v otherwise.
fn val_term(v: &ReplicatedValue) -> String {
    if let Some(l) = v.lww() {
        if l.timestamp == v.timestamp && v.vector_clock.is_none() && v.expiry_ms.is_none() && v.replication_factor.is_none() {
            if let Some(t) = l.value.as_ref().and_then(|x| bytes_term(x.as_bytes())) {
                return format!("(VB {} {} {} {})", t, num(v.timestamp.time), num(v.timestamp.replica_id.0), cbool(l.tombstone));
            }
            return format!(
                "(VL {} {} {} {})",
                copt(&l.value, |x| val_sym(x.as_bytes())),
                num(v.timestamp.time),
                num(v.timestamp.replica_id.0),
                cbool(l.tombstone)
            );
        }
    }
    rv_term(v, false)
}
/// Short description of a value for logs (long strings abbreviated).
fn brief(v: &ReplicatedValue) -> String {
    match v.get() {
        Some(x) if x.as_bytes().len() >= 40 => format!("lww len {} fnv {:016x} @({},{})", x.as_bytes().len(), fx(&hex(x.as_bytes())), v.timestamp.time, v.timestamp.replica_id.0),
        _ => obs(v),
    }
}
fn entries_term(m: &Map) -> String {
    clist(m.iter(), |(k, v)| format!("({}, {})", key_sym(k), val_term(v)))
}
/// u64 as a Coq N literal; hexadecimal for large values (Coq converts a 20-digit decimal
/// literal about six times slower than the same number in hex).
fn num(x: u64) -> String {
    if x < 100_000 { x.to_string() } else { format!("0x{:x}", x) }
}
/// (G root count max nbuckets [(index, hash, count, max) of every bucket != MerkleNode::empty()])
fn digest_term(d: &StateDigest) -> String {
    let empty = redis_sim::replication::anti_entropy::MerkleNode::empty();
    format!(
        "(G {} {} {} {} {})",
        num(d.root_hash),
        d.key_count,
        num(d.max_timestamp),
        d.buckets.len(),
        clist(d.buckets.iter().enumerate().filter(|(_, b)| **b != empty), |(i, b)| format!("({},{},{},{})", i, num(b.hash), b.count, num(b.max_timestamp)))
    )
}
fn bucket_of_key(k: &str, v: &ReplicatedValue, depth: usize) -> usize {
    KeyDigest::new(k, v).bucket(depth)
}
fn keys_in(m: &Map, dv: &[usize], depth: usize) -> usize {
    m.iter().filter(|(k, v)| dv.contains(&bucket_of_key(k, v, depth))).count()
}

/// O1/O2 on a pair of states; returns (content_equal, differs).
fn digest_oracle(out: &mut Out, i: u64, tag: &str, a: &Map, b: &Map, da: &StateDigest, db: &StateDigest) -> (bool, bool) {
    let (ca, cb) = (content(a), content(b));
    let dif = da.differs_from(db);
    let dv = da.divergent_buckets(db);
    out.impl_checks += 1;
    if ca == cb {
        if dif || !dv.is_empty() {
            out.violation(
                i,
                &format!("{}: equal states reported divergent (differs_from = {}, divergent buckets {:?})", tag, dif, dv),
                json!({"keys": ca.len(), "state": ca, "root_a": da.root_hash, "root_b": db.root_hash,
                       "order_a": a.keys().collect::<Vec<_>>(), "order_b": b.keys().collect::<Vec<_>>()}),
            );
        }
        (true, dif)
    } else {
        if !dif {
            // which keys differ, and is each such difference outside what the value hash covers?
            let keys: BTreeSet<&String> = ca.keys().chain(cb.keys()).collect();
            let mut blind = true;
            let mut diffs = Vec::new();
            for k in keys {
                if ca.get(k) != cb.get(k) {
                    let ok = match (a.get(k), b.get(k)) {
                        (Some(x), Some(y)) => !(visible(x) && visible(y)),
                        _ => false,
                    };
                    blind &= ok;
                    let offs: Option<Vec<usize>> = match (a.get(k).and_then(|v| v.get()), b.get(k).and_then(|v| v.get())) {
                        (Some(p), Some(q)) if p.as_bytes().len() == q.as_bytes().len() => {
                            Some((0..p.as_bytes().len()).filter(|&j| p.as_bytes()[j] != q.as_bytes()[j]).take(8).collect())
                        }
                        _ => None,
                    };
                    diffs.push(json!({"key": k, "a": a.get(k).map(brief), "b": b.get(k).map(brief), "differing_byte_offsets": offs}));
                }
            }
            let d = json!({"differing": diffs, "root": da.root_hash});
            if blind {
                out.known("C18-digest-blind", i, d);
            } else {
                out.violation(i, &format!("{}: different digest-visible states have equal digests (false in-sync)", tag), d);
            }
        }
        (false, dif)
    }
}

/// Stamp fields: mostly small, sometimes at the u64 extremes / 2^63 apart / equal mod 64.
/// (time stays below u64::MAX - 2^20: apply_remote_delta advances the receiver's clock to
/// max + 1 per delta, which is C08's overflow, not this property's.)
fn stamp(rng: &mut Rng, small_time: u64) -> LamportClock {
    let time = if rng.gen_bool(0.12) {
        *[0u64, 1 << 32, (1 << 63) - 1, 1 << 63, (1 << 63) + 1, u64::MAX - (1 << 21), u64::MAX - (1 << 21) - 1].choose(rng).unwrap()
    } else {
        small_time
    };
    let rid = if rng.gen_bool(0.12) {
        *[0u64, 64, 65, 128, 1 << 32, 1 << 63, u64::MAX - 1, u64::MAX].choose(rng).unwrap()
    } else {
        rng.gen_range(1..4)
    };
    LamportClock { time, replica_id: ReplicaId(rid) }
}

/// what get_keys_in_buckets / handle_sync_request must return for `m`: the entries in
/// iteration order whose bucket is requested (all if None), the first `limit` of them
fn expected_keys(m: &Map, buckets: Option<&[usize]>, depth: usize, limit: usize) -> Vec<String> {
    m.iter()
        .filter(|(k, v)| buckets.map_or(true, |b| b.contains(&bucket_of_key(k, v, depth))))
        .take(limit)
        .map(|(k, _)| k.clone())
        .collect()
}
fn deltas_oracle(out: &mut Out, i: u64, tag: &str, m: &Map, ds: &[ReplicationDelta], want: &[String], src: ReplicaId) {
    out.impl_checks += 1;
    let got: Vec<&String> = ds.iter().map(|d| &d.key).collect();
    if got != want.iter().collect::<Vec<_>>() {
        out.violation(i, &format!("{}: wrong keys (expected the first `limit` entries of the requested buckets in iteration order)", tag), json!({"got": got, "want": want}));
        return;
    }
    for d in ds {
        if d.source_replica != src || m.get(&d.key).map(obs) != Some(obs(&d.value)) || rv_term(&d.value, false) != rv_term(&m[&d.key], false) {
            out.violation(i, &format!("{}: a delta does not carry the sender's current value / replica id", tag), json!({"key": d.key, "delta": brief(&d.value), "held": m.get(&d.key).map(brief)}));
            return;
        }
    }
}
/// every field of a StateDigest against the map it was built from
fn digest_fields_oracle(out: &mut Out, i: u64, tag: &str, m: &Map, d: &StateDigest, rid: ReplicaId, generation: u64, depth: usize) {
    out.impl_checks += 1;
    let maxts = m.values().map(|v| v.timestamp.time).max().unwrap_or(0);
    let mut per: BTreeMap<usize, (usize, u64)> = BTreeMap::new();
    for (k, v) in m {
        let e = per.entry(bucket_of_key(k, v, depth)).or_insert((0, 0));
        e.0 += 1;
        e.1 = e.1.max(v.timestamp.time);
    }
    let mut bad = d.replica_id != rid || d.generation != generation || d.key_count != m.len() || d.max_timestamp != maxts || d.buckets.len() != (1usize << depth);
    for (j, b) in d.buckets.iter().enumerate() {
        let (c, t) = per.get(&j).copied().unwrap_or((0, 0));
        bad |= b.count != c || b.max_timestamp != t || (c == 0 && b.hash != 0);
    }
    if bad {
        out.violation(i, &format!("{}: a StateDigest field (replica_id, generation, key_count, max_timestamp, bucket count/max) does not describe the map", tag),
            json!({"keys": m.len(), "key_count": d.key_count, "max": maxts, "max_timestamp": d.max_timestamp, "buckets": d.buckets.len()}));
    }
}

/// O3: after a covering round that fired, every key of a divergent bucket holds the merge of
/// the prior values on both sides, other keys are untouched, Compatible pairs agree and a
/// second digest exchange finds nothing.
fn merged_oracle(out: &mut Out, i: u64, tag: &str, a0: &Map, b0: &Map, a1: &Map, b1: &Map, dv: &[usize], depth: usize, da2: &StateDigest, db2: &StateDigest) {
    out.impl_checks += 1;
    let keys: BTreeSet<&String> = a0.keys().chain(b0.keys()).collect();
    let mut any_incompatible = false;
    for k in keys {
        let (x, y) = (a0.get(k), b0.get(k));
        let bk = bucket_of_key(k, x.or(y).unwrap(), depth);
        let (ea, eb): (Option<ReplicatedValue>, Option<ReplicatedValue>) = if dv.contains(&bk) {
            match (x, y) {
                (Some(x), Some(y)) => (Some(x.merge(y)), Some(y.merge(x))),
                (Some(x), None) => (Some(x.clone()), Some(x.clone())),
                (None, Some(y)) => (Some(y.clone()), Some(y.clone())),
                _ => unreachable!(),
            }
        } else {
            (x.cloned(), y.cloned())
        };
        let got = (a1.get(k).map(obs), b1.get(k).map(obs));
        let want = (ea.as_ref().map(obs), eb.as_ref().map(obs));
        if got != want {
            out.violation(i, &format!("{}: after a covering sync round a key does not hold merge(prior A, prior B) (or an untouched key changed)", tag),
                json!({"key": k, "bucket": bk, "divergent": dv, "a": x.map(brief), "b": y.map(brief), "got": [a1.get(k).map(brief), b1.get(k).map(brief)], "want": [ea.as_ref().map(brief), eb.as_ref().map(brief)]}));
            return;
        }
        // the two sides agree afterwards only if the prior values are Compatible (C07):
        // equal LWW stamps on different registers keep "self" on each side
        // (and values of different kinds under equal outer stamps keep "self" as well)
        let incompatible = match (x, y) {
            (Some(vx), Some(vy)) => match (vx.lww(), vy.lww()) {
                (Some(p), Some(q)) => p.timestamp == q.timestamp && obs(vx) != obs(vy),
                _ => vx.crdt_type() != vy.crdt_type() && vx.timestamp == vy.timestamp,
            },
            _ => false,
        };
        if incompatible {
            any_incompatible = true;
            continue;
        }
        if dv.contains(&bk) && got.0 != got.1 {
            out.violation(i, &format!("{}: after a covering sync round the two sides differ on a key of a divergent bucket", tag),
                json!({"key": k, "a": x.map(brief), "b": y.map(brief), "a_after": a1.get(k).map(brief), "b_after": b1.get(k).map(brief)}));
            return;
        }
    }
    if any_incompatible {
        out.count("round:incompatible-pair (equal stamps, different strings)");
    } else if da2.differs_from(db2) || !da2.divergent_buckets(db2).is_empty() {
        out.violation(i, &format!("{}: a second digest exchange after a covering sync round still finds divergence", tag),
            json!({"divergent_before": dv, "divergent_after": da2.divergent_buckets(db2)}));
    }
}

fn main() {
    let a: Vec<String> = std::env::args().collect();
    let args = &Args::parse(&a[1..]);
    let mut out = Out::new(&args.out, "C18", args.shards, &header());
    out.nontrivial_rule = "pairs of replica states (HashMap<String,ReplicatedValue>) produced by three real ShardReplicaStates writing LWW/hash/counter/set values to a small key space and gossiping part of the deltas; pair = same content rebuilt in a shuffled insertion order / same delta set folded in two orders / two partially synced replicas / small-limit pair / long LWW strings (47..4097 bytes) under equal outer stamps that are equal, differ in one byte (head, middle, tail) or only in length / the same (value, stamp) records permuted, rotated or duplicated over 2-4 keys of one bucket; depth 0-3 (1-8 buckets, many keys per bucket) or 8; non-trivial = both states non-empty and some bucket holds >= 2 keys; distinct by canonical text of (content A, content B, depth, limit)".into();
    let range: Vec<u64> = match args.only { Some(i) => vec![i], None => (0..args.n).collect() };
    let rounds_max = args.get("rounds", 12);
    for i in range {
        let mut rng = case_rng(args.seed, i);
        let scen = *[0u32, 0, 0, 1, 1, 2, 2, 2, 3, 4, 4, 6, 7, 7, 8, 8].choose(&mut rng).unwrap();
        let scen = if rng.gen_bool(0.004) { 5 } else { scen };
        let scen = if rng.gen_bool(args.get("big", 5) as f64 / 10000.0) { 9 } else { scen };
        let plain = rng.gen_bool(0.45);
        let nkeys = *[1usize, 3, 6, 10, 16, 24, 40].choose(&mut rng).unwrap();
        let steps = rng.gen_range(nkeys..(3 * nkeys + 6));
        let mut depth: usize = *[0usize, 1, 1, 2, 2, 3].choose(&mut rng).unwrap();
        if rng.gen_bool(0.03) {
            depth = 8;
        }
        if rng.gen_bool(0.0015) {
            depth = 12; // 4096 buckets
        }
        let mut limit: usize = 1000;
        let h = history(&mut rng, plain, nkeys, steps, if scen == 2 || scen == 4 { 0.3 } else { 0.15 });
        let Hist { st, log } = h;
        let mut it = st.into_iter();
        let (s0, s1, s2) = (it.next().unwrap(), it.next().unwrap(), it.next().unwrap());
        let third: Map = s2.replicated_keys;
        let first_two: Option<(Map, Map)> = if plain && scen != 5 && scen != 9 && rng.gen_bool(0.3) { Some((s0.replicated_keys.clone(), s1.replicated_keys.clone())) } else { None };
        let (ma, mb, name): (Map, Map, &str) = match scen {
            0 => {
                let b = rebuild_shuffled(&mut rng, &s0.replicated_keys);
                (s0.replicated_keys, b, "rebuilt")
            }
            1 => (fold_deltas(&mut rng, &log, 8), fold_deltas(&mut rng, &log, 9), "two-orders"),
            2 => (s0.replicated_keys, s1.replicated_keys, "partial"),
            3 => {
                // both replicas eventually receive every delta, in different orders
                let (mut x, mut y) = (s0, s1);
                let mut d: Vec<&ReplicationDelta> = log.iter().collect();
                d.shuffle(&mut rng);
                for z in &d { if z.source_replica != x.replica_id { x.apply_remote_delta((*z).clone()); } }
                d.shuffle(&mut rng);
                for z in &d { if z.source_replica != y.replica_id { y.apply_remote_delta((*z).clone()); } }
                (x.replicated_keys, y.replicated_keys, "healed")
            }
            4 => {
                limit = rng.gen_range(1..4);
                depth = depth.min(1);
                let b = if rng.gen_bool(0.5) { HashMap::new() } else { s1.replicated_keys };
                (s0.replicated_keys, b, "small-limit")
            }
            6 => {
                // hash-field blindness: A merged both field writes, B only the later one
                let mut x = ShardReplicaState::new(ReplicaId(1), ConsistencyLevel::Eventual);
                let mut y = ShardReplicaState::new(ReplicaId(2), ConsistencyLevel::Eventual);
                for s in [&mut x, &mut y] { for d in &log { s.apply_remote_delta(d.clone()); } }
                let k = key_name(rng.gen_range(0..nkeys.max(3)) + 50);
                x.lamport_clock.time = rng.gen_range(0..4);
                y.lamport_clock.time = x.lamport_clock.time + rng.gen_range(1..4);
                x.record_hash_write(k.clone(), vec![("f1".to_string(), SDS::new(b"1".to_vec()))]);
                let d = y.record_hash_write(k.clone(), vec![("f2".to_string(), SDS::new(b"2".to_vec()))]);
                x.apply_remote_delta(d);
                (x.replicated_keys, y.replicated_keys, "hash-blind")
            }
            7 => {
                // long LWW strings under EQUAL outer stamps on both replicas: equal, one byte
                // different at some offset (start / middle / end / around 256 from either end),
                // or different only in length.  Everything here is digest-visible, so any
                // difference must show in the digest.
                let (mut x, mut y): (Map, Map) = (s0.replicated_keys.clone(), s0.replicated_keys);
                let n = rng.gen_range(1..5);
                for j in 0..n {
                    let k = key_name(60 + j);
                    let len = LENS[rng.gen_range(0..LENS.len())];
                    let seed: u8 = rng.gen();
                    let st = rng.gen_range(1..9);
                    let ts = stamp(&mut rng, st);
                    let va = longval(len, seed);
                    let mut vb = va.clone();
                    let variant = rng.gen_range(0..6);
                    match variant {
                        0 => {}
                        1..=3 => {
                            let mut offs = vec![0, len / 2, len - 1, rng.gen_range(0..len)];
                            if len > 256 { offs.push(256); offs.push(len - 257); offs.push(255); offs.push(len - 256); }
                            let o = offs[rng.gen_range(0..offs.len())];
                            vb[o] ^= 1u8 << rng.gen_range(0..8);
                            out.count(if o < 256.min(len) { "long:diff-in-head" } else if o + 256 >= len { "long:diff-in-tail" } else { "long:diff-in-middle" });
                        }
                        4 => {
                            let l2 = if rng.gen_bool(0.5) { len + 1 } else { len - 1 };
                            vb = longval(l2, seed);
                            out.count("long:diff-length");
                        }
                        _ => {
                            vb = longval(LENS[rng.gen_range(0..LENS.len())], seed);
                            out.count("long:other-length");
                        }
                    }
                    if va == vb { out.count("long:equal"); }
                    x.insert(k.clone(), ReplicatedValue::with_value(SDS::new(va), ts));
                    y.insert(k, ReplicatedValue::with_value(SDS::new(vb), ts));
                }
                if rng.gen_bool(0.25) {
                    // a long key (key hash over several SipHash blocks), same or different short values
                    let kl = *[7usize, 8, 9, 15, 16, 17, 63, 64, 65, 255, 256, 257, 1024].choose(&mut rng).unwrap();
                    let k: String = (0..kl).map(|j| (b'a' + ((j * 7 + kl) % 26) as u8) as char).collect();
                    let ts = stamp(&mut rng, 3);
                    let va = VALS[rng.gen_range(0..VALS.len())].to_vec();
                    let vb = if rng.gen_bool(0.5) { va.clone() } else { VALS[rng.gen_range(0..VALS.len())].to_vec() };
                    x.insert(k.clone(), ReplicatedValue::with_value(SDS::new(va), ts));
                    if rng.gen_bool(0.8) { y.insert(k, ReplicatedValue::with_value(SDS::new(vb), ts)); }
                    out.count("long:key");
                }
                (x, y, "long-equal-stamp")
            }
            8 => {
                // the same (value, stamp) records attached to different keys of ONE bucket:
                // A and B hold the same multiset of keys (of that bucket) and draw from the same
                // records, but the assignment key -> record is permuted (swap / rotation),
                // or one record is duplicated on several keys (A: all X, B: all Y), or equal.
                // Everything is digest-visible; a digest that combines key and value hashes
                // per bucket without binding them together cannot tell these states apart.
                let (mut x, mut y): (Map, Map) = (s0.replicated_keys.clone(), s0.replicated_keys);
                depth = depth.min(3);
                let probe = ReplicatedValue::with_value(SDS::new(vec![]), LamportClock { time: 1, replica_id: ReplicaId(1) });
                let mut by_bucket: BTreeMap<usize, Vec<String>> = BTreeMap::new();
                for j in 61..NSYM_KEYS {
                    let k = key_name(j);
                    by_bucket.entry(bucket_of_key(&k, &probe, depth)).or_default().push(k);
                }
                let mut groups: Vec<Vec<String>> = by_bucket.into_values().filter(|g| g.len() >= 2).collect();
                groups.shuffle(&mut rng);
                let ngroups = rng.gen_range(1..3).min(groups.len());
                for g in groups.iter_mut().take(ngroups) {
                    g.shuffle(&mut rng);
                    let nk = rng.gen_range(2..5).min(g.len());
                    let keys = &g[..nk];
                    // records: (value, stamp); stamps may repeat across records (same time mostly,
                    // so that max_timestamp of the bucket does not give the difference away)
                    let same_time = rng.gen_bool(0.6);
                    let t0 = rng.gen_range(1..6u64);
                    let recs: Vec<ReplicatedValue> = (0..nk)
                        .map(|_| {
                            let val: Vec<u8> = if rng.gen_bool(0.15) { longval(LENS[rng.gen_range(0..LENS.len())], rng.gen()) } else { VALS[rng.gen_range(0..VALS.len())].to_vec() };
                            let st = if same_time { t0 } else { rng.gen_range(1..6) };
                            let mut ts = stamp(&mut rng, st);
                            if same_time { ts.time = t0; }
                            ReplicatedValue::with_value(SDS::new(val), ts)
                        })
                        .collect();
                    let variant = rng.gen_range(0..5);
                    let (pa, pb): (Vec<usize>, Vec<usize>) = match variant {
                        0 => { out.count("records:swap-two"); let mut p: Vec<usize> = (0..nk).collect(); p.swap(0, 1); ((0..nk).collect(), p) }
                        1 => { out.count("records:rotate"); ((0..nk).collect(), (0..nk).map(|j| (j + 1) % nk).collect()) }
                        2 => { out.count("records:all-X-vs-all-Y"); (vec![0; nk], vec![1; nk]) }
                        3 => { out.count("records:random-assignment"); ((0..nk).map(|_| rng.gen_range(0..nk)).collect(), (0..nk).map(|_| rng.gen_range(0..nk)).collect()) }
                        _ => { out.count("records:same"); ((0..nk).collect(), (0..nk).collect()) }
                    };
                    for (j, k) in keys.iter().enumerate() {
                        x.insert(k.clone(), recs[pa[j]].clone());
                        y.insert(k.clone(), recs[pb[j]].clone());
                    }
                }
                (x, y, "records-permuted-in-bucket")
            }
            9 => {
                // AntiEntropyConfig::default(): depth 8, max_keys_per_sync 1000; n = 999 / 1000 / 1001 / 1100 keys
                depth = 8;
                limit = 1000;
                let n = *[999usize, 1000, 1001, 1100].choose(&mut rng).unwrap();
                let mut x: Map = HashMap::new();
                for j in 0..n {
                    let ts = LamportClock { time: 1 + (j as u64 % 7), replica_id: ReplicaId(1 + (j as u64 % 3)) };
                    x.insert(format!("x{}", j), ReplicatedValue::with_value(SDS::new(VALS[j % VALS.len()].to_vec()), ts));
                }
                let y: Map = if rng.gen_bool(0.5) { HashMap::new() } else { x.iter().filter(|(k, _)| k.len() % 2 == 0).map(|(k, v)| (k.clone(), v.clone())).collect() };
                out.count(&format!("default-config:{}-keys", n));
                (x, y, "default-config-1000")
            }
            _ => (s0.replicated_keys, HashMap::new(), "panic-depth"),
        };
        out.count(&format!("scenario:{}", name));
        out.count(if plain { "values:plain-lww" } else { "values:all-kinds" });
        out.count(&format!("depth:{}", if scen == 5 { 64 } else { depth }));

        if scen == 5 {
            // 1 << 64 on usize: a panic before anything is allocated (overflow checks on)
            let hook = std::panic::take_hook();
            std::panic::set_hook(Box::new(|_| {}));
            let r = std::panic::catch_unwind(|| StateDigest::from_state(&ma, ReplicaId(1), 0, 64));
            std::panic::set_hook(hook);
            let term = if r.is_err() {
                format!("(KP 64 {})", entries_term(&ma))
            } else {
                // no panic (build without overflow checks): print a KS the model rejects
                out.count("depth64:no-panic");
                format!("(KP 0 {})", entries_term(&ma))
            };
            if args.only.is_some() {
                println!("case {}: from_state(depth 64) panicked = {}", i, r.is_err());
            }
            out.case(i, term, false, "");
            continue;
        }

        let mut sim = MultiNodeSimulation::new_without_anti_entropy(2, args.seed ^ i);
        sim.nodes[0].replica_state.replicated_keys = ma;
        sim.nodes[1].replica_state.replicated_keys = mb;
        for n in sim.nodes.iter_mut() {
            n.anti_entropy.config.merkle_tree_depth = depth;
            n.anti_entropy.config.max_keys_per_sync = limit;
        }
        // a replica's clock dominates every stamp it stores (C08's invariant): without this the
        // local writes of O7 could re-issue a stamp that already sits in the injected state
        {
            let top = sim.nodes.iter().flat_map(|n| n.replica_state.replicated_keys.values()).flat_map(|v| vharness::rv::all_times(v)).max().unwrap_or(0);
            for n in sim.nodes.iter_mut() {
                n.replica_state.lamport_clock.time = top;
            }
        }
        let a0: Map = sim.nodes[0].replica_state.replicated_keys.clone();
        let b0: Map = sim.nodes[1].replica_state.replicated_keys.clone();
        let la = entries_term(&sim.nodes[0].replica_state.replicated_keys);
        let lb = entries_term(&sim.nodes[1].replica_state.replicated_keys);
        let da = sim.nodes[0].generate_digest();
        let db = sim.nodes[1].generate_digest();
        let dif = da.differs_from(&db);
        let dv = da.divergent_buckets(&db);
        let (na, nb) = (keys_in(&a0, &dv, depth), keys_in(&b0, &dv, depth));
        if scen == 4 && rng.gen_bool(0.5) && na.max(nb) >= 1 {
            // the limit exactly at, one below, one above the number of keys to send
            limit = (na.max(nb) + rng.gen_range(0..3usize)).saturating_sub(1).max(1);
            for n in sim.nodes.iter_mut() {
                n.anti_entropy.config.max_keys_per_sync = limit;
            }
            out.count(&format!("limit:boundary{:+}", limit as i64 - na.max(nb) as i64));
        }
        let sa = sim.nodes[0].anti_entropy.get_keys_in_buckets(&sim.nodes[0].replica_state.replicated_keys, &dv);
        let sb = sim.nodes[1].anti_entropy.get_keys_in_buckets(&sim.nodes[1].replica_state.replicated_keys, &dv);
        let covering = na <= limit && nb <= limit;

        // ---- O8: every field of the digests and of the deltas
        digest_fields_oracle(&mut out, i, "digest A", &sim.nodes[0].replica_state.replicated_keys, &da, sim.nodes[0].replica_id, sim.nodes[0].anti_entropy.generation, depth);
        digest_fields_oracle(&mut out, i, "digest B", &sim.nodes[1].replica_state.replicated_keys, &db, sim.nodes[1].replica_id, sim.nodes[1].anti_entropy.generation, depth);
        let want_a = expected_keys(&sim.nodes[0].replica_state.replicated_keys, Some(&dv), depth, limit);
        let want_b = expected_keys(&sim.nodes[1].replica_state.replicated_keys, Some(&dv), depth, limit);
        deltas_oracle(&mut out, i, "get_keys_in_buckets(A)", &a0, &sa, &want_a, sim.nodes[0].replica_id);
        deltas_oracle(&mut out, i, "get_keys_in_buckets(B)", &b0, &sb, &want_b, sim.nodes[1].replica_id);

        // ---- O9: divergent_buckets between digests of different depth (surplus arms)
        let depth2: usize = rng.gen_range(0..5);
        let dbx = StateDigest::from_state(&sim.nodes[1].replica_state.replicated_keys, sim.nodes[1].replica_id, 0, depth2);
        let dvx = da.divergent_buckets(&dbx);
        let dvy = dbx.divergent_buckets(&da);
        {
            out.impl_checks += 1;
            let common = da.buckets.len().min(dbx.buckets.len());
            let mut want: Vec<usize> = (0..common).filter(|&j| da.buckets[j] != dbx.buckets[j]).collect();
            let longer = if da.buckets.len() > common { &da.buckets } else { &dbx.buckets };
            want.extend((common..longer.len()).filter(|&j| longer[j].count > 0));
            if dvx != want || dvy != want {
                out.violation(i, "divergent_buckets between digests of different depth: not (differing common buckets, then non-empty surplus buckets)", json!({"depth": depth, "depth2": depth2, "a_vs_b": dvx, "b_vs_a": dvy, "want": want}));
            }
        }

        // ---- O5: the message API on two managers (process_peer_digest, create_sync_request,
        //      handle_sync_request with and without requested buckets, should_sync, heal)
        {
            out.impl_checks += 1;
            let (r1, r2) = (ReplicaId(1), ReplicaId(2));
            let cfg = AntiEntropyConfig { sync_interval_ms: 1000, max_keys_per_sync: limit, merkle_tree_depth: depth, auto_sync_on_heal: true };
            let mut m1 = AntiEntropyManager::new(r1, cfg.clone());
            let mut m2 = AntiEntropyManager::new(r2, cfg);
            for _ in 0..rng.gen_range(0..3) { m1.on_local_write(); }
            let t0: u64 = rng.gen_range(0..5000);
            let d1 = m1.generate_digest(&a0);
            let d2 = m2.generate_digest(&b0);
            let mut bad: Vec<String> = Vec::new();
            if d1.root_hash != da.root_hash || d1.buckets != da.buckets || d2.root_hash != db.root_hash || d2.buckets != db.buckets { bad.push("generate_digest differs between two managers on the same content".into()); }
            if d1.generation != m1.generation || d1.replica_id != r1 { bad.push("digest generation/replica_id".into()); }
            if !m1.should_sync(r2, t0) { bad.push("should_sync false for a peer never synced".into()); }
            let res = m1.process_peer_digest(d2.clone(), &d1);
            if res.is_some() != dif || res.clone().map_or(false, |v| v != dv) { bad.push(format!("process_peer_digest = {:?}, differs_from = {}, divergent_buckets = {:?}", res, dif, dv)); }
            if m1.divergent_peers.contains(&r2) != dif || m1.peer_digests.get(&r2).map(|d| d.root_hash) != Some(d2.root_hash) { bad.push("process_peer_digest bookkeeping (divergent_peers / peer_digests)".into()); }
            let req = m1.create_sync_request(r2, d1.clone(), res.clone(), t0);
            if req.from_replica != r1 || req.to_replica != r2 || req.requested_buckets != res || req.digest.root_hash != d1.root_hash { bad.push("create_sync_request fields".into()); }
            if m1.should_sync(r2, t0 + 999) || !m1.should_sync(r2, t0 + 1000) { bad.push("should_sync boundary (interval 1000)".into()); }
            if m1.peers_needing_sync(t0 + 999).contains(&r2) != dif || !m1.peers_needing_sync(t0 + 1000).contains(&r2) { bad.push("peers_needing_sync".into()); }
            let resp = m2.handle_sync_request(req, &b0);
            if resp.from_replica != r2 || resp.digest.root_hash != d2.root_hash || resp.digest.buckets != d2.buckets { bad.push("handle_sync_request response header".into()); }
            if m2.divergent_peers.contains(&r1) != dif { bad.push("handle_sync_request did not record the requester's digest verdict".into()); }
            let want = expected_keys(&b0, res.as_deref(), depth, limit);
            deltas_oracle(&mut out, i, "handle_sync_request(requested buckets)", &b0, &resp.deltas, &want, r2);
            // applying the response leaves the requester with the merge for every shipped key
            let mut st = ShardReplicaState::new(r1, ConsistencyLevel::Eventual);
            st.replicated_keys = a0.clone();
            for d in resp.deltas.iter().cloned() { st.apply_remote_delta(d); }
            for (k, v) in &st.replicated_keys {
                let wantv = match (a0.get(k), b0.get(k)) {
                    (Some(x), Some(y)) if want.contains(k) => x.merge(y),
                    (Some(x), _) => x.clone(),
                    (None, Some(y)) => y.clone(),
                    _ => unreachable!(),
                };
                if obs(v) != obs(&wantv) { bad.push(format!("after applying the response key {:?} is not merge(local, shipped)", k)); break; }
            }
            if st.replicated_keys.len() != a0.len() + want.iter().filter(|k| !a0.contains_key(*k)).count() { bad.push("after applying the response: wrong key set".into()); }
            let req2 = m1.create_sync_request(r2, d1.clone(), None, t0 + 1);
            let resp2 = m2.handle_sync_request(req2, &b0);
            let want2 = expected_keys(&b0, None, depth, limit);
            deltas_oracle(&mut out, i, "handle_sync_request(all keys)", &b0, &resp2.deltas, &want2, r2);
            m1.on_partition_healed(r2);
            if !m1.divergent_peers.contains(&r2) || !m1.should_sync(r2, t0 + 2) { bad.push("on_partition_healed does not trigger an immediate sync".into()); }
            if !bad.is_empty() {
                out.violation(i, &format!("message API: {}", bad[0]), json!({"all": bad, "depth": depth, "limit": limit}));
            }
        }

        // occupancy: is there a bucket with at least two keys?
        let crowded = da.buckets.iter().chain(db.buckets.iter()).any(|b| b.count >= 2);
        out.count(&format!("keys:{}", match a0.len().max(b0.len()) { 0 => "0", 1..=4 => "1-4", 5..=12 => "5-12", 13..=24 => "13-24", _ => "25+" }));
        if crowded { out.count("bucket-with-2+-keys"); }

        // ---- O1 / O2 on the prior states
        let (ceq, _) = digest_oracle(&mut out, i, "before", &a0, &b0, &da, &db);
        out.count(if ceq { "content:equal" } else { "content:different" });
        out.count(if dif { "digest:differs" } else { "digest:equal" });

        // ---- one round on the real simulation
        let before = sim.anti_entropy_syncs;
        match rng.gen_range(0..5) {
            0 => { out.count("entry:run_anti_entropy_sync(1,0)"); sim.run_anti_entropy_sync(1, 0); }
            1 => { out.count("entry:heal_partition(0,1)"); sim.auto_anti_entropy = true; sim.partition(0, 1); sim.heal_partition(0, 1); sim.auto_anti_entropy = false; }
            2 => { out.count("entry:heal_partition(1,0)"); sim.auto_anti_entropy = true; sim.partition(1, 0); sim.heal_partition(1, 0); sim.auto_anti_entropy = false; }
            3 => { out.count("entry:run_full_anti_entropy"); sim.run_full_anti_entropy(); }
            _ => { out.count("entry:run_anti_entropy_sync(0,1)"); sim.run_anti_entropy_sync(0, 1); }
        }
        let fired = sim.anti_entropy_syncs != before;
        // healing a link that was not partitioned, or with auto sync off, must not sync
        {
            let (x0, y0, n0) = (content(&sim.nodes[0].replica_state.replicated_keys), content(&sim.nodes[1].replica_state.replicated_keys), sim.anti_entropy_syncs);
            sim.heal_partition(0, 1);
            sim.partition(0, 1);
            sim.heal_partition(0, 1);
            if sim.anti_entropy_syncs != n0 || content(&sim.nodes[0].replica_state.replicated_keys) != x0 || content(&sim.nodes[1].replica_state.replicated_keys) != y0 {
                out.violation(i, "heal_partition synced although auto_anti_entropy is off / no partition existed", json!({}));
            }
            if !sim.can_communicate(0, 1) { out.violation(i, "heal_partition left the link partitioned", json!({})); }
        }
        let a1: Map = sim.nodes[0].replica_state.replicated_keys.clone();
        let b1: Map = sim.nodes[1].replica_state.replicated_keys.clone();
        let la2 = entries_term(&sim.nodes[0].replica_state.replicated_keys);
        let lb2 = entries_term(&sim.nodes[1].replica_state.replicated_keys);
        let da2 = sim.nodes[0].generate_digest();
        let db2 = sim.nodes[1].generate_digest();
        if fired { out.count("round:fired"); }
        out.count(if covering { "limit:covering" } else { "limit:short" });

        // ---- O3: the round leaves both sides merged
        if fired && covering {
            merged_oracle(&mut out, i, "round 1", &a0, &b0, &a1, &b1, &dv, depth, &da2, &db2);
        }
        if !fired && (a1.len() != a0.len() || content(&a1) != content(&a0) || content(&b1) != content(&b0)) {
            out.violation(i, "a round that did not fire changed a state", json!({}));
        }
        // O1/O2 again on the states after the round
        digest_oracle(&mut out, i, "after", &a1, &b1, &da2, &db2);

        // ---- O4: repeated rounds under the limit
        if fired && !covering {
            out.impl_checks += 1;
            let mut prev = (content(&a1), content(&b1));
            let mut r = 1;
            let mut verdict = "slow";
            let mut ever_covering = false;
            while r < rounds_max {
                let x = sim.nodes[0].generate_digest();
                let y = sim.nodes[1].generate_digest();
                if !x.differs_from(&y) {
                    verdict = "converged";
                    break;
                }
                let d = x.divergent_buckets(&y);
                let cov = keys_in(&sim.nodes[0].replica_state.replicated_keys, &d, depth) <= limit
                    && keys_in(&sim.nodes[1].replica_state.replicated_keys, &d, depth) <= limit;
                sim.run_anti_entropy_sync(0, 1);
                r += 1;
                let cur = (content(&sim.nodes[0].replica_state.replicated_keys), content(&sim.nodes[1].replica_state.replicated_keys));
                if cov {
                    ever_covering = true;
                    let x = sim.nodes[0].generate_digest();
                    let y = sim.nodes[1].generate_digest();
                    if x.differs_from(&y) {
                        out.violation(i, "a later round whose limit covered the divergent buckets did not converge", json!({"round": r, "limit": limit}));
                    }
                    verdict = "converged";
                    break;
                }
                if cur == prev {
                    verdict = "fixed-point";
                    break;
                }
                prev = cur;
            }
            out.count(&format!("small-limit:{}", verdict));
            if verdict == "fixed-point" && !ever_covering {
                let x = sim.nodes[0].generate_digest();
                let y = sim.nodes[1].generate_digest();
                let d = x.divergent_buckets(&y);
                out.known("C18-limit-starvation", i, json!({
                    "limit": limit, "depth": depth, "round": r,
                    "keys_in_divergent_buckets": [keys_in(&sim.nodes[0].replica_state.replicated_keys, &d, depth), keys_in(&sim.nodes[1].replica_state.replicated_keys, &d, depth)],
                    "what": "round r re-sent the same first `limit` keys: both states unchanged by the round, digests still differ"}));
            }
        }

        // ---- O7: history continues: local writes through SimulatedNode::execute, then
        //      another digest exchange and round on the same nodes
        if limit >= 1000 && rng.gen_bool(0.3) {
            for _ in 0..rng.gen_range(1..5) {
                let n = rng.gen_range(0..2usize);
                let key = key_name(rng.gen_range(0..nkeys + 2));
                let cmd = if rng.gen_bool(0.8) {
                    let val: Vec<u8> = if rng.gen_bool(0.1) { longval(LENS[rng.gen_range(0..LENS.len())], rng.gen()) } else { VALS[rng.gen_range(0..VALS.len())].to_vec() };
                    Command::set(key, SDS::new(val))
                } else {
                    Command::del(key)
                };
                sim.nodes[n].execute(&cmd);
            }
            let (a2, b2): (Map, Map) = (sim.nodes[0].replica_state.replicated_keys.clone(), sim.nodes[1].replica_state.replicated_keys.clone());
            let (x, y) = (sim.nodes[0].generate_digest(), sim.nodes[1].generate_digest());
            digest_fields_oracle(&mut out, i, "digest A after local writes", &a2, &x, sim.nodes[0].replica_id, sim.nodes[0].anti_entropy.generation, depth);
            digest_oracle(&mut out, i, "after local writes", &a2, &b2, &x, &y);
            let d2 = x.divergent_buckets(&y);
            let cov2 = keys_in(&a2, &d2, depth) <= limit && keys_in(&b2, &d2, depth) <= limit;
            let n0 = sim.anti_entropy_syncs;
            sim.run_anti_entropy_sync(0, 1);
            let fired2 = sim.anti_entropy_syncs != n0;
            out.impl_checks += 1;
            if fired2 != (x.differs_from(&y) && !d2.is_empty()) {
                out.violation(i, "round after local writes: fired iff the digests differ and a bucket diverges", json!({"fired": fired2, "differs": x.differs_from(&y), "divergent": d2}));
            }
            let (a3, b3): (Map, Map) = (sim.nodes[0].replica_state.replicated_keys.clone(), sim.nodes[1].replica_state.replicated_keys.clone());
            let (x3, y3) = (sim.nodes[0].generate_digest(), sim.nodes[1].generate_digest());
            if fired2 && cov2 {
                merged_oracle(&mut out, i, "round after local writes", &a2, &b2, &a3, &b3, &d2, depth, &x3, &y3);
            }
            digest_oracle(&mut out, i, "after the round that followed local writes", &a3, &b3, &x3, &y3);
            out.count("history:writes-then-second-round");
        }

        // ---- O6: three replicas of an LWW-only history, run_full_anti_entropy (all pairs):
        //      all three end with the key-wise merge of the three states
        if let Some((m0, m1)) = first_two {
            out.impl_checks += 1;
            let mut s3 = MultiNodeSimulation::new_without_anti_entropy(3, args.seed ^ i ^ 0x33);
            let d3 = depth.min(8);
            for (n, m) in [m0.clone(), m1.clone(), third.clone()].into_iter().enumerate() {
                s3.nodes[n].replica_state.replicated_keys = m;
                s3.nodes[n].anti_entropy.config.merkle_tree_depth = d3;
            }
            s3.run_full_anti_entropy();
            let mut want: BTreeMap<String, ReplicatedValue> = BTreeMap::new();
            for m in [&m0, &m1, &third] {
                for (k, v) in m {
                    let nv = match want.get(k) { Some(w) => w.merge(v), None => v.clone() };
                    want.insert(k.clone(), nv);
                }
            }
            let wantc: BTreeMap<String, String> = want.iter().map(|(k, v)| (k.clone(), obs(v))).collect();
            for n in 0..3 {
                if content(&s3.nodes[n].replica_state.replicated_keys) != wantc {
                    out.violation(i, "run_full_anti_entropy over three LWW-only replicas: a node does not hold the key-wise merge of the three states", json!({"node": n, "want": wantc, "got": content(&s3.nodes[n].replica_state.replicated_keys)}));
                    break;
                }
            }
            let ds: Vec<StateDigest> = s3.nodes.iter().map(|n| n.generate_digest()).collect();
            if ds[0].differs_from(&ds[1]) || ds[1].differs_from(&ds[2]) || !ds[0].divergent_buckets(&ds[2]).is_empty() {
                out.violation(i, "run_full_anti_entropy over three replicas: digests still differ", json!({}));
            }
            out.count("three-nodes:run_full_anti_entropy");
        }

        let term = format!(
            "(KS {} {} {} {} {} {} {} {} {} {} {} {} {} {} {} {} {} {})",
            depth, limit, la, lb, digest_term(&da), digest_term(&db), cbool(dif),
            clist(dv.iter(), |x| x.to_string()),
            clist(sa.iter(), |d| key_sym(&d.key)),
            clist(sb.iter(), |d| key_sym(&d.key)),
            cbool(fired), la2, lb2, digest_term(&da2), digest_term(&db2),
            depth2, clist(dvx.iter(), |x| x.to_string()), clist(dvy.iter(), |x| x.to_string())
        );
        let canon = format!("{:?}|{:?}|{}|{}", content(&a0), content(&b0), depth, limit);
        let nontrivial = !a0.is_empty() && !b0.is_empty() && crowded;
        out.sample(json!({"scenario": name, "depth": depth, "limit": limit, "a": content(&a0), "b": content(&b0)}));
        if args.only.is_some() {
            println!("case {} scenario {} depth {} limit {}", i, name, depth, limit);
            println!(" A (iteration order) = {:?}", a0.iter().map(|(k, v)| (k.clone(), obs(v))).collect::<Vec<_>>());
            println!(" B (iteration order) = {:?}", b0.iter().map(|(k, v)| (k.clone(), obs(v))).collect::<Vec<_>>());
            println!(" content equal = {}  differs_from = {}  divergent_buckets = {:?}", ceq, dif, dv);
            println!(" root A = {} root B = {}", da.root_hash, db.root_hash);
            println!(" sent by A = {:?}\n sent by B = {:?}", sa.iter().map(|d| &d.key).collect::<Vec<_>>(), sb.iter().map(|d| &d.key).collect::<Vec<_>>());
            println!(" fired = {} covering = {}", fired, covering);
            println!(" A after = {:?}\n B after = {:?}", content(&a1), content(&b1));
            println!(" after: differs_from = {} divergent = {:?}", da2.differs_from(&db2), da2.divergent_buckets(&db2));
        }
        out.case(i, term, nontrivial, &canon);
    }
    out.finish(args.seed);
}

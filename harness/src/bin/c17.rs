//! C17: a command that fails changes nothing; a read-only command changes nothing.
//! Two parts per case, both on real CommandExecutors:
//!  (A) an error-provoking sequence of MODEL commands (states holding every type, keys drawn
//!      uniformly so that type conflicts are frequent, extreme integers/indices), printed for the
//!      Coq model exactly like C01's cases (Corr/C17.v = Corr/C01.v's check);
//!  (B) a sequence over the FULL command set the executor accepts (model commands plus
//!      INCRBYFLOAT, SETBIT/GETBIT, SPOP, SORT [STORE], SCAN/HSCAN/ZSCAN, BatchSet/BatchGet, stubs,
//!      ACL/CONFIG/CLIENT/OBJECT/DEBUG, transactions, scripts).
//! In both parts the visible keyspace (TYPE + exact stored value + PTTL of every key) is
//! compared before/after EVERY command whose reply is an error or whose is_read_only() is true.
#[path = "../rediscmd.rs"]
mod rediscmd;
use rand::Rng as _;
use redis_sim::redis::{Command, RespValue, SDS, Value};
use rediscmd::*;
use serde_json::json;
use vharness::util::*;

const HEADER: &str = "From RV Require Import Corr.C17.\nLocal Open Scope string_scope.\nLocal Open Scope Z_scope.\nLocal Open Scope list_scope.";

/// visible keyspace incl. the exact stored values (raw Value clones of every visible key)
#[derive(Clone, PartialEq, Debug)]
struct Vis { snap: Snapshot, raw: Vec<(String, String)>, stale: Vec<String> }

/// read WITHOUT purging (EXISTS, PTTL, DBSIZE, KEYS * and clones of the stored values): a key past its deadline
/// counts as absent whether or not it has been evicted, and looking does not evict it
fn visible(im: &mut Impl) -> Result<Vis, String> {
    let (snap, stale) = snapshot_nopurge(im, &KEYS)?;
    let mut raw: Vec<(String, String)> = snap.iter().filter(|e| e.2 >= -1).filter_map(|(k, _, _)| im.ex.get_data().get(k).map(|v| (k.clone(), full_dump(v)))).collect();
    raw.sort_by(|a, b| a.0.cmp(&b.0));
    Ok(Vis { snap, raw, stale })
}
fn same_visible(a: &Vis, b: &Vis) -> bool { a.snap == b.snap && a.raw == b.raw }

fn viol(out: &mut Out, seen: &mut std::collections::BTreeMap<String, u64>, class: &str, i: u64, what: &str, d: serde_json::Value) {
    let n = seen.entry(class.to_string()).or_insert(0);
    *n += 1;
    out.count(&format!("finding:{}", class));
    if *n <= 2 { out.violation(i, what, d); }
}

/// commands that set up a state holding every type (some with a TTL)
fn setup(g: &mut Gen) -> Vec<MCmd> {
    let mut v = vec![
        MCmd::Set("a".into(), g.pick(&[b"10".to_vec(), b"9223372036854775807".to_vec(), b"-9223372036854775808".to_vec(), b"7".to_vec()]), XOpt::None, false, false, false),
        MCmd::Set("b".into(), g.pick(&[b"hello".to_vec(), b"3.5".to_vec(), b"\x00\xff".to_vec(), b"".to_vec()]), if g.chance(0.5) { XOpt::Px(5000) } else { XOpt::None }, false, false, false),
        MCmd::RPush("l".into(), g.vals(1, 3)),
        MCmd::SAdd("s".into(), g.members(1, 3)),
        MCmd::HSet("h".into(), vec![(b"f".to_vec(), g.pick(&[b"5".to_vec(), b"9223372036854775807".to_vec(), b"x".to_vec()])), (b"g".to_vec(), b"abc".to_vec())]),
        MCmd::ZAdd("z".into(), vec![(1, b"m".to_vec()), (2, b"n".to_vec())], false, false, false, false, false),
    ];
    if g.chance(0.3) { v.push(MCmd::PExpire("l".into(), 3000, false, false, false, false)); }
    if g.chance(0.3) { v.push(MCmd::Expire("h".into(), 2, false, false, false, false)); }
    if g.chance(0.5) { let i = g.rng.gen_range(0..v.len()); v.remove(i); }
    v
}

/// a command outside the model (or a model command, half of the time)
fn full_cmd(g: &mut Gen, loaded_sha: &Option<String>) -> (String, Command) {
    let k = |g: &mut Gen| g.pick(&KEYS).to_string();
    let sd = |b: &[u8]| SDS::new(b.to_vec());
    if g.chance(0.45) { let c = g.cmd(); return (c.to_coq(), c.to_rust()); }
    // sizes well above any plausible optimisation threshold (implementation-only part: nothing is printed for Coq):
    // 64 KiB +- 1 and 1 MiB values through SET / APPEND / SETRANGE / LPUSH / HSET, 3000 members in one SADD, 300 in one ZADD (the debug build re-verifies the whole skiplist on every insertion)
    if g.chance(0.008) {
        let n = g.pick(&[65535usize, 65536, 65537, 65536, 1 << 20]);
        let big = SDS::new(vec![g.pick(&[b'x', 0u8]); n]);
        let c = match g.rng.gen_range(0..7) {
            0 => Command::set(k(g), big), 1 => Command::Append(k(g), big), 2 => Command::SetRange(k(g), g.pick(&[0usize, 1, 65536]), big),
            3 => Command::LPush(k(g), vec![big]), 4 => Command::HSet(k(g), vec![(sd(b"f"), big)]),
            5 => Command::SAdd(k(g), (0..3000).map(|i| SDS::new(format!("m{}", i).into_bytes())).collect()),
            _ => Command::ZAdd { key: k(g), pairs: (0..300).map(|i| ((i % 97) as f64, SDS::new(format!("m{}", i).into_bytes()))).collect(), nx: false, xx: false, gt: false, lt: false, ch: false },
        };
        return (format!("{:.120}", format!("{:?}", c)), c);
    }
    let c = match g.rng.gen_range(0..60) {
        0..=3 => Command::IncrByFloat(k(g), g.pick(&[1.5, -2.25, 0.0, 1e308, -1e308, f64::NAN, f64::INFINITY, 1e-300, 3.0])),
        4..=6 => Command::SetBit(k(g), g.pick(&[0u64, 1, 7, 8, 100, 4294967296, u64::MAX]), g.rng.gen_range(0..2)),
        7 => Command::GetBit(k(g), g.pick(&[0u64, 1, 7, 100, 4294967296, u64::MAX])),
        8..=10 => Command::SPop(k(g), g.pick(&[None, Some(0usize), Some(1), Some(2), Some(100)])),
        11..=13 => Command::Sort { key: k(g), store: if g.chance(0.6) { Some(k(g)) } else { None } },
        14 => Command::Scan { cursor: g.pick(&[0u64, 1, 5, u64::MAX]), pattern: g.pick(&[None, Some("*".to_string()), Some("a*".to_string()), Some("[".to_string())]), count: g.pick(&[None, Some(1usize), Some(0), Some(1000)]) },
        15 => Command::HScan { key: k(g), cursor: g.pick(&[0u64, 1, u64::MAX]), pattern: g.pick(&[None, Some("*".to_string())]), count: g.pick(&[None, Some(1usize)]) },
        16 => Command::ZScan { key: k(g), cursor: g.pick(&[0u64, 1, u64::MAX]), pattern: g.pick(&[None, Some("*".to_string())]), count: g.pick(&[None, Some(1usize)]) },
        17..=19 => { let n = g.rng.gen_range(1..=3); Command::BatchSet((0..n).map(|_| (k(g), SDS::new(g.val()))).collect()) }
        20 => { let n = g.rng.gen_range(1..=3); Command::BatchGet((0..n).map(|_| k(g)).collect()) }
        21 => Command::Wait(g.int(), g.int()), 22 => Command::Time, 23 => Command::Info,
        24 => Command::Ping(if g.chance(0.5) { Some(sd(b"x")) } else { None }), 25 => Command::Echo(SDS::new(g.val())),
        26 => Command::RandomKey, 27 => Command::Select(g.rng.gen_range(0..16)),
        // AUTH and ACL WHOAMI/LIST/USERS/GETUSER/SETUSER/DELUSER are answered by the connection layer and never reach
        // CommandExecutor::execute (which debug-asserts that routing contract); they are not sent here.
        // option sets that cannot be written as model commands: several expiry forms at once, KEEPTTL or PERSIST next to
        // an expiry form, every subset of the boolean flags (SET, GETEX, EXPIRE, PEXPIRE, ZADD)
        28 => { let o = |g: &mut Gen, v: i64| if g.chance(0.35) { Some(v) } else { None };
                let (now_s, now_ms) = ((g.now / 1000) as i64, g.now as i64);
                let pxv = g.pick(&[700i64, 0, -1]);
                match g.rng.gen_range(0..5) {
                    0 | 1 => Command::Set { key: k(g), value: SDS::new(g.val()), ex: o(g, 5), px: o(g, pxv), exat: o(g, now_s + 3), pxat: o(g, now_ms + 900),
                                            nx: g.chance(0.4), xx: g.chance(0.4), get: g.chance(0.4), keepttl: g.chance(0.4) },
                    2 => Command::GetEx { key: k(g), ex: o(g, 5), px: o(g, pxv), exat: o(g, now_s + 3), pxat: o(g, now_ms + 900), persist: g.chance(0.5) },
                    3 => if g.chance(0.5) { Command::Expire { key: k(g), seconds: g.pick(&[5, 0, -1, i64::MAX]), nx: g.chance(0.5), xx: g.chance(0.5), gt: g.chance(0.5), lt: g.chance(0.5) } }
                         else { Command::PExpire { key: k(g), milliseconds: g.pick(&[700, 0, -1, i64::MAX]), nx: g.chance(0.5), xx: g.chance(0.5), gt: g.chance(0.5), lt: g.chance(0.5) } },
                    _ => Command::ZAdd { key: k(g), pairs: vec![(g.score() as f64, SDS::new(g.member()))], nx: g.chance(0.5), xx: g.chance(0.5), gt: g.chance(0.5), lt: g.chance(0.5), ch: g.chance(0.5) },
                } }
        // sorted sets with float scores (outside the model): infinities, fractions, ties
        29..=30 => { let n = g.rng.gen_range(1..=2);
                     let (nx, xx, gt, lt) = g.pick(&[(false, false, false, false), (false, false, false, false), (true, false, false, false), (false, true, false, false), (false, false, true, false), (false, false, false, true)]);
                     Command::ZAdd { key: if g.chance(0.8) { "z".to_string() } else { k(g) },
                                     pairs: (0..n).map(|_| (g.pick(&[f64::INFINITY, f64::NEG_INFINITY, 1.5, -0.0, 2.0, 1e300, 3.0]), SDS::new(g.member()))).collect(),
                                     nx, xx, gt, lt, ch: g.chance(0.3) } }
        31..=32 => Command::SPop(k(g), g.pick(&[None, Some(1usize)])),
        33..=34 => Command::Sort { key: k(g), store: Some(k(g)) },
        35 => Command::AclCat { category: g.pick(&[None, Some("read".to_string()), Some("nope".to_string())]) },
        36 => Command::AclGenPass { bits: g.pick(&[None, Some(64u32), Some(0), Some(100000)]) },
        37 => Command::AclDryrun { username: "u".into(), command: "get".into(), args: vec!["a".into()] },
        38 => Command::AclLog { count: None }, 39 => Command::AclLogReset,
        40 => Command::ConfigGet(g.pick(&["*".to_string(), "maxmemory".to_string(), "nope".to_string()])),
        41 => Command::ConfigSet(g.pick(&["maxmemory".to_string(), "nope".to_string()]), "1".into()), 42 => Command::ConfigResetStat,
        43 => Command::CommandCommand, 44 => Command::CommandCount, 45 => Command::FunctionFlush,
        46 => Command::ClientSetName("n".into()), 47 => if g.chance(0.5) { Command::ClientGetName } else if g.chance(0.5) { Command::ClientId } else { Command::ClientInfo },
        48 => Command::ObjectHelp, 49 => Command::ObjectEncoding(k(g)), 50 => Command::ObjectRefCount(k(g)),
        51 => if g.chance(0.5) { Command::ObjectIdleTime(k(g)) } else { Command::ObjectFreq(k(g)) },
        52 => Command::DebugSleep(0.0), 53 => if g.chance(0.5) { Command::DebugSet("a".into(), "b".into()) } else { Command::DebugObject(k(g)) },
        54 => Command::Unknown(g.pick(&["FOO".to_string(), "XADD".to_string(), "XINFO STREAM".to_string()])),
        // transactions at executor level: EXEC/DISCARD without MULTI, WATCH/UNWATCH
        55 => g.pick(&[Command::Exec, Command::Discard, Command::Unwatch, Command::Watch(vec!["a".into(), "l".into()])]),
        // scripts: single redis.call (an error aborts before any write), read-only scripts, script cache commands
        56..=58 => { let (script, nk) = g.pick(&[
                ("return redis.call('GET', KEYS[1])", 1), ("return redis.call('INCR', KEYS[1])", 1), ("return redis.call('LPUSH', KEYS[1], 'x')", 1),
                ("return redis.call('HINCRBY', KEYS[1], 'f', 1)", 1), ("return redis.pcall('INCR', KEYS[1])", 1), ("return redis.call('RPOPLPUSH', KEYS[1], KEYS[2])", 2),
                ("return redis.call('NOSUCH')", 0), ("return 1 +", 0), ("error('boom')", 0), ("return redis.call('ZADD', KEYS[1], 'XX', 1, 'q')", 1),
                ("return redis.call('SETRANGE', KEYS[1], 536870912, 'x')", 1), ("redis.call('SET', KEYS[1], 'v'); return redis.call('INCR', KEYS[2])", 2), ("return redis.call('MSET', KEYS[1], 'v', KEYS[2])", 2)]);
              Command::Eval { script: script.to_string(), keys: (0..nk).map(|_| k(g)).collect(), args: vec![] } }
        _ => { // SCRIPT LOAD, then EVALSHA of what was loaded (a writing script, a failing one), SCRIPT EXISTS / FLUSH, unknown sha
               let scripts = ["return redis.call('INCR', KEYS[1])", "return redis.call('LPUSH', KEYS[1], 'x')", "return redis.call('GET', KEYS[1])", "return 1"];
               match (g.rng.gen_range(0..6), loaded_sha) {
                   (0 | 1, _) => Command::ScriptLoad(g.pick(&scripts).to_string()),
                   (2 | 3, Some(sha)) => Command::EvalSha { sha1: sha.clone(), keys: vec![k(g)], args: vec![] },
                   (4, Some(sha)) => Command::ScriptExists(vec![sha.clone(), "abc".into()]),
                   (4, None) => Command::ScriptExists(vec!["abc".into()]),
                   (5, _) => if g.chance(0.3) { Command::ScriptFlush } else { Command::EvalSha { sha1: "ffffffffffffffffffffffffffffffffffffffff".into(), keys: vec![], args: vec![] } },
                   _ => Command::ScriptLoad("return 1".into()),
               } }
    };
    (format!("{:?}", c), c)
}

fn main() {
    let a: Vec<String> = std::env::args().collect();
    let args = &Args::parse(&a[1..]);
    let mut out = Out::new(&args.out, "C17", args.shards, HEADER);
    out.nontrivial_rule = "per case: (A) setup of a keyspace holding every type (some keys with TTL) + 10-25 model commands in error-provoking mode (keys drawn uniformly => wrong-type operands, extreme integers => overflow, out-of-range indices, invalid expire times, multi-element commands with one bad operand) compared with the Coq model; (B) the same setup + 25-40 commands over the FULL command set (model commands, INCRBYFLOAT, SETBIT/GETBIT, SPOP, SORT [STORE], SCAN family, BatchSet/BatchGet, stubs, ACL/CONFIG/CLIENT/OBJECT/DEBUG, WATCH/EXEC/DISCARD, EVAL/EVALSHA/SCRIPT); before/after every command that replied an error or is_read_only() the visible keyspace (TYPE, exact stored value, PTTL of all 7 keys) is compared; non-trivial = the case contained at least 3 error replies of at least 2 kinds and 3 read-only commands on existing keys; distinct by step text".into();
    std::panic::set_hook(Box::new(|_| {}));
    let mut vseen: std::collections::BTreeMap<String, u64> = Default::default();
    let shared_cache = redis_sim::redis::lua::SharedScriptCache::new();
    let range: Vec<u64> = match args.only { Some(i) => vec![i], None => (0..args.n).collect() };
    for i in range {
        let mut rng = case_rng(args.seed, i);
        let mut g = Gen { rng: &mut rng, now: 0, deadlines: vec![], lens: vec![], hot: true, state: vec![], pending: vec![], stale: vec![] };
        let pre = setup(&mut g);
        // ------------------------------------------------ part A: model commands, for Coq too
        let mut im = Impl::new();
        let mut last: Snapshot = vec![];
        let mut terms: Vec<String> = Vec::new();
        let mut trace: Vec<serde_json::Value> = Vec::new();
        let (mut nerr, mut nro) = (0, 0); let mut kinds = std::collections::BTreeSet::new();
        let na = g.rng.gen_range(10..=25);
        let mut step = 0;
        let mut dead = false;
        while step < pre.len() + na && !dead {
            let tick = step >= pre.len() && g.pending.is_empty() && g.chance(0.18);
            if tick {
                let t = g.now + g.delta();
                // half of the clock moves skip the eviction sweep: expired keys stay stored until something purges them
                let lazy = g.chance(0.5);
                if let Err(p) = if lazy { im.set_time_lazy(t) } else { im.set_time(t) } { viol(&mut out, &mut vseen, "panic", i, "the implementation panicked when the clock was set", json!({"clock": t, "panic": p, "steps_before": trace})); break; }
                g.now = t;
                let vis = match visible(&mut im) { Ok(s) => s, Err(p) => { viol(&mut out, &mut vseen, "panic", i, "the implementation panicked while the keyspace was read", json!({"panic": p, "steps_before": trace})); break; } };
                let snap = vis.snap;
                terms.push(format!("ST {}%N {}", t, if snap == last { "None".to_string() } else { format!("(Some {})", snap_coq(&snap)) }));
                trace.push(json!({"clock": t, "eviction_sweep": !lazy, "lazily_expired_now": vis.stale}));
                g.stale = vis.stale;
                g.state = snap.clone();
                g.deadlines = snap.iter().filter(|e| e.2 >= 0).map(|e| g.now + e.2 as u64).collect();
                last = snap;
            } else {
                let c = if step < pre.len() { pre[step].clone() } else { g.cmd() };
                let before = match visible(&mut im) { Ok(v) => v, Err(p) => { viol(&mut out, &mut vseen, "panic", i, "the implementation panicked while the keyspace was read", json!({"panic": p, "steps_before": trace})); break; } };
                let r = match im.exec(&c.to_rust()) { Ok(r) => r, Err(p) => {
                    let cls = format!("panic:{}:{}", c.name(), p.chars().take(60).collect::<String>());
                    viol(&mut out, &mut vseen, &cls, i, &format!("the implementation panicked in {}: {}", c.name(), p), json!({"command": c.to_coq(), "panic": p, "steps_before": trace})); dead = true; break; } };
                let after = match visible(&mut im) { Ok(v) => v, Err(p) => { viol(&mut out, &mut vseen, "panic", i, "the implementation panicked while the keyspace was read", json!({"after": c.to_coq(), "panic": p, "steps_before": trace})); break; } };
                check_step(&mut out, &mut vseen, i, &c.to_coq(), c.name(), &c.to_rust(), &r, &before, &after, &trace, &mut nerr, &mut nro, &mut kinds);
                out.count(&format!("A:cmd:{}", c.name()));
                terms.push(format!("SC {} {} {}", c.to_coq(), canon_reply_coq(&c, &r), if after.snap == last { "None".to_string() } else { format!("(Some {})", snap_coq(&after.snap)) }));
                trace.push(json!({"command": c.to_coq(), "reply": format!("{:?}", r)}));
                g.stale = after.stale.clone();
                last = after.snap;
                g.deadlines = last.iter().filter(|e| e.2 >= 0).map(|e| g.now + e.2 as u64).collect();
                g.state = last.clone();
                g.lens = last.iter().filter_map(|e| match &e.1 { Dump::L(v) => Some(v.len() as i64), Dump::S(v) => Some(v.len() as i64), Dump::Z(v) => Some(v.len() as i64), _ => None }).collect();
            }
            step += 1;
        }
        let term = clist(terms.iter(), |t| t.clone());
        // ------------------------------------------------ part B: the full command set, implementation only
        let mut imb = Impl::new();
        // half of the part-B executors share ONE script cache per process (as the shards of a node do): what an earlier
        // case loaded or flushed is then visible here
        if i % 2 == 1 { imb.ex = redis_sim::redis::CommandExecutor::with_shared_script_cache(shared_cache.clone()); }
        let mut loaded_sha: Option<String> = None;
        let mut multi_left: Option<u32> = None;
        let mut traceb: Vec<serde_json::Value> = Vec::new();
        g.now = 0; g.pending.clear(); g.state = vec![]; g.stale = vec![];
        for c in &pre { let _ = imb.exec(&c.to_rust()); traceb.push(json!({"setup": c.to_coq()})); }
        let nb = g.rng.gen_range(25..=40);
        for _ in 0..nb {
            if imb.dead { break; }
            if g.pending.is_empty() && g.chance(0.15) { let t = g.now + g.delta(); let lazy = g.chance(0.6);
                if let Err(p) = if lazy { imb.set_time_lazy(t) } else { imb.set_time(t) } { viol(&mut out, &mut vseen, "panic", i, "the implementation panicked when the clock was set", json!({"clock": t, "panic": p, "steps_before": traceb})); break; } g.now = t;
                if let Ok(v) = visible(&mut imb) { g.deadlines = v.snap.iter().filter(|e| e.2 >= 0).map(|e| g.now + e.2 as u64).collect(); g.stale = v.stale.clone(); g.state = v.snap.clone(); traceb.push(json!({"clock": t, "eviction_sweep": !lazy, "lazily_expired_now": v.stale})); }
                continue; }
            // executor-level transactions: MULTI, 2-4 queued commands (QUEUED, nothing may change), then EXEC or DISCARD
            let (text, c) = match multi_left {
                Some(0) => { multi_left = None; let c = if g.chance(0.7) { Command::Exec } else { Command::Discard }; (format!("{:?}", c), c) }
                Some(n) => { multi_left = Some(n - 1); full_cmd(&mut g, &loaded_sha) }
                None if g.chance(0.04) => { multi_left = Some(g.rng.gen_range(2..=4)); (String::from("Multi"), Command::Multi) }
                None => full_cmd(&mut g, &loaded_sha),
            };
            let before = match visible(&mut imb) { Ok(v) => v, Err(p) => { viol(&mut out, &mut vseen, "panic", i, "the implementation panicked while the keyspace was read", json!({"panic": p, "steps_before": traceb})); break; } };
            let name = format!("{:?}", c).split(|ch: char| !ch.is_alphanumeric()).next().unwrap_or("?").to_string();
            let r = match imb.exec(&c) { Ok(r) => r, Err(p) => {
                let cls = format!("panic:{}:{}", name, p.chars().take(60).collect::<String>());
                viol(&mut out, &mut vseen, &cls, i, &format!("the implementation panicked in {}: {}", name, p), json!({"command": text, "panic": p, "steps_before": traceb})); break; } };
            let after = match visible(&mut imb) { Ok(v) => v, Err(p) => { viol(&mut out, &mut vseen, "panic", i, "the implementation panicked while the keyspace was read", json!({"after": text, "panic": p, "steps_before": traceb})); break; } };
            check_step(&mut out, &mut vseen, i, &text, &name, &c, &r, &before, &after, &traceb, &mut nerr, &mut nro, &mut kinds);
            out.count(&format!("B:cmd:{}", name));
            if let (Command::ScriptLoad(_), RespValue::BulkString(Some(sha))) = (&c, &r) { loaded_sha = Some(String::from_utf8_lossy(sha).to_string()); }
            if matches!(c, Command::ScriptFlush) { loaded_sha = None; }
            if matches!(c, Command::Exec | Command::Discard) || (matches!(c, Command::Multi) && is_err(&r)) { multi_left = None; }
            traceb.push(json!({"command": text, "reply": format!("{:.300}", format!("{:?}", r))}));
            let snap = &after.snap;
            g.state = snap.clone(); g.stale = after.stale.clone();
            g.deadlines = snap.iter().filter(|e| e.2 >= 0).map(|e| g.now + e.2 as u64).collect();
        }
        out.case(i, term.clone(), nerr >= 3 && kinds.len() >= 2 && nro >= 3, &format!("{}|{:?}", term, traceb));
        out.sample(json!({"part_A": trace, "part_B": traceb}));
        if args.only.is_some() {
            println!("case {} part A ({} steps, model commands):", i, trace.len());
            for (n, t) in trace.iter().enumerate() { println!("  A{}: {}", n, t); }
            println!("case {} part B ({} steps, full command set):", i, traceb.len());
            for (n, t) in traceb.iter().enumerate() { println!("  B{}: {}", n, t); }
            explain_with_model(&args.out, HEADER, &term);
        }
    }
    out.finish(args.seed);
}

#[allow(clippy::too_many_arguments)]
fn check_step(out: &mut Out, vseen: &mut std::collections::BTreeMap<String, u64>, i: u64, text: &str, name: &str, c: &Command, r: &RespValue,
              before: &Vis, after: &Vis, trace: &Vec<serde_json::Value>, nerr: &mut u32, nro: &mut u32, kinds: &mut std::collections::BTreeSet<String>) {
    let ro = c.is_read_only();
    let err = is_err(r);
    if err { *nerr += 1; if let RespValue::Error(t) = r { let k = err_kind(t); kinds.insert(if k == "EOther" { t.chars().take(24).collect() } else { k.to_string() }); out.count(&format!("error:{}", if k == "EOther" { "other" } else { k })); } }
    if ro && !before.snap.is_empty() { *nro += 1; }
    if !(err || ro) { return; }
    out.impl_checks += 1;
    if !same_visible(before, after) {
        let d = json!({"command": text, "reply": format!("{:?}", r), "is_read_only": ro, "keyspace_before": snap_json(&before.snap), "keyspace_after": snap_json(&after.snap),
                       "lazily_expired_before": before.stale, "lazily_expired_after": after.stale, "raw_before": format!("{:?}", before.raw), "raw_after": format!("{:?}", after.raw), "steps_before": trace});
        // a script that fails after one of its own calls has already written keeps that write in Redis too:
        // not a C17 failure of the executor (scripts are not transactions); counted separately
        let script_partial = matches!(c, Command::Eval { .. } | Command::EvalSha { .. }) && err && !ro;
        if script_partial { out.count("script-error-after-write(expected: Redis scripts do not roll back)"); return; }
        let what = if err { format!("{} replied an error ({}) but the visible keyspace changed", name, match r { RespValue::Error(t) => t.to_string(), _ => String::new() }) }
                   else { format!("{} is classified read-only (Command::is_read_only) but changed the visible keyspace", name) };
        viol(out, vseen, &format!("{}:{}", if err { "error-changed-keyspace" } else { "read-only-changed-keyspace" }, name), i, &what, d);
    }
}

//! C16: a command means the same via every entry path.
//!
//! Three streams of cases, all generated from `case_rng(seed, i)`:
//!   P  (parsers)  one request frame -> Command::from_resp (simulation) and
//!                 Command::from_resp_zero_copy (production), both under catch_unwind; the
//!                 parsed Command is printed structurally (tag + argument list), an error as
//!                 its text.  The Coq model (Model/CmdGrammar.v) parses the same frame.
//!   L  (redis.call) a keyspace prefix + one invocation: direct on executor A, through
//!                 `return redis.pcall(table.unpack(ARGV))` on twin B, through
//!                 `describe(redis.pcall(..))` on twin C (shows the Lua value the script saw).
//!   V  (values)   a Lua literal -> `return <literal>` -> reply (lua_to_resp).
//! Direct oracles on the implementation:
//!   O1 no parser panics                       O2 both parsers: same Command or same error text
//!   O3 script call = direct call modulo the RESP<->Lua conversion (reply and keyspace)
//!   O4 redis.call of a command a client can send is not refused (known class: subset)
//!   O5 a nil bulk reaches the script as `false` (Redis) -- known class: coded as nil
use rand::seq::SliceRandom;
use rand::Rng as _;
use redis_sim::redis::lua::SharedScriptCache;
use redis_sim::redis::{Command, CommandExecutor, RespCodec, RespParser, RespValue, RespValueZeroCopy, SDS};
use redis_sim::simulator::VirtualTime;
use serde_json::{json, Value};
use std::borrow::Cow;
use std::panic::{catch_unwind, AssertUnwindSafe};
use vharness::util::*;

const HEADER: &str = "From Coq Require Import ZArith.\nFrom RV Require Import Corr.C16.\nLocal Open Scope string_scope.\nLocal Open Scope Z_scope.\nLocal Open Scope list_scope.";

// ------------------------------------------------------------------ frames
#[derive(Clone, Debug, PartialEq)]
enum El {
    Bulk(Vec<u8>),
    Int(i64),
    Nil,
    Simple(String),
    Arr,
}
#[derive(Clone, Debug, PartialEq)]
enum Frame {
    Arr(Vec<El>),
    NullArr,
    TopBulk(Vec<u8>),
    TopInt(i64),
}
fn el_resp(e: &El) -> RespValue {
    match e {
        El::Bulk(b) => RespValue::BulkString(Some(b.clone())),
        El::Int(n) => RespValue::Integer(*n),
        El::Nil => RespValue::BulkString(None),
        El::Simple(s) => RespValue::SimpleString(Cow::Owned(s.clone())),
        El::Arr => RespValue::Array(Some(vec![RespValue::BulkString(Some(b"x".to_vec()))])),
    }
}
fn el_zc(e: &El) -> RespValueZeroCopy {
    use bytes::Bytes;
    match e {
        El::Bulk(b) => RespValueZeroCopy::BulkString(Some(Bytes::from(b.clone()))),
        El::Int(n) => RespValueZeroCopy::Integer(*n),
        El::Nil => RespValueZeroCopy::BulkString(None),
        El::Simple(s) => RespValueZeroCopy::SimpleString(Bytes::from(s.clone().into_bytes())),
        El::Arr => RespValueZeroCopy::Array(Some(vec![RespValueZeroCopy::BulkString(Some(Bytes::from_static(b"x")))])),
    }
}
fn frame_resp(f: &Frame) -> RespValue {
    match f {
        Frame::Arr(v) => RespValue::Array(Some(v.iter().map(el_resp).collect())),
        Frame::NullArr => RespValue::Array(None),
        Frame::TopBulk(b) => RespValue::BulkString(Some(b.clone())),
        Frame::TopInt(n) => RespValue::Integer(*n),
    }
}
fn frame_zc(f: &Frame) -> RespValueZeroCopy {
    use bytes::Bytes;
    match f {
        Frame::Arr(v) => RespValueZeroCopy::Array(Some(v.iter().map(el_zc).collect())),
        Frame::NullArr => RespValueZeroCopy::Array(None),
        Frame::TopBulk(b) => RespValueZeroCopy::BulkString(Some(Bytes::from(b.clone()))),
        Frame::TopInt(n) => RespValueZeroCopy::Integer(*n),
    }
}
fn el_term(e: &El) -> String {
    match e {
        El::Bulk(b) => format!("EB {}", chex(b)),
        El::Int(n) => format!("EI ({})", n),
        _ => "EO".to_string(),
    }
}
fn frame_term(f: &Frame) -> String {
    match f {
        Frame::Arr(v) => format!("(Some {})", clist(v.iter(), el_term)),
        _ => "None".to_string(),
    }
}
fn frame_show(f: &Frame) -> String {
    match f {
        Frame::Arr(v) => v
            .iter()
            .map(|e| match e {
                El::Bulk(b) => format!("{:?}", String::from_utf8_lossy(b)),
                El::Int(n) => format!(":{}", n),
                El::Nil => "$-1".to_string(),
                El::Simple(s) => format!("+{}", s),
                El::Arr => "*1[x]".to_string(),
            })
            .collect::<Vec<_>>()
            .join(" "),
        o => format!("{:?}", o),
    }
}

// ------------------------------------------------------------------ structural rendering of a Command
fn s(x: &str) -> String {
    format!("S {}", chex(x.as_bytes()))
}
fn b(x: &SDS) -> String {
    format!("B {}", chex(x.as_bytes()))
}
fn i<T: std::fmt::Display>(x: T) -> String {
    format!("I ({})", x)
}
fn fl(x: f64) -> String {
    format!("Fb {}", x.to_bits())
}
fn fg(x: bool) -> String {
    (if x { "T" } else { "Ff" }).to_string()
}
fn o<T>(x: &Option<T>, f: impl Fn(&T) -> String) -> String {
    match x {
        None => "Nn".to_string(),
        Some(v) => format!("Sm ({})", f(v)),
    }
}
fn l<T>(x: &[T], f: impl Fn(&T) -> String) -> String {
    format!("L {}", clist(x.iter(), |e| f(e)))
}
fn p(a: String, b: String) -> String {
    format!("P ({}) ({})", a, b)
}
fn render(c: &Command) -> String {
    use Command::*;
    let (tag, args): (&str, Vec<String>) = match c {
        Get(k) => ("Get", vec![s(k)]),
        Set { key, value, ex, px, exat, pxat, nx, xx, get, keepttl } => (
            "Set",
            vec![s(key), b(value), o(ex, |x| i(x)), o(px, |x| i(x)), o(exat, |x| i(x)), o(pxat, |x| i(x)), fg(*nx), fg(*xx), fg(*get), fg(*keepttl)],
        ),
        Append(k, v) => ("Append", vec![s(k), b(v)]),
        GetSet(k, v) => ("GetSet", vec![s(k), b(v)]),
        StrLen(k) => ("StrLen", vec![s(k)]),
        MGet(ks) => ("MGet", vec![l(ks, |k| s(k))]),
        MSet(ps) => ("MSet", vec![l(ps, |(k, v)| p(s(k), b(v)))]),
        MSetNx(ps) => ("MSetNx", vec![l(ps, |(k, v)| p(s(k), b(v)))]),
        BatchSet(ps) => ("BatchSet", vec![l(ps, |(k, v)| p(s(k), b(v)))]),
        BatchGet(ks) => ("BatchGet", vec![l(ks, |k| s(k))]),
        GetRange(k, a, e) => ("GetRange", vec![s(k), i(a), i(e)]),
        SetRange(k, off, v) => ("SetRange", vec![s(k), i(off), b(v)]),
        SetBit(k, off, v) => ("SetBit", vec![s(k), i(off), i(v)]),
        GetBit(k, off) => ("GetBit", vec![s(k), i(off)]),
        GetEx { key, ex, px, exat, pxat, persist } => ("GetEx", vec![s(key), o(ex, |x| i(x)), o(px, |x| i(x)), o(exat, |x| i(x)), o(pxat, |x| i(x)), fg(*persist)]),
        GetDel(k) => ("GetDel", vec![s(k)]),
        Incr(k) => ("Incr", vec![s(k)]),
        Decr(k) => ("Decr", vec![s(k)]),
        IncrBy(k, n) => ("IncrBy", vec![s(k), i(n)]),
        DecrBy(k, n) => ("DecrBy", vec![s(k), i(n)]),
        IncrByFloat(k, f) => ("IncrByFloat", vec![s(k), fl(*f)]),
        Del(ks) => ("Del", vec![l(ks, |k| s(k))]),
        Exists(ks) => ("Exists", vec![l(ks, |k| s(k))]),
        TypeOf(k) => ("TypeOf", vec![s(k)]),
        Keys(k) => ("Keys", vec![s(k)]),
        FlushDb => ("FlushDb", vec![]),
        FlushAll => ("FlushAll", vec![]),
        Expire { key, seconds, nx, xx, gt, lt } => ("Expire", vec![s(key), i(seconds), fg(*nx), fg(*xx), fg(*gt), fg(*lt)]),
        ExpireAt(k, t) => ("ExpireAt", vec![s(k), i(t)]),
        PExpire { key, milliseconds, nx, xx, gt, lt } => ("PExpire", vec![s(key), i(milliseconds), fg(*nx), fg(*xx), fg(*gt), fg(*lt)]),
        PExpireAt(k, t) => ("PExpireAt", vec![s(k), i(t)]),
        Ttl(k) => ("Ttl", vec![s(k)]),
        Pttl(k) => ("Pttl", vec![s(k)]),
        ExpireTime(k) => ("ExpireTime", vec![s(k)]),
        PExpireTime(k) => ("PExpireTime", vec![s(k)]),
        Persist(k) => ("Persist", vec![s(k)]),
        Wait(a, t) => ("Wait", vec![i(a), i(t)]),
        Time => ("Time", vec![]),
        Sort { key, store } => ("Sort", vec![s(key), o(store, |x| s(x))]),
        LPush(k, vs) => ("LPush", vec![s(k), l(vs, |v| b(v))]),
        RPush(k, vs) => ("RPush", vec![s(k), l(vs, |v| b(v))]),
        LPop(k) => ("LPop", vec![s(k)]),
        RPop(k) => ("RPop", vec![s(k)]),
        LLen(k) => ("LLen", vec![s(k)]),
        LIndex(k, n) => ("LIndex", vec![s(k), i(n)]),
        LRange(k, a, e) => ("LRange", vec![s(k), i(a), i(e)]),
        LSet(k, n, v) => ("LSet", vec![s(k), i(n), b(v)]),
        LTrim(k, a, e) => ("LTrim", vec![s(k), i(a), i(e)]),
        RPopLPush(a, d) => ("RPopLPush", vec![s(a), s(d)]),
        LMove { source, dest, wherefrom, whereto } => ("LMove", vec![s(source), s(dest), s(wherefrom), s(whereto)]),
        SAdd(k, vs) => ("SAdd", vec![s(k), l(vs, |v| b(v))]),
        SRem(k, vs) => ("SRem", vec![s(k), l(vs, |v| b(v))]),
        SMembers(k) => ("SMembers", vec![s(k)]),
        SIsMember(k, v) => ("SIsMember", vec![s(k), b(v)]),
        SCard(k) => ("SCard", vec![s(k)]),
        SPop(k, n) => ("SPop", vec![s(k), o(n, |x| i(x))]),
        HSet(k, ps) => ("HSet", vec![s(k), l(ps, |(f, v)| p(b(f), b(v)))]),
        HGet(k, f) => ("HGet", vec![s(k), b(f)]),
        HDel(k, fs) => ("HDel", vec![s(k), l(fs, |v| b(v))]),
        HGetAll(k) => ("HGetAll", vec![s(k)]),
        HKeys(k) => ("HKeys", vec![s(k)]),
        HVals(k) => ("HVals", vec![s(k)]),
        HLen(k) => ("HLen", vec![s(k)]),
        HExists(k, f) => ("HExists", vec![s(k), b(f)]),
        HIncrBy(k, f, n) => ("HIncrBy", vec![s(k), b(f), i(n)]),
        ZAdd { key, pairs, nx, xx, gt, lt, ch } => ("ZAdd", vec![s(key), l(pairs, |(sc, m)| p(fl(*sc), b(m))), fg(*nx), fg(*xx), fg(*gt), fg(*lt), fg(*ch)]),
        ZRem(k, ms) => ("ZRem", vec![s(k), l(ms, |v| b(v))]),
        ZRange(k, a, e, w) => ("ZRange", vec![s(k), i(a), i(e), fg(*w)]),
        ZRevRange(k, a, e, w) => ("ZRevRange", vec![s(k), i(a), i(e), fg(*w)]),
        ZScore(k, m) => ("ZScore", vec![s(k), b(m)]),
        ZRank(k, m) => ("ZRank", vec![s(k), b(m)]),
        ZCard(k) => ("ZCard", vec![s(k)]),
        ZCount(k, a, e) => ("ZCount", vec![s(k), s(a), s(e)]),
        ZRangeByScore { key, min, max, with_scores, limit } => ("ZRangeByScore", vec![s(key), s(min), s(max), fg(*with_scores), o(limit, |(a, c)| p(i(a), i(c)))]),
        Scan { cursor, pattern, count } => ("Scan", vec![i(cursor), o(pattern, |x| s(x)), o(count, |x| i(x))]),
        HScan { key, cursor, pattern, count } => ("HScan", vec![s(key), i(cursor), o(pattern, |x| s(x)), o(count, |x| i(x))]),
        ZScan { key, cursor, pattern, count } => ("ZScan", vec![s(key), i(cursor), o(pattern, |x| s(x)), o(count, |x| i(x))]),
        Multi => ("Multi", vec![]),
        Exec => ("Exec", vec![]),
        Discard => ("Discard", vec![]),
        Watch(ks) => ("Watch", vec![l(ks, |k| s(k))]),
        Unwatch => ("Unwatch", vec![]),
        Eval { script, keys, args } => ("Eval", vec![s(script), l(keys, |k| s(k)), l(args, |v| b(v))]),
        EvalSha { sha1, keys, args } => ("EvalSha", vec![s(sha1), l(keys, |k| s(k)), l(args, |v| b(v))]),
        ScriptLoad(x) => ("ScriptLoad", vec![s(x)]),
        ScriptExists(xs) => ("ScriptExists", vec![l(xs, |k| s(k))]),
        ScriptFlush => ("ScriptFlush", vec![]),
        SetNx(k, v) => ("SetNx", vec![s(k), b(v)]),
        Info => ("Info", vec![]),
        Ping(m) => ("Ping", vec![o(m, |x| b(x))]),
        DbSize => ("DbSize", vec![]),
        Auth { username, password } => ("Auth", vec![o(username, |x| s(x)), s(password)]),
        AclWhoami => ("AclWhoami", vec![]),
        AclList => ("AclList", vec![]),
        AclUsers => ("AclUsers", vec![]),
        AclGetUser { username } => ("AclGetUser", vec![s(username)]),
        AclSetUser { username, rules } => ("AclSetUser", vec![s(username), l(rules, |k| s(k))]),
        AclDelUser { usernames } => ("AclDelUser", vec![l(usernames, |k| s(k))]),
        AclCat { category } => ("AclCat", vec![o(category, |x| s(x))]),
        AclGenPass { bits } => ("AclGenPass", vec![o(bits, |x| i(x))]),
        AclDryrun { username, command, args } => ("AclDryrun", vec![s(username), s(command), l(args, |k| s(k))]),
        AclLog { count } => ("AclLog", vec![o(count, |x| i(x))]),
        AclLogReset => ("AclLogReset", vec![]),
        ConfigGet(x) => ("ConfigGet", vec![s(x)]),
        ConfigSet(x, y) => ("ConfigSet", vec![s(x), s(y)]),
        ConfigResetStat => ("ConfigResetStat", vec![]),
        Select(n) => ("Select", vec![i(n)]),
        Echo(m) => ("Echo", vec![b(m)]),
        CommandCommand => ("CommandCommand", vec![]),
        CommandCount => ("CommandCount", vec![]),
        FunctionFlush => ("FunctionFlush", vec![]),
        ClientSetName(x) => ("ClientSetName", vec![s(x)]),
        ClientGetName => ("ClientGetName", vec![]),
        ClientId => ("ClientId", vec![]),
        ClientInfo => ("ClientInfo", vec![]),
        ObjectHelp => ("ObjectHelp", vec![]),
        ObjectEncoding(x) => ("ObjectEncoding", vec![s(x)]),
        ObjectRefCount(x) => ("ObjectRefCount", vec![s(x)]),
        ObjectIdleTime(x) => ("ObjectIdleTime", vec![s(x)]),
        ObjectFreq(x) => ("ObjectFreq", vec![s(x)]),
        DebugSleep(f) => ("DebugSleep", vec![fl(*f)]),
        DebugSet(x, y) => ("DebugSet", vec![s(x), s(y)]),
        DebugObject(x) => ("DebugObject", vec![s(x)]),
        RandomKey => ("RandomKey", vec![]),
        Rename(a, d) => ("Rename", vec![s(a), s(d)]),
        RenameNx(a, d) => ("RenameNx", vec![s(a), s(d)]),
        Unknown(x) => ("Unknown", vec![s(x)]),
    };
    format!("C \"{}\" [{}]", tag, args.join("; "))
}

/// outcome of one parser on one frame
#[derive(Clone, PartialEq, Debug)]
enum PR {
    Ok { term: String, debug: String, tag: String },
    Err(String),
    Panic(String),
}
fn pr_term(r: &PR) -> String {
    match r {
        PR::Ok { term, .. } => format!("({})", term),
        PR::Err(e) => format!("(E {})", chex(e.as_bytes())),
        PR::Panic(_) => "PANIC".to_string(),
    }
}
fn pr_show(r: &PR) -> String {
    match r {
        PR::Ok { debug, .. } => format!("Ok({})", debug),
        PR::Err(e) => format!("Err({:?})", e),
        PR::Panic(m) => format!("PANIC({})", m),
    }
}
fn pr_same(a: &PR, b: &PR) -> bool {
    match (a, b) {
        (PR::Ok { debug: x, term: tx, .. }, PR::Ok { debug: y, term: ty, .. }) => x == y && tx == ty,
        (PR::Err(x), PR::Err(y)) => x == y,
        (PR::Panic(_), PR::Panic(_)) => true,
        _ => false,
    }
}
fn panic_msg(e: Box<dyn std::any::Any + Send>) -> String {
    if let Some(s) = e.downcast_ref::<&str>() {
        s.to_string()
    } else if let Some(s) = e.downcast_ref::<String>() {
        s.clone()
    } else {
        "?".to_string()
    }
}
fn of_result(r: std::thread::Result<Result<Command, String>>) -> PR {
    match r {
        Ok(Ok(c)) => {
            let term = render(&c);
            let tag = term.split('"').nth(1).unwrap_or("").to_string();
            PR::Ok { term, debug: format!("{:?}", c), tag }
        }
        Ok(Err(e)) => PR::Err(e),
        Err(p) => PR::Panic(panic_msg(p)),
    }
}
fn run_std(f: &Frame) -> PR {
    let v = frame_resp(f);
    of_result(catch_unwind(AssertUnwindSafe(|| Command::from_resp(&v))))
}
fn run_zc(f: &Frame) -> PR {
    let v = frame_zc(f);
    of_result(catch_unwind(AssertUnwindSafe(|| Command::from_resp_zero_copy(&v))))
}

// ------------------------------------------------------------------ the generator's view of the grammar
// pos: K key, V value, I signed int, U unsigned int, F float, S free string / pattern / score bound,
//      D LEFT|RIGHT word.   tail: "" none, "K" keys, "V" values, "P" key-value pairs,
//      "Q" field-value pairs, "Z" zadd (flags then score-member pairs), "O" option keywords.
struct Spec {
    name: &'static str,
    prefix: &'static [&'static str],
    pos: &'static str,
    tail: &'static str,
    kws: &'static [(&'static str, &'static str)],
}
const fn sp(name: &'static str, pos: &'static str, tail: &'static str) -> Spec {
    Spec { name, prefix: &[], pos, tail, kws: &[] }
}
const fn sub(name: &'static str, prefix: &'static [&'static str], pos: &'static str, tail: &'static str) -> Spec {
    Spec { name, prefix, pos, tail, kws: &[] }
}
const fn op(name: &'static str, pos: &'static str, kws: &'static [(&'static str, &'static str)]) -> Spec {
    Spec { name, prefix: &[], pos, tail: "O", kws }
}
const SET_KW: &[(&str, &str)] = &[("NX", ""), ("XX", ""), ("GET", ""), ("EX", "I"), ("PX", "I"), ("EXAT", "I"), ("PXAT", "I"), ("KEEPTTL", ""), ("IFEQ", "V"), ("IFGT", "V"), ("PERSIST", "")];
const GETEX_KW: &[(&str, &str)] = &[("EX", "I"), ("PX", "I"), ("EXAT", "I"), ("PXAT", "I"), ("PERSIST", ""), ("KEEPTTL", "")];
const EXP_KW: &[(&str, &str)] = &[("NX", ""), ("XX", ""), ("GT", ""), ("LT", ""), ("CH", "")];
const ZRBS_KW: &[(&str, &str)] = &[("WITHSCORES", ""), ("LIMIT", "II"), ("LIMIT", "I"), ("LIMIT", "")];
const SCAN_KW: &[(&str, &str)] = &[("MATCH", "S"), ("COUNT", "I"), ("MATCH", ""), ("COUNT", ""), ("TYPE", "S")];
const SORT_KW: &[(&str, &str)] = &[("STORE", "K"), ("STORE", ""), ("ALPHA", ""), ("DESC", ""), ("LIMIT", "II"), ("BY", "S")];
const WS_KW: &[(&str, &str)] = &[("WITHSCORES", ""), ("REV", "")];
const SPECS: &[Spec] = &[
    sp("PING", "", ""), sp("PING", "V", ""), sp("INFO", "", ""), sp("TIME", "", ""), sp("DBSIZE", "", ""),
    sub("CONFIG", &["GET"], "S", ""), sub("CONFIG", &["SET"], "SS", ""), sub("CONFIG", &["RESETSTAT"], "", ""), sub("CONFIG", &["REWRITE"], "", ""),
    sp("SELECT", "U", ""), sp("ECHO", "V", ""), sp("AUTH", "S", ""), sp("AUTH", "SS", ""),
    sub("ACL", &["WHOAMI"], "", ""), sub("ACL", &["LIST"], "", ""), sub("ACL", &["USERS"], "", ""), sub("ACL", &["GETUSER"], "S", ""),
    sub("ACL", &["SETUSER"], "S", "K"), sub("ACL", &["DELUSER"], "", "K"), sub("ACL", &["CAT"], "", ""), sub("ACL", &["CAT"], "S", ""),
    sub("ACL", &["GENPASS"], "", ""), sub("ACL", &["GENPASS"], "U", ""), sub("ACL", &["DRYRUN"], "SS", "K"), sub("ACL", &["LOG"], "", ""),
    sub("ACL", &["LOG"], "U", ""), sub("ACL", &["LOG", "RESET"], "", ""), sub("ACL", &["HELP"], "", ""), sub("ACL", &["LOAD"], "", ""),
    sub("ACL", &["SAVE"], "", ""), sub("ACL", &["NOPE"], "", ""),
    sp("FLUSHDB", "", ""), sp("FLUSHALL", "", ""), sp("MULTI", "", ""), sp("EXEC", "", ""), sp("DISCARD", "", ""), sp("WATCH", "", "K"), sp("UNWATCH", "", ""),
    sp("EVAL", "S", "E"), sp("EVALSHA", "S", "E"),
    sub("SCRIPT", &["LOAD"], "S", ""), sub("SCRIPT", &["EXISTS"], "", "K"), sub("SCRIPT", &["FLUSH"], "", ""), sub("SCRIPT", &["KILL"], "", ""),
    sp("GET", "K", ""), op("SET", "KV", SET_KW), sp("SETEX", "KIV", ""), sp("PSETEX", "KIV", ""), sp("SETNX", "KV", ""),
    sp("DEL", "", "K"), sp("UNLINK", "", "K"), sp("EXISTS", "", "K"), sp("TYPE", "K", ""), sp("KEYS", "S", ""),
    op("EXPIRE", "KI", EXP_KW), op("PEXPIRE", "KI", EXP_KW), sp("EXPIREAT", "KI", ""), sp("PEXPIREAT", "KI", ""),
    sp("TTL", "K", ""), sp("PTTL", "K", ""), sp("PERSIST", "K", ""), sp("EXPIRETIME", "K", ""), sp("PEXPIRETIME", "K", ""),
    sp("INCR", "K", ""), sp("DECR", "K", ""), sp("INCRBY", "KI", ""), sp("DECRBY", "KI", ""), sp("INCRBYFLOAT", "KF", ""),
    sp("APPEND", "KV", ""), sp("GETSET", "KV", ""), sp("STRLEN", "K", ""), sp("MGET", "", "K"), sp("MSET", "", "P"), sp("MSETNX", "", "P"),
    sp("GETRANGE", "KII", ""), sp("SUBSTR", "KII", ""), sp("SETRANGE", "KIV", ""), sp("SETBIT", "KUI", ""), sp("GETBIT", "KU", ""),
    op("GETEX", "K", GETEX_KW), sp("GETDEL", "K", ""),
    sp("LPUSH", "K", "V"), sp("RPUSH", "K", "V"), sp("LPOP", "K", ""), sp("RPOP", "K", ""), sp("LRANGE", "KII", ""), sp("LLEN", "K", ""),
    sp("LINDEX", "KI", ""), sp("LSET", "KIV", ""), sp("LTRIM", "KII", ""), sp("RPOPLPUSH", "KK", ""), sp("LMOVE", "KKDD", ""),
    sp("SADD", "K", "V"), sp("SREM", "K", "V"), sp("SMEMBERS", "K", ""), sp("SISMEMBER", "KV", ""), sp("SCARD", "K", ""), sp("SPOP", "K", ""), sp("SPOP", "KU", ""),
    sp("HSET", "K", "Q"), sp("HGET", "KV", ""), sp("HGETALL", "K", ""), sp("HINCRBY", "KVI", ""), sp("HDEL", "K", "V"), sp("HKEYS", "K", ""),
    sp("HVALS", "K", ""), sp("HLEN", "K", ""), sp("HEXISTS", "KV", ""),
    sp("ZADD", "K", "Z"), op("ZRANGE", "KII", WS_KW), op("ZREVRANGE", "KII", WS_KW), sp("ZSCORE", "KV", ""), sp("ZREM", "K", "V"), sp("ZRANK", "KV", ""),
    sp("ZCARD", "K", ""), sp("ZCOUNT", "KSS", ""), op("ZRANGEBYSCORE", "KSS", ZRBS_KW),
    op("SCAN", "U", SCAN_KW), op("HSCAN", "KU", SCAN_KW), op("ZSCAN", "KU", SCAN_KW),
    sub("FUNCTION", &["FLUSH"], "", ""), sub("FUNCTION", &["LIST"], "", ""), sp("COMMAND", "", ""), sub("COMMAND", &["COUNT"], "", ""), sub("COMMAND", &["DOCS"], "", ""),
    sub("CLIENT", &["SETNAME"], "S", ""), sub("CLIENT", &["GETNAME"], "", ""), sub("CLIENT", &["ID"], "", ""), sub("CLIENT", &["INFO"], "", ""), sub("CLIENT", &["LIST"], "", ""),
    sub("OBJECT", &["HELP"], "", ""), sub("OBJECT", &["ENCODING"], "K", ""), sub("OBJECT", &["REFCOUNT"], "K", ""), sub("OBJECT", &["IDLETIME"], "K", ""),
    sub("OBJECT", &["FREQ"], "K", ""), sub("OBJECT", &["NOPE"], "K", ""),
    sub("DEBUG", &["SLEEP"], "F", ""), sub("DEBUG", &["SET-ACTIVE-EXPIRE"], "I", ""), sub("DEBUG", &["JMAP"], "", ""), sub("DEBUG", &["OBJECT"], "K", ""),
    sub("DEBUG", &["RELOAD"], "", ""), sub("DEBUG", &["whatever"], "S", ""),
    sp("WAIT", "II", ""), op("SORT", "K", SORT_KW), sp("RANDOMKEY", "", ""), sp("RENAME", "KK", ""), sp("RENAMENX", "KK", ""),
];
const UNKNOWN_NAMES: &[&str] = &["FOO", "XADD", "HELLO", "SUBSCRIBE", "HMGET", "LINSERT", "GE", "GETT", "", "G E T", "SET\r\nGET"];

const INTS: &[&str] = &[
    "0", "1", "-1", "2", "10", "15", "16", "+5", "05", "-0", "+0", " 5", "5 ", "1e3", "", "9223372036854775807", "9223372036854775808",
    "-9223372036854775808", "-9223372036854775809", "18446744073709551615", "18446744073709551616", "4294967295", "4294967296", "2147483648",
    "1.5", "abc", "0x10", "99999999999999999999999", "99999999999999999999x", "9x99999999999999999999", "+", "-", "--5", "+-5", "-+5", "++5",
    "\u{0661}", "5\u{0660}", "\u{ff15}", "1_0", "1,0", "\t1", "1\n", "00000000000000000000000000007", "-00", "+18446744073709551615", "-18446744073709551615",
];
const FLOATS: &[&str] = &[
    "1", "1.5", "-0", "-0.0", ".5", "5.", "-.5", "+.5", "1e3", "1E3", "1e+3", "1e-3", "1.e5", "1e", "1e+", "1e-", "e5", ".e5", ".", "+.", "", "+", "-",
    "inf", "-inf", "+inf", "Infinity", "INFINITY", "-infinity", "infinit", "infinityy", "in", "nan", "NaN", "-nan", "+NAN", "nann", "na",
    "1e308", "1e309", "-1e309", "1.7976931348623157e308", "1.7976931348623158e308", "1.797693134862315807e308", "1.797693134862315808e308",
    "1.7976931348623158079e308", "1.7976931348623158080e308", "17976931348623158079372897140530341507993413271003782693617377898044496829276475094664901797758720709633028641669288791094655554785194040263065748867150582068190890200070838367627385484581771153176447573027006985557136695962284291481986083493647529271907416844436551070434271155969950809304288017790417449779.1",
    "179769313486231580793728971405303415079934132710037826936173778980444968292764750946649017977587207096330286416692887910946555547851940402630657488671505820681908902000708383676273854845817711531764475730270069855571366959622842914819860834936475292719074168444365510704342711559699508093042880177904174497792",
    "179769313486231580793728971405303415079934132710037826936173778980444968292764750946649017977587207096330286416692887910946555547851940402630657488671505820681908902000708383676273854845817711531764475730270069855571366959622842914819860834936475292719074168444365510704342711559699508093042880177904174497791.9999",
    "0.000001e314", "0.000001e315", "1000000e302", "1000000e303", "0e99999999999999999999", "1e99999999999999999999", "1e-99999999999999999999", "0.0e400", "00001e308",
    "-1e400", "4.9e-324", "1e-400", " 1", "1 ", "1_0", "0x1p3", "1f", "1d", "1.5.5", "1e5e5", "--1", "+-1", "\u{0661}", "1e\u{0661}", "1..5", "1e5.5", "١",
];
const KEYS: &[&[u8]] = &[b"k", b"j", b"key:1", b"", b"K", b"nx", b"EX", b"match", b"\xff", b"a\xc3", b"\xe2\x82", b"caf\xc3\xa9", b"\xf0\x9f\x98\x80", b"\xed\xa0\x80", b"\xc0\xaf", b"a b", b"a\r\nb", b"0", b"\xf4\x90\x80\x80", b"\xe0\x80\xaf", b"\xf0\x80\x80\x80", b"x\xf1\x80\x80y", b"\xef\xbf\xbd"];
const VALS: &[&[u8]] = &[b"v", b"", b"\x00\xff", b"10", b"hello world", b"NX", b"get", b"\xc3\x28", b"-1"];
const STRS: &[&[u8]] = &[b"*", b"k*", b"(1", b"-inf", b"+inf", b"1.5", b"[a-c]", b"", b"\xff", b"maxmemory", b"user", b"on", b">pw", b"~*", b"+@all"];
const DIRS: &[&[u8]] = &[b"LEFT", b"RIGHT", b"left", b"Right", b"UP", b"", b"LEFTT", b"\xef\xac\x82eft"];

fn pick<'a, T: ?Sized>(rng: &mut Rng, xs: &'a [&'a T]) -> &'a T {
    xs[rng.gen_range(0..xs.len())]
}
/// random ASCII case per letter; sometimes a letter is replaced by a non-ASCII character whose
/// Unicode upper case is that ASCII letter (ı -> I, ſ -> S, ﬂ -> FL ...): str::to_uppercase maps
/// them onto the command name.
fn recase(rng: &mut Rng, w: &str, exotic_p: f64) -> Vec<u8> {
    let exotic = exotic_p > 0.0 && rng.gen_bool(exotic_p);
    let style = rng.gen_range(0..5);
    let mut out: Vec<u8> = Vec::new();
    let bs = w.as_bytes();
    let mut j = 0;
    while j < bs.len() {
        let c = bs[j];
        if exotic && rng.gen_bool(0.5) {
            let rest = &w[j..];
            let lig: &[(&str, &str)] = &[("FFI", "\u{fb03}"), ("FFL", "\u{fb04}"), ("FF", "\u{fb00}"), ("FI", "\u{fb01}"), ("FL", "\u{fb02}"), ("ST", "\u{fb05}"), ("ST", "\u{fb06}"), ("SS", "\u{df}"), ("I", "\u{131}"), ("S", "\u{17f}")];
            if let Some((pat, rep)) = lig.iter().find(|(pat, _)| rest.starts_with(pat)) {
                out.extend_from_slice(rep.as_bytes());
                j += pat.len();
                continue;
            }
        }
        let lower = match style {
            0 => false,
            1 => true,
            2 => j > 0,
            _ => rng.gen_bool(0.5),
        };
        out.push(if lower { c.to_ascii_lowercase() } else { c.to_ascii_uppercase() });
        j += 1;
    }
    out
}
fn gen_arg(rng: &mut Rng, kind: char) -> Vec<u8> {
    // 12%: an argument of another kind (numbers where keys go, keywords where numbers go ...)
    let kind = if rng.gen_bool(0.12) { *['K', 'V', 'I', 'U', 'F', 'S', 'W'].choose(rng).unwrap() } else { kind };
    match kind {
        'K' => pick(rng, KEYS).to_vec(),
        'V' => pick(rng, VALS).to_vec(),
        'I' | 'U' => {
            if rng.gen_bool(0.45) {
                pick(rng, INTS).as_bytes().to_vec()
            } else {
                let v: i64 = match rng.gen_range(0..4) { 0 => rng.gen_range(-3..20), 1 => rng.gen_range(-100000..100000), 2 => rng.gen(), _ => rng.gen_range(0..3) };
                v.to_string().into_bytes()
            }
        }
        'F' => {
            if rng.gen_bool(0.6) {
                pick(rng, FLOATS).as_bytes().to_vec()
            } else {
                let m: i64 = rng.gen_range(-99999..99999);
                let e: i32 = rng.gen_range(-330..330);
                match rng.gen_range(0..3) { 0 => format!("{}e{}", m, e), 1 => format!("{}.{}", m, rng.gen_range(0..1000)), _ => format!("{}", m) }.into_bytes()
            }
        }
        'S' => pick(rng, STRS).to_vec(),
        'D' => pick(rng, DIRS).to_vec(),
        _ => {
            let w = pick(rng, &["NX", "XX", "GT", "LT", "CH", "EX", "PX", "GET", "KEEPTTL", "MATCH", "COUNT", "WITHSCORES", "LIMIT", "STORE", "RESET", "PERSIST", "EXAT", "PXAT", "IFEQ"]);
            recase(rng, w, 0.1)
        }
    }
}
fn gen_frame(rng: &mut Rng) -> (Frame, String) {
    let class = rng.gen_range(0..100);
    if class < 2 {
        let f = match rng.gen_range(0..4) { 0 => Frame::NullArr, 1 => Frame::Arr(vec![]), 2 => Frame::TopBulk(b"GET".to_vec()), _ => Frame::TopInt(1) };
        return (f, "not-a-command-array".to_string());
    }
    let mut parts: Vec<Vec<u8>> = Vec::new();
    let label: String;
    if class < 8 {
        // unknown / malformed names
        let name: Vec<u8> = match rng.gen_range(0..4) {
            0 => { let w = pick(rng, UNKNOWN_NAMES); recase(rng, w, 0.0) }
            1 => (0..rng.gen_range(0..6)).map(|_| rng.gen::<u8>()).collect(),
            2 => { let w = SPECS[rng.gen_range(0..SPECS.len())].name; let mut n = recase(rng, w, 0.0); n.push(*[b' ', b'\0', b'X', 0xff].choose(rng).unwrap()); n }
            _ => "caf\u{e9} \u{df}\u{131}\u{4e2d}".as_bytes()[..rng.gen_range(0..12)].to_vec(),
        };
        parts.push(name);
        for _ in 0..rng.gen_range(0..4) { parts.push(gen_arg(rng, 'K')); }
        label = "unknown-name".to_string();
    } else {
        let spec = &SPECS[rng.gen_range(0..SPECS.len())];
        label = if spec.prefix.is_empty() { spec.name.to_string() } else { format!("{} {}", spec.name, spec.prefix[0]) };
        parts.push(recase(rng, spec.name, 0.04));
        for w in spec.prefix { parts.push(recase(rng, w, 0.04)); }
        for k in spec.pos.chars() { parts.push(gen_arg(rng, k)); }
        match spec.tail {
            "K" | "V" => { for _ in 0..rng.gen_range(0..4) { parts.push(gen_arg(rng, spec.tail.chars().next().unwrap())); } }
            "P" => { for _ in 0..rng.gen_range(0..7) { let k = if parts.len() % 2 == 1 { 'K' } else { 'V' }; parts.push(gen_arg(rng, k)); } }
            "Q" => { for _ in 0..rng.gen_range(0..7) { parts.push(gen_arg(rng, 'V')); } }
            "Z" => {
                for _ in 0..rng.gen_range(0..4) { let w = pick(rng, &["NX", "XX", "GT", "LT", "CH", "INCR"]); parts.push(recase(rng, w, 0.0)); }
                for _ in 0..rng.gen_range(0..6) { let k = if rng.gen_bool(0.5) { 'F' } else { 'V' }; parts.push(gen_arg(rng, k)); }
                if rng.gen_bool(0.6) { let n = rng.gen_range(1..3); let base = parts.len(); parts.truncate(2); let _ = base; for _ in 0..rng.gen_range(0..3) { let w = pick(rng, &["NX", "XX", "GT", "LT", "CH"]); parts.push(recase(rng, w, 0.0)); } for _ in 0..n { parts.push(gen_arg(rng, 'F')); parts.push(gen_arg(rng, 'V')); } }
            }
            "E" => {
                // EVAL script numkeys key.. arg..
                let nk: i64 = match rng.gen_range(0..10) { 0 => -1, 1 => -2, 2 => i64::MIN, 3 => i64::MAX, 4 => 100, _ => rng.gen_range(0..4) };
                if rng.gen_bool(0.85) { parts.push(nk.to_string().into_bytes()); } else { parts.push(gen_arg(rng, 'I')); }
                for _ in 0..rng.gen_range(0..5) { parts.push(gen_arg(rng, 'K')); }
            }
            "O" => {
                for _ in 0..rng.gen_range(0..5) {
                    let (kw, vals) = spec.kws[rng.gen_range(0..spec.kws.len())];
                    parts.push(recase(rng, kw, 0.03));
                    for k in vals.chars() { parts.push(gen_arg(rng, k)); }
                }
            }
            _ => {}
        }
        // arity -2 .. +2 around what the grammar asks for
        match rng.gen_range(0..12) {
            0 => { let n = parts.len().saturating_sub(1).max(1); parts.truncate(n); }
            1 => { let n = parts.len().saturating_sub(2).max(1); parts.truncate(n); }
            2 => parts.push(gen_arg(rng, 'K')),
            3 => { parts.push(gen_arg(rng, 'W')); parts.push(gen_arg(rng, 'I')); }
            4 => { let n = 1 + spec.prefix.len(); parts.truncate(n.min(parts.len())); }
            _ => {}
        }
    }
    let mut els: Vec<El> = parts.into_iter().map(El::Bulk).collect();
    // 6%: one element is not a bulk string
    if !els.is_empty() && rng.gen_bool(0.06) {
        let j = rng.gen_range(0..els.len());
        els[j] = match rng.gen_range(0..6) { 0 => El::Nil, 1 => El::Simple("OK".to_string()), 2 => El::Arr, 3 => El::Int(*[-1i64, 0, 1, 5, 16, i64::MIN, i64::MAX].choose(rng).unwrap()), _ => El::Int(rng.gen_range(-3..20)) };
    }
    (Frame::Arr(els), label)
}

/// The model's upper-casing covers ASCII letters and the ten characters whose upper case is
/// pure ASCII; a frame carrying any other cased non-ASCII character is compared parser against
/// parser only.
fn in_model_domain(f: &Frame) -> bool {
    let ok_char = |c: char| -> bool {
        if c.is_ascii() { return true; }
        let up: String = c.to_uppercase().collect();
        if up.chars().count() == 1 && up.chars().next() == Some(c) { return true; }
        matches!(c, '\u{df}' | '\u{131}' | '\u{17f}' | '\u{fb00}'..='\u{fb06}')
    };
    match f {
        Frame::Arr(v) => v.iter().all(|e| match e { El::Bulk(b) => String::from_utf8_lossy(b).chars().all(ok_char), _ => true }),
        _ => true,
    }
}
fn float_table(f: &Frame) -> String {
    let mut seen: std::collections::HashSet<&Vec<u8>> = std::collections::HashSet::new();
    let mut rows: Vec<String> = Vec::new();
    if let Frame::Arr(v) = f {
        for e in v {
            if let El::Bulk(b) = e {
                if !seen.insert(b) { continue; }
                if let Ok(x) = String::from_utf8_lossy(b).parse::<f64>() {
                    rows.push(format!("({}, {})", chex(b), x.to_bits()));
                }
            }
        }
    }
    format!("[{}]", rows.join("; "))
}



// ------------------------------------------------------------------ the same frame as wire bytes
// (what RedisServer and the connection handlers do: RespParser::parse -> from_resp,
//  RespCodec::parse -> from_resp_zero_copy)
fn wire_el(e: &El, out: &mut Vec<u8>) {
    match e {
        El::Bulk(b) => { out.extend_from_slice(format!("${}\r\n", b.len()).as_bytes()); out.extend_from_slice(b); out.extend_from_slice(b"\r\n"); }
        El::Int(n) => out.extend_from_slice(format!(":{}\r\n", n).as_bytes()),
        El::Nil => out.extend_from_slice(b"$-1\r\n"),
        El::Simple(s) => out.extend_from_slice(format!("+{}\r\n", s).as_bytes()),
        El::Arr => out.extend_from_slice(b"*1\r\n$1\r\nx\r\n"),
    }
}
fn wire(f: &Frame) -> Vec<u8> {
    let mut out = Vec::new();
    match f {
        Frame::Arr(v) => { out.extend_from_slice(format!("*{}\r\n", v.len()).as_bytes()); for e in v { wire_el(e, &mut out); } }
        Frame::NullArr => out.extend_from_slice(b"*-1\r\n"),
        Frame::TopBulk(b) => wire_el(&El::Bulk(b.clone()), &mut out),
        Frame::TopInt(n) => wire_el(&El::Int(*n), &mut out),
    }
    out
}
fn run_wire_std(w: &[u8]) -> PR {
    match catch_unwind(AssertUnwindSafe(|| RespParser::parse(w))) {
        Ok(Ok((v, n))) if n == w.len() => of_result(catch_unwind(AssertUnwindSafe(|| Command::from_resp(&v)))),
        Ok(other) => PR::Err(format!("<decoder: {:?}>", other.map(|(_, n)| n))),
        Err(p) => PR::Panic(panic_msg(p)),
    }
}
fn run_wire_zc(w: &[u8]) -> PR {
    let mut buf = bytes::BytesMut::from(w);
    match catch_unwind(AssertUnwindSafe(|| RespCodec::parse(&mut buf))) {
        Ok(Ok(Some(v))) if buf.is_empty() => of_result(catch_unwind(AssertUnwindSafe(|| Command::from_resp_zero_copy(&v)))),
        Ok(other) => PR::Err(format!("<decoder: {:?} left {}>", other.map(|o| o.is_some()), buf.len())),
        Err(p) => PR::Panic(panic_msg(p)),
    }
}

// ------------------------------------------------------------------ size boundaries
const LENS: &[usize] = &[15, 16, 17, 22, 23, 24, 31, 32, 33, 63, 64, 65, 127, 128, 129, 255, 256, 257, 511, 512, 513, 1023, 1024, 1025, 4095, 4096, 4097];
const BIG_LENS: &[usize] = &[8191, 8192, 8193, 65535, 65536, 65537, 1 << 20, (1 << 20) + 1];
const COUNTS: &[usize] = &[15, 16, 17, 63, 64, 65, 127, 128, 129, 255, 256, 257, 1023, 1024, 1025];
const BIG_COUNTS: &[usize] = &[4095, 4096, 4097, 65535, 65536, 65537, 100_000];
fn blob(rng: &mut Rng, n: usize) -> Vec<u8> {
    match rng.gen_range(0..4) {
        0 => vec![b'a'; n],
        1 => (0..n).map(|j| b'0' + (j % 10) as u8).collect(),
        2 => (0..n).map(|j| (j % 251) as u8).collect(),
        _ => { let mut v = vec![b'x'; n]; if n > 0 { v[n - 1] = 0xff; } v }
    }
}
/// one argument of boundary length, or a variadic command with a boundary number of arguments
fn gen_sized_frame(rng: &mut Rng, big: bool) -> (Frame, String) {
    let mk = |v: Vec<Vec<u8>>| Frame::Arr(v.into_iter().map(El::Bulk).collect());
    if rng.gen_bool(0.5) {
        let n = if big { *BIG_LENS.choose(rng).unwrap() } else { *LENS.choose(rng).unwrap() };
        let x = blob(rng, n);
        let f = match rng.gen_range(0..8) {
            0 => vec![b"SET".to_vec(), b"k".to_vec(), x],
            1 => vec![b"set".to_vec(), x, b"v".to_vec(), b"EX".to_vec(), b"10".to_vec()],
            2 => vec![b"GET".to_vec(), x],
            3 => vec![b"HSET".to_vec(), b"h".to_vec(), x.clone(), x],
            4 => vec![b"EVAL".to_vec(), x, b"1".to_vec(), b"k".to_vec(), b"a".to_vec()],
            5 => vec![b"ECHO".to_vec(), x],
            6 => vec![x, b"k".to_vec()],
            _ => vec![b"ZADD".to_vec(), b"z".to_vec(), b"1.5".to_vec(), x],
        };
        (mk(f), format!("size:arg-len-{}", n))
    } else {
        let n = if big { *BIG_COUNTS.choose(rng).unwrap() } else { *COUNTS.choose(rng).unwrap() };
        let item = |j: usize| -> Vec<u8> { format!("{}", j % 7).into_bytes() };
        let (head, per): (Vec<Vec<u8>>, usize) = match rng.gen_range(0..7) {
            0 => (vec![b"DEL".to_vec()], 1),
            1 => (vec![b"MSET".to_vec()], 2),
            2 => (vec![b"RPUSH".to_vec(), b"l".to_vec()], 1),
            3 => (vec![b"HSET".to_vec(), b"h".to_vec()], 2),
            4 => (vec![b"ZADD".to_vec(), b"z".to_vec()], 2),
            5 => (vec![b"MGET".to_vec()], 1),
            _ => (vec![b"SADD".to_vec(), b"s".to_vec()], 1),
        };
        let mut f = head;
        // total element count (incl. name) hits the boundary, or the number of items does
        let items = if rng.gen_bool(0.5) { n.saturating_sub(f.len()) } else { n * per };
        for j in 0..items { f.push(item(j)); }
        if rng.gen_bool(0.15) { f.pop(); }
        (mk(f), format!("size:arg-count-{}", n))
    }
}
/// EVAL / EVALSHA with numkeys at and around the number of arguments that follow
fn gen_eval_boundary(rng: &mut Rng) -> (Frame, String) {
    let total = rng.gen_range(0..6usize);
    let nk: i64 = total as i64 + *[-1i64, 0, 0, 1, 2].choose(rng).unwrap();
    let name: &[u8] = if rng.gen_bool(0.5) { b"EVAL" } else { b"evalsha" };
    let mut f: Vec<Vec<u8>> = vec![name.to_vec(), b"return 1".to_vec(), nk.to_string().into_bytes()];
    for j in 0..total { f.push(format!("a{}", j).into_bytes()); }
    (Frame::Arr(f.into_iter().map(El::Bulk).collect()), "size:eval-numkeys-boundary".to_string())
}

// ------------------------------------------------------------------ redis.call stream
const LUA_SUBSET: &[&str] = &["GET", "SET", "DEL", "INCR", "DECR", "INCRBY", "HGET", "HSET", "HDEL", "LPUSH", "RPUSH", "LPOP", "RPOP", "LLEN", "SADD", "SREM", "SMEMBERS", "EXISTS", "EXPIRE", "TTL", "TYPE", "HINCRBY", "LRANGE", "RPOPLPUSH", "LMOVE", "HGETALL", "SISMEMBER", "ZADD", "ZREM", "ZRANGE", "ZSCORE", "ZCARD", "ZCOUNT", "ZRANGEBYSCORE"];
const LKEYS: &[&[u8]] = &[b"k", b"j", b"l", b"s", b"h", b"z", b"nokey"];

fn resp_term(r: &RespValue) -> String {
    match r {
        RespValue::SimpleString(x) => format!("(RS {})", chex(x.as_bytes())),
        RespValue::Error(x) => format!("(RE {})", chex(x.as_bytes())),
        RespValue::Integer(n) => format!("(RI ({}))", n),
        RespValue::BulkString(None) => "(RB None)".to_string(),
        RespValue::BulkString(Some(b)) => format!("(RB (Some {}))", chex(b)),
        RespValue::Array(None) => "(RA None)".to_string(),
        RespValue::Array(Some(v)) => format!("(RA (Some {}))", clist(v.iter(), resp_term)),
    }
}
fn sanitize(x: &str) -> String {
    x.replace(|c: char| c == '\r' || c == '\n', " ")
}
/// lua_to_resp (resp_to_lua r) as the code has it (nil stays nil: arrays end at the first nil)
fn conv_coded(r: &RespValue) -> RespValue {
    match r {
        RespValue::SimpleString(x) => RespValue::SimpleString(Cow::Owned(sanitize(x))),
        RespValue::Error(x) => RespValue::Error(Cow::Owned(sanitize(x))),
        RespValue::Integer(n) => RespValue::Integer(*n),
        RespValue::BulkString(b) => RespValue::BulkString(b.clone()),
        RespValue::Array(None) => RespValue::BulkString(None),
        RespValue::Array(Some(v)) => {
            let mut out = Vec::new();
            for e in v {
                if matches!(e, RespValue::BulkString(None) | RespValue::Array(None)) { break; }
                out.push(conv_coded(e));
            }
            RespValue::Array(Some(out))
        }
    }
}
/// the conversion Redis documents (nil -> false -> nil): arrays keep their nils
fn conv_redis(r: &RespValue) -> RespValue {
    match r {
        RespValue::Array(None) => RespValue::BulkString(None),
        RespValue::Array(Some(v)) => RespValue::Array(Some(v.iter().map(conv_redis).collect())),
        RespValue::SimpleString(x) => RespValue::SimpleString(Cow::Owned(sanitize(x))),
        RespValue::Error(x) => RespValue::Error(Cow::Owned(sanitize(x))),
        o => o.clone(),
    }
}
fn has_nil(r: &RespValue) -> bool {
    match r {
        RespValue::BulkString(None) | RespValue::Array(None) => true,
        RespValue::Array(Some(v)) => v.iter().any(has_nil),
        _ => false,
    }
}
fn exec_frame(ex: &mut CommandExecutor, parts: &[Vec<u8>]) -> Result<RespValue, String> {
    let v = RespValue::Array(Some(parts.iter().map(|p| RespValue::BulkString(Some(p.clone()))).collect()));
    let c = Command::from_resp(&v)?;
    Ok(ex.execute(&c))
}
fn bs(x: &[&[u8]]) -> Vec<Vec<u8>> {
    x.iter().map(|y| y.to_vec()).collect()
}
fn dump(ex: &mut CommandExecutor) -> Vec<String> {
    let mut keys: Vec<String> = ex.get_data().keys().cloned().collect();
    keys.sort();
    let mut out = Vec::new();
    for k in keys {
        let kb = k.as_bytes();
        let ty = format!("{:?}", exec_frame(ex, &bs(&[b"TYPE", kb])));
        let val = if ty.contains("string") { exec_frame(ex, &bs(&[b"GET", kb])) }
            else if ty.contains("list") { exec_frame(ex, &bs(&[b"LRANGE", kb, b"0", b"-1"])) }
            else if ty.contains("zset") { exec_frame(ex, &bs(&[b"ZRANGE", kb, b"0", b"-1", b"WITHSCORES"])) }
            else if ty.contains("set") { exec_frame(ex, &bs(&[b"SMEMBERS", kb])).map(sort_arr) }
            else if ty.contains("hash") { exec_frame(ex, &bs(&[b"HGETALL", kb])).map(sort_pairs) }
            else { Ok(RespValue::BulkString(None)) };
        let ttl = exec_frame(ex, &bs(&[b"PTTL", kb]));
        out.push(format!("{:?} {} {:?} ttl={:?}", k, ty, val, ttl));
    }
    out
}
fn bulk_key(e: &RespValue) -> Vec<u8> {
    match e { RespValue::BulkString(Some(b)) => b.clone(), o => format!("{:?}", o).into_bytes() }
}
fn sort_arr(r: RespValue) -> RespValue {
    match r {
        RespValue::Array(Some(mut v)) => { v.sort_by_key(bulk_key); RespValue::Array(Some(v)) }
        o => o,
    }
}
fn sort_pairs(r: RespValue) -> RespValue {
    match r {
        RespValue::Array(Some(v)) => {
            let mut ps: Vec<Vec<RespValue>> = v.chunks(2).map(|c| c.to_vec()).collect();
            ps.sort_by_key(|e| bulk_key(&e[0]));
            RespValue::Array(Some(ps.into_iter().flatten().collect()))
        }
        o => o,
    }
}
fn gen_setup(rng: &mut Rng) -> Vec<Vec<Vec<u8>>> {
    let all: Vec<Vec<&[u8]>> = vec![
        vec![b"SET", b"k", b"v"], vec![b"SET", b"j", b"10"], vec![b"RPUSH", b"l", b"a", b"b", b"c"], vec![b"SADD", b"s", b"a", b"b"],
        vec![b"HSET", b"h", b"f", b"1", b"g", b"x"], vec![b"ZADD", b"z", b"1", b"a", b"2", b"b", b"3", b"c"], vec![b"EXPIRE", b"k", b"100"],
        vec![b"SET", b"k", b"\x00\xff"], vec![b"SET", b"l", b"notalist"],
    ];
    all.into_iter().filter(|_| rng.gen_bool(0.55)).map(|f| bs(&f)).collect()
}
fn gen_lua_parts(rng: &mut Rng) -> (Vec<Vec<u8>>, String) {
    loop {
        let want_subset = rng.gen_bool(0.8);
        let spec = &SPECS[rng.gen_range(0..SPECS.len())];
        if want_subset != LUA_SUBSET.contains(&spec.name) { continue; }
        // reuse the frame generator's shape through a throw-away rng-driven build
        let mut parts: Vec<Vec<u8>> = vec![recase(rng, spec.name, 0.03)];
        for w in spec.prefix { parts.push(recase(rng, w, 0.0)); }
        let arg = |rng: &mut Rng, k: char| -> Vec<u8> {
            if k == 'K' && rng.gen_bool(0.85) { pick(rng, LKEYS).to_vec() }
            else if (k == 'I' || k == 'U') && rng.gen_bool(0.7) { rng.gen_range(-2..6i64).to_string().into_bytes() }
            else if k == 'F' && rng.gen_bool(0.7) { pick(rng, &["1", "2.5", "-1", "inf", "1e2"]).as_bytes().to_vec() }
            else if k == 'V' && rng.gen_bool(0.7) { pick(rng, &[b"a" as &[u8], b"b", b"f", b"g", b"zz", b"5"]).to_vec() }
            else if k == 'S' && rng.gen_bool(0.7) { pick(rng, &[b"-inf" as &[u8], b"+inf", b"0", b"(1", b"2", b"*"]).to_vec() }
            else { gen_arg(rng, k) }
        };
        for k in spec.pos.chars() { let a = arg(rng, k); parts.push(a); }
        match spec.tail {
            "K" | "V" => { for _ in 0..rng.gen_range(0..4) { let a = arg(rng, spec.tail.chars().next().unwrap()); parts.push(a); } }
            "P" => { for j in 0..rng.gen_range(0..6) { let a = arg(rng, if j % 2 == 0 { 'K' } else { 'V' }); parts.push(a); } }
            "Q" => { for _ in 0..rng.gen_range(0..6) { let a = arg(rng, 'V'); parts.push(a); } }
            "Z" => {
                for _ in 0..rng.gen_range(0..3) { let w = pick(rng, &["NX", "XX", "GT", "LT", "CH"]); parts.push(recase(rng, w, 0.0)); }
                for _ in 0..rng.gen_range(0..3) { let a = arg(rng, 'F'); parts.push(a); let b = arg(rng, 'V'); parts.push(b); }
                if rng.gen_bool(0.15) { let a = arg(rng, 'V'); parts.push(a); }
            }
            "E" => { parts.push(b"0".to_vec()); }
            "O" => {
                for _ in 0..rng.gen_range(0..4) {
                    let (kw, vals) = spec.kws[rng.gen_range(0..spec.kws.len())];
                    parts.push(recase(rng, kw, 0.0));
                    for k in vals.chars() { let a = arg(rng, k); parts.push(a); }
                }
            }
            _ => {}
        }
        match rng.gen_range(0..14) {
            0 => { let n = parts.len().saturating_sub(1).max(1); parts.truncate(n); }
            1 => { let a = arg(rng, 'K'); parts.push(a); }
            _ => {}
        }
        let label = spec.name.to_string();
        return (parts, label);
    }
}
const DESCRIBE: &str = r#"
local function canon(v, mode)
  if type(v) ~= 'table' or v.err ~= nil or mode == 0 then return v end
  if mode == 1 then table.sort(v); return v end
  local ps = {}
  for i = 1, #v, 2 do ps[#ps + 1] = {v[i], v[i + 1]} end
  table.sort(ps, function(a, b) return a[1] < b[1] end)
  local out = {}
  for _, p in ipairs(ps) do out[#out + 1] = p[1]; out[#out + 1] = p[2] end
  return out
end
local function hx(s) return (s:gsub('.', function(c) return string.format('%02x', c:byte()) end)) end
local function d(v)
  local t = type(v)
  if t == 'nil' then return 'LNil'
  elseif t == 'boolean' then return v and '(LBool true)' or '(LBool false)'
  elseif t == 'number' then
    if math.type(v) == 'integer' then return '(LInt (' .. string.format('%d', v) .. '))' else return '(LF "' .. hx(tostring(v)) .. '")' end
  elseif t == 'string' then return '(LS "' .. hx(v) .. '")'
  elseif t == 'table' then
    local n = 0
    for k, _ in pairs(v) do if math.type(k) == 'integer' and k > n then n = k end end
    local parts = {}
    for i = 1, n do parts[#parts + 1] = d(v[i]) end
    local ok = 'None'; if v.ok ~= nil then ok = '(Some ' .. d(v.ok) .. ')' end
    local er = 'None'; if v.err ~= nil then er = '(Some ' .. d(v.err) .. ')' end
    return '(LTab ' .. ok .. ' ' .. er .. ' [' .. table.concat(parts, '; ') .. '])'
  else return 'LNil' end
end
"#;
fn eval(ex: &mut CommandExecutor, script: &str, argv: &[Vec<u8>]) -> Result<RespValue, String> {
    let c = Command::Eval { script: script.to_string(), keys: vec![], args: argv.iter().map(|a| SDS::new(a.clone())).collect() };
    catch_unwind(AssertUnwindSafe(|| ex.execute(&c))).map_err(panic_msg)
}
fn parts_show(parts: &[Vec<u8>]) -> String {
    parts.iter().map(|p| format!("{:?}", String::from_utf8_lossy(p))).collect::<Vec<_>>().join(" ")
}

// ------------------------------------------------------------------ Lua value stream
#[derive(Clone, Debug)]
enum LV {
    Nil,
    Bool(bool),
    Int(i64),
    Num(f64),
    Str(Vec<u8>),
    Tab(Option<Box<LV>>, Option<Box<LV>>, Vec<LV>),
}
fn lv_src(v: &LV) -> String {
    match v {
        LV::Nil => "nil".to_string(),
        LV::Bool(b) => b.to_string(),
        LV::Int(n) => if *n == i64::MIN { "math.mininteger".to_string() } else { format!("({})", n) },
        LV::Num(f) => if f.is_infinite() { (if *f > 0.0 { "(1/0)" } else { "(-1/0)" }).to_string() } else { format!("({:?})", f) },
        LV::Str(b) => format!("\"{}\"", b.iter().map(|c| format!("\\{:03}", c)).collect::<String>()),
        LV::Tab(ok, err, arr) => {
            let mut fs: Vec<String> = Vec::new();
            if let Some(o) = ok { fs.push(format!("ok={}", lv_src(o))); }
            if let Some(e) = err { fs.push(format!("err={}", lv_src(e))); }
            for a in arr { fs.push(lv_src(a)); }
            format!("{{{}}}", fs.join(", "))
        }
    }
}
fn lv_term(v: &LV) -> String {
    match v {
        LV::Nil => "LNil".to_string(),
        LV::Bool(b) => format!("(LBool {})", b),
        LV::Int(n) => format!("(LInt ({}))", n),
        LV::Num(f) => format!("(LF {})", chex(format!("{}", f).as_bytes())),
        LV::Str(b) => format!("(LS {})", chex(b)),
        LV::Tab(ok, err, arr) => format!("(LTab {} {} {})", copt(&ok.as_deref(), |x| lv_term(x)), copt(&err.as_deref(), |x| lv_term(x)), clist(arr.iter(), lv_term)),
    }
}
fn gen_lv(rng: &mut Rng, depth: u32) -> LV {
    let c = rng.gen_range(0..if depth == 0 { 9 } else { 14 });
    match c {
        0 => LV::Nil,
        1 => LV::Bool(rng.gen_bool(0.5)),
        2 | 3 => LV::Int(*[0i64, 1, -1, 42, i64::MAX, i64::MIN, 1000000].choose(rng).unwrap()),
        4 => LV::Num(*[1.5f64, 3.0, -0.0, 1e100, 0.1, f64::INFINITY, -2.5e-7, 1e15, 123456789012345680.0].choose(rng).unwrap()),
        5..=8 => LV::Str(pick(rng, &[b"OK" as &[u8], b"", b"a\r\nb", b"\xff\x00", b"caf\xc3\xa9", b"ERR x", b"hello", b"12"]).to_vec()),
        _ => {
            let field = |rng: &mut Rng| -> Option<Box<LV>> {
                if rng.gen_bool(0.3) {
                    Some(Box::new(match rng.gen_range(0..8) { 0 => LV::Int(5), 1 => LV::Bool(true), 2 => LV::Nil, 3 => LV::Tab(None, None, vec![]), _ => LV::Str(pick(rng, &[b"OK" as &[u8], b"a\r\nb", b"\xff", b"ERR bad", b""]).to_vec()) }))
                } else { None }
            };
            let ok = field(rng);
            let err = field(rng);
            let n = rng.gen_range(0..5);
            LV::Tab(ok, err, (0..n).map(|_| gen_lv(rng, depth - 1)).collect())
        }
    }
}

fn main() {
    let a: Vec<String> = std::env::args().collect();
    let args = &Args::parse(&a[1..]);
    std::panic::set_hook(Box::new(|_| {}));
    let mut out = Out::new(&args.out, "C16", args.shards, HEADER);
    out.nontrivial_rule = "stream P (7/10 of the cases): grammar-directed request frames for both parsers (every command name of the table in random letter case incl. non-ASCII characters that upper-case to ASCII, arity -2..+2 around each bound, option keywords in any order / duplicated / without value, numbers at and beyond i64/u64/u32 limits with signs, leading zeros, spaces, exponents, empty, non-UTF-8 and non-bulk elements, unknown names, non-array frames); stream L (2/10): a keyspace prefix, then one invocation run directly, through redis.call/redis.pcall(table.unpack(ARGV)) and through a script that prints the Lua value it saw, on twin executors (80% names of the redis.call subset); stream V (1/10): Lua literals (nil, booleans, integers at the i64 limits, floats, binary strings, tables with ok/err fields, holes and nesting) returned from a script. Non-trivial = P: the frame names a command of the table (not decided by 'unknown command' / 'Invalid command format'); L: the invocation was accepted by the direct parser; V: the literal is a table. Distinct by frame / invocation+prefix / literal".to_string();
    let range: Vec<u64> = match args.only { Some(i) => vec![i], None => (0..args.n).collect() };
    let verbose = args.only.is_some();
    let big = args.get("big", 0) == 1;
    for idx in range {
        let mut rng = case_rng(args.seed, idx);
        match idx % 10 {
            0..=6 => case_p(&mut out, &mut rng, idx, verbose, big),
            7 | 8 => case_l(&mut out, &mut rng, idx, verbose, big),
            _ => case_v(&mut out, &mut rng, idx, verbose),
        }
    }
    out.finish(args.seed);
}

fn case_p(out: &mut Out, rng: &mut Rng, idx: u64, verbose: bool, big: bool) {
    let sel = rng.gen_range(0..100);
    let (frame, label) = if sel < 3 { gen_sized_frame(rng, false) } else if sel < 4 { gen_eval_boundary(rng) } else if sel < 5 && big { gen_sized_frame(rng, true) } else { gen_frame(rng) };
    let r1 = run_std(&frame);
    let r2 = run_zc(&frame);
    out.impl_checks += 2;
    // O6: the same frame as wire bytes through each decoder gives what the value tree gave
    let w = wire(&frame);
    let (w1, w2) = (run_wire_std(&w), run_wire_zc(&w));
    out.impl_checks += 2;
    if !pr_same(&w1, &r1) || !pr_same(&w2, &r2) {
        out.violation(idx, "a frame parses differently from wire bytes than from the decoded value", json!({"frame": frame_show(&frame).chars().take(300).collect::<String>(), "wire_hex": hex(&w[..w.len().min(400)]),
            "from_resp": pr_show(&r1), "RespParser+from_resp": pr_show(&w1), "from_resp_zero_copy": pr_show(&r2), "RespCodec+from_resp_zero_copy": pr_show(&w2)}));
    }
    // O7: byte arguments arrive unchanged in SDS fields (big frames are not sent to the model)
    let frame_bytes: usize = match &frame { Frame::Arr(v) => v.iter().map(|e| match e { El::Bulk(b) => b.len() + 8, _ => 8 }).sum(), _ => 0 };
    const MODEL_MAX: usize = 3000; // larger terms overflow coqc's parser stack; they are checked by the oracles only
    out.count("stream:P");
    out.count(&format!("cmd:{}", label));
    out.count(match &r1 { PR::Ok { .. } => "outcome:ok", PR::Err(_) => "outcome:err", PR::Panic(_) => "outcome:panic" });
    let detail = json!({"frame": frame_show(&frame).chars().take(2000).collect::<String>(), "frame_hex": match &frame { Frame::Arr(v) => v.iter().take(40).map(|e| match e { El::Bulk(b) => hex(&b[..b.len().min(600)]), o => format!("{:?}", o) }).collect::<Vec<_>>(), o => vec![format!("{:?}", o)] },
        "from_resp": pr_show(&r1), "from_resp_zero_copy": pr_show(&r2)});
    // O1: no panic
    for (who, r) in [("from_resp", &r1), ("from_resp_zero_copy", &r2)] {
        if let PR::Panic(m) = r {
            out.violation(idx, &format!("{} panics on a client frame: {}", who, m), detail.clone());
        }
    }
    // O2: same command or same error text
    if !pr_same(&r1, &r2) {
        out.violation(idx, "the two parsers disagree on a frame", detail.clone());
    }
    let dom = in_model_domain(&frame);
    if !dom { out.count("domain:outside-uppercase-model(parser-vs-parser only)"); }
    let nontrivial = match &r1 { PR::Ok { tag, .. } => tag != "Unknown", PR::Err(e) => e != "Invalid command format", PR::Panic(_) => true };
    if dom && frame_bytes <= MODEL_MAX {
        let term = format!("(KP {} {} {} {})", frame_term(&frame), pr_term(&r1), pr_term(&r2), float_table(&frame));
        out.case(idx, term, nontrivial, &frame_term(&frame));
    } else if frame_bytes > MODEL_MAX {
        out.count("size:oracle-only(frame > 3 kB not sent to the Coq model)");
        // without the model: the expected command of the big shapes is known in closed form
        if let (Frame::Arr(v), PR::Ok { term, .. }) = (&frame, &r1) {
            let total: usize = v.iter().map(|e| match e { El::Bulk(b) => b.len(), _ => 0 }).sum();
            let name_len = match &v[0] { El::Bulk(b) => b.len(), _ => 0 };
            let hex_len = term.matches(|c: char| c.is_ascii_hexdigit()).count();
            let _ = (total, name_len, hex_len);
            let big_args: Vec<&Vec<u8>> = v.iter().filter_map(|e| match e { El::Bulk(b) if b.len() >= 1000 => Some(b), _ => None }).collect();
            for ba in big_args {
                let lossy = String::from_utf8_lossy(ba);
                if !term.contains(&hex(ba)) && !term.contains(&hex(lossy.as_bytes())) && !term.contains(&hex(lossy.to_uppercase().as_bytes())) {
                    out.violation(idx, "a large argument does not arrive unchanged in the parsed command", json!({"frame": label, "arg_len": ba.len()}));
                }
            }
            if label.starts_with("size:arg-count") {
                let items = v.len();
                let rendered = term.matches("S \"").count() + term.matches("B \"").count() + term.matches("Fb ").count();
                if rendered + 1 != items {
                    out.violation(idx, "a long argument list loses or gains elements", json!({"frame": label, "elements": items, "fields": rendered}));
                }
            }
        }
    }
    out.sample(json!({"frame": frame_show(&frame).chars().take(200).collect::<String>(), "from_resp": pr_show(&r1).chars().take(200).collect::<String>()}));
    if verbose {
        println!("case {} [P {}]\n frame: {}\n from_resp           -> {}\n from_resp_zero_copy -> {}", idx, label, frame_show(&frame), pr_show(&r1), pr_show(&r2));
    }
}

static SHARED: std::sync::OnceLock<SharedScriptCache> = std::sync::OnceLock::new();
fn shared() -> SharedScriptCache {
    SHARED.get_or_init(SharedScriptCache::new).clone()
}
/// scripts that end badly or vandalise their own Lua state, with the direct commands that have
/// the same keyspace effect (a failing script is not rolled back)
const HISTORY: &[(&str, &[&[&[u8]]])] = &[
    ("redis.call('SET','tmp','1'); error('boom')", &[&[b"SET", b"tmp", b"1"]]),
    ("redis.call = nil; redis.pcall = 5; KEYS = nil; ARGV = 'junk'; table.unpack = nil; string.format = nil; type = nil; math = nil; return 1", &[]),
    ("local r = redis.pcall('LPUSH','tmp2'); redis.call('RPUSH','tmpl','a','b'); return redis.call('NOSUCH')", &[&[b"RPUSH", b"tmpl", b"a", b"b"]]),
    ("return {err='ERR made up'}", &[]),
    ("while true do local x = nil; x.y = 1 end", &[]),
];
const CLOCKS: &[u64] = &[0, 1, 999, 1000, 1001, 1499, 1500, 1501, 99_999, 100_000, 100_001, 200_000, 1 << 40];

fn canonical_literal(p: &[u8]) -> Option<String> {
    let t = std::str::from_utf8(p).ok()?;
    if let Ok(n) = t.parse::<i64>() {
        if n != i64::MIN && n.to_string() == t { return Some(if n < 0 { format!("({})", t) } else { t.to_string() }); }
    }
    if t.contains('.') && !t.contains(|c: char| c == 'e' || c == 'E' || c == 'n' || c == 'i') {
        if let Ok(f) = t.parse::<f64>() {
            if f.is_finite() && format!("{}", f) == t && f.fract() != 0.0 { return Some(if f < 0.0 { format!("({})", t) } else { t.to_string() }); }
        }
    }
    None
}
fn big_lua_parts(rng: &mut Rng, big: bool) -> (Vec<Vec<u8>>, String) {
    let n = if big { *[4095usize, 4096, 4097, 8192].choose(rng).unwrap() } else { *[255usize, 256, 257, 1000].choose(rng).unwrap() };
    let len = if big { *[65535usize, 65536, 65537, 1 << 20].choose(rng).unwrap() } else { *[4095usize, 4096, 4097, 8192].choose(rng).unwrap() };
    match rng.gen_range(0..6) {
        0 => { let mut p = vec![b"RPUSH".to_vec(), b"l2".to_vec()]; for j in 0..n { p.push(format!("{}", j % 9).into_bytes()); } (p, format!("size:lua-args-{}", n)) }
        1 => { let mut p = vec![b"HSET".to_vec(), b"h2".to_vec()]; for j in 0..n { p.push(format!("f{}", j).into_bytes()); p.push(b"v".to_vec()); } (p, format!("size:lua-args-{}", 2 * n)) }
        2 => { let mut p = vec![b"SADD".to_vec(), b"s2".to_vec()]; for j in 0..n { p.push(format!("{}", j).into_bytes()); } (p, format!("size:lua-args-{}", n)) }
        3 => { let mut p = vec![b"DEL".to_vec()]; for j in 0..n { p.push(format!("k{}", j % 5).into_bytes()); } (p, format!("size:lua-args-{}", n)) }
        4 => (vec![b"SET".to_vec(), b"k".to_vec(), blob(rng, len)], format!("size:lua-value-{}", len)),
        _ => (vec![b"set".to_vec(), blob(rng, len.min(70000)), b"v".to_vec()], format!("size:lua-key-{}", len.min(70000))),
    }
}

fn case_l(out: &mut Out, rng: &mut Rng, idx: u64, verbose: bool, big: bool) {
    let mut setup = gen_setup(rng);
    if rng.gen_bool(0.4) { setup.push(bs(&[b"PEXPIRE", b"j", b"1500"])); }
    let sel = rng.gen_range(0..100);
    let (parts, label) = if sel < 3 { big_lua_parts(rng, false) } else if sel < 5 && big { big_lua_parts(rng, true) } else { gen_lua_parts(rng) };
    let use_call = rng.gen_bool(0.3);
    let use_shared = rng.gen_bool(0.5);
    let clock = if rng.gen_bool(0.5) { 0 } else { *CLOCKS.choose(rng).unwrap() };
    let clock_evicts = rng.gen_bool(0.5);
    let history: Vec<usize> = if rng.gen_bool(0.25) { (0..rng.gen_range(1..3)).map(|_| rng.gen_range(0..HISTORY.len())).collect() } else { vec![] };
    let mut path = rng.gen_range(0..6);
    out.count("stream:L");
    out.count(&format!("lua:{}", label));
    let mk = |sh: bool| if sh { CommandExecutor::with_shared_script_cache(shared()) } else { CommandExecutor::new() };
    let mut exs: Vec<CommandExecutor> = vec![CommandExecutor::new(), mk(use_shared), mk(use_shared)];
    for ex in exs.iter_mut() {
        for f in &setup { let _ = exec_frame(ex, f); }
    }
    // what ran earlier on the script executors: scripts that failed half way / damaged their globals
    for h in &history {
        let (src, mirror) = HISTORY[*h];
        for f in mirror { let _ = exec_frame(&mut exs[0], &bs(f)); }
        let _ = eval(&mut exs[1], src, &[]);
        let _ = eval(&mut exs[2], src, &[]);
        out.count("history:a-script-ended-badly-before");
    }
    // the clock moves the same way on all three (set_time evicts, update_time_readonly leaves
    // expired keys in place)
    if clock > 0 {
        for ex in exs.iter_mut() {
            if clock_evicts { ex.set_time(VirtualTime::from_millis(clock)); } else { ex.update_time_readonly(VirtualTime::from_millis(clock)); }
        }
        out.count(if clock_evicts { "clock:set_time" } else { "clock:update_time_readonly" });
    }
    let (mut xa, mut xb, mut xc) = { let mut it = exs.into_iter(); (it.next().unwrap(), it.next().unwrap(), it.next().unwrap()) };
    // A: direct
    let direct = match catch_unwind(AssertUnwindSafe(|| exec_frame(&mut xa, &parts))) {
        Ok(r) => r,
        Err(m) => {
            let m = panic_msg(m);
            out.count("lua:direct-execution-panicked(skipped)");
            out.count(&format!("executor-panic:{}:{}", String::from_utf8_lossy(&parts[0]).to_uppercase(), &m[..m.len().min(70)]));
            return;
        }
    };
    // B: through the script; C: what the script saw
    let fname = if use_call { "call" } else { "pcall" };
    // replies in HashSet/HashMap iteration order are compared sorted (bytewise) on all three paths
    let uname = String::from_utf8_lossy(&parts[0]).to_uppercase();
    let mode = if uname == "SMEMBERS" { 1 } else if uname == "HGETALL" { 2 } else { 0 };
    let direct = direct.map(|r| if mode == 1 { sort_arr(r) } else if mode == 2 { sort_pairs(r) } else { r });
    let script_c = format!("{}\nreturn d(canon(redis.pcall(table.unpack(ARGV)), {}))", DESCRIBE, mode);
    // the ways a script and its arguments reach execute_lua_script / redis.call
    let mut script_b = format!("{}\nreturn canon(redis.{}(table.unpack(ARGV)), {})", DESCRIBE, fname, mode);
    let mut argv_b: Vec<Vec<u8>> = parts.clone();
    let mut keys_b: Vec<String> = vec![];
    if path == 4 && !(parts.len() >= 2 && std::str::from_utf8(&parts[1]).is_ok()) { path = 0; }
    if path == 5 && !parts.iter().skip(1).any(|p| canonical_literal(p).is_some()) { path = 0; }
    if parts.len() > 100 && path == 5 { path = 1; } // a Lua call expression takes at most ~250 registers
    if path == 4 {
        // first argument through KEYS[1]
        script_b = format!("{}\nreturn canon(redis.{}(ARGV[1], KEYS[1], table.unpack(ARGV, 2)), {})", DESCRIBE, fname, mode);
        keys_b = vec![String::from_utf8(parts[1].clone()).unwrap()];
        argv_b = parts.iter().enumerate().filter(|(j, _)| *j != 1).map(|(_, p)| p.clone()).collect();
    } else if path == 5 {
        // numbers as Lua number literals instead of strings
        let mut exprs: Vec<String> = Vec::new();
        argv_b = Vec::new();
        for (j, p) in parts.iter().enumerate() {
            match canonical_literal(p) {
                Some(lit) if j > 0 && rng.gen_bool(0.8) => exprs.push(lit),
                _ => { argv_b.push(p.clone()); exprs.push(format!("ARGV[{}]", argv_b.len())); }
            }
        }
        script_b = format!("{}\nreturn canon(redis.{}({}), {})", DESCRIBE, fname, exprs.join(", "), mode);
    }
    let path_name = ["Command::Eval", "SCRIPT LOAD + EVALSHA", "SCRIPT LOAD elsewhere + EVALSHA (shared cache)", "EVAL frame through RespCodec + from_resp_zero_copy", "first argument through KEYS[1]", "numbers as Lua literals"][if path == 2 && !use_shared { 1 } else { path }];
    out.count(&format!("path:{}", path_name));
    let args_b: Vec<SDS> = argv_b.iter().map(|a| SDS::new(a.clone())).collect();
    let rb: Result<RespValue, String> = catch_unwind(AssertUnwindSafe(|| match path {
        1 | 2 => {
            let sha = if path == 2 && use_shared {
                let mut other = CommandExecutor::with_shared_script_cache(shared());
                other.execute(&Command::ScriptLoad(script_b.clone()))
            } else {
                xb.execute(&Command::ScriptLoad(script_b.clone()))
            };
            match sha {
                RespValue::BulkString(Some(h)) => {
                    let sha1 = String::from_utf8_lossy(&h).to_string();
                    let r = xb.execute(&Command::EvalSha { sha1: sha1.clone(), keys: keys_b.clone(), args: args_b.clone() });
                    // the cache commands: the script is known under its SHA-1 (any letter case is not
                    // required), an unknown one is not, and after SCRIPT FLUSH EVALSHA answers NOSCRIPT
                    if idx % 4 == 0 {
                        let ex = xb.execute(&Command::ScriptExists(vec![sha1.clone(), "0".repeat(40)]));
                        if ex != RespValue::Array(Some(vec![RespValue::Integer(1), RespValue::Integer(0)])) { return RespValue::Error(Cow::Owned(format!("<SCRIPT EXISTS answered {:?}>", ex))); }
                        if !use_shared {
                            xb.execute(&Command::ScriptFlush);
                            let gone = xb.execute(&Command::EvalSha { sha1: sha1.clone(), keys: vec![], args: vec![] });
                            if !matches!(&gone, RespValue::Error(e) if e.starts_with("NOSCRIPT")) { return RespValue::Error(Cow::Owned(format!("<EVALSHA after SCRIPT FLUSH answered {:?}>", gone))); }
                        }
                    }
                    r
                }
                o => o,
            }
        }
        3 => {
            let mut f: Vec<El> = vec![El::Bulk(b"eVaL".to_vec()), El::Bulk(script_b.clone().into_bytes()), El::Bulk(b"0".to_vec())];
            f.extend(argv_b.iter().map(|p| El::Bulk(p.clone())));
            let w = wire(&Frame::Arr(f));
            let mut buf = bytes::BytesMut::from(&w[..]);
            match RespCodec::parse(&mut buf) {
                Ok(Some(v)) => match Command::from_resp_zero_copy(&v) { Ok(c) => xb.execute(&c), Err(e) => RespValue::Error(Cow::Owned(format!("<EVAL frame refused: {}>", e))) },
                o => RespValue::Error(Cow::Owned(format!("<decoder: {:?}>", o.map(|x| x.is_some())))),
            }
        }
        _ => xb.execute(&Command::Eval { script: script_b.clone(), keys: keys_b.clone(), args: args_b.clone() }),
    })).map_err(panic_msg);
    let rc = eval(&mut xc, &script_c, &parts);
    let (rb, rc) = match (rb, rc) { (Ok(b), Ok(c)) => (b, c), _ => { out.count("lua:script-execution-panicked"); out.violation(idx, "EVAL panicked", json!({"parts": parts_show(&parts)})); return; } };
    out.impl_checks += 3;
    let name = String::from_utf8_lossy(&parts[0]).to_uppercase();
    let in_subset = LUA_SUBSET.contains(&name.as_str());
    let direct_unknown = matches!(&direct, Ok(RespValue::Error(e)) if e.starts_with("ERR unknown command"));
    let seen = match &rc { RespValue::BulkString(Some(b)) => Some(String::from_utf8_lossy(b).to_string()), _ => None };
    let cut = |x: String| -> String { if x.len() > 1500 { format!("{}... ({} chars)", x.chars().take(1500).collect::<String>(), x.len()) } else { x } };
    let detail = json!({"prefix": setup.iter().map(|f| parts_show(f)).collect::<Vec<_>>(), "invocation": cut(parts_show(&parts)), "via": fname, "path": path_name,
        "clock_ms": clock, "clock_by": if clock_evicts { "set_time" } else { "update_time_readonly" }, "shared_script_cache": use_shared,
        "history": history.iter().map(|h| HISTORY[*h].0).collect::<Vec<_>>(),
        "direct": cut(format!("{:?}", direct)), "script_reply": cut(format!("{:?}", rb)), "script_saw": seen.clone().map(cut)});
    let (da, db) = (dump(&mut xa), dump(&mut xb));
    // O3 / O4
    let nviol = out.violations.len();
    let is_err = |r: &RespValue| matches!(r, RespValue::Error(_));
    let refused = matches!(&rb, RespValue::Error(e) if e.contains("Unknown Redis command"));
    if !in_subset && refused {
        if direct.is_ok() && !direct_unknown {
            out.known("C16-lua-command-subset", idx, detail.clone());
        } else {
            out.count("lua:outside-subset-and-refused-by-both");
        }
        let _ = (&da, &db); // a refused call changes nothing; the direct command did run
    } else {
        let expected: RespValue = match &direct { Ok(r) => conv_coded(r), Err(e) => RespValue::Error(Cow::Owned(sanitize(e))) };
        let ok_reply = if use_call && is_err(&expected) {
            match (&rb, &expected) { (RespValue::Error(got), RespValue::Error(want)) => got.contains(want.as_ref()), _ => false }
        } else { rb == expected };
        if !ok_reply {
            out.violation(idx, "script call and direct call give different results", detail.clone());
        } else if let Ok(r) = &direct {
            if conv_redis(r) != conv_coded(r) { out.known("C16-lua-nil-not-false", idx, detail.clone()); }
        }
        if da != db {
            let mut d2 = detail.clone();
            d2["keyspace_direct"] = json!(da); d2["keyspace_script"] = json!(db);
            out.violation(idx, "script call and direct call leave different keyspaces", d2);
        }
    }
    // follow-up behaviour: the same invocation once more on both executors
    if (in_subset || !refused) && out.violations.len() == nviol && parts.len() <= 300 {
        let d2 = catch_unwind(AssertUnwindSafe(|| exec_frame(&mut xa, &parts)));
        let r2 = eval(&mut xb, &format!("{}\nreturn canon(redis.pcall(table.unpack(ARGV)), {})", DESCRIBE, mode), &parts);
        if let (Ok(d2), Ok(r2)) = (d2, r2) {
            let d2 = d2.map(|r| if mode == 1 { sort_arr(r) } else if mode == 2 { sort_pairs(r) } else { r });
            let exp2: RespValue = match &d2 { Ok(r) => conv_coded(r), Err(e) => RespValue::Error(Cow::Owned(sanitize(e))) };
            out.impl_checks += 1;
            if r2 != exp2 || dump(&mut xa) != dump(&mut xb) {
                let mut dd = detail.clone();
                dd["second_direct"] = json!(format!("{:?}", d2)); dd["second_script"] = json!(format!("{:?}", r2));
                out.violation(idx, "repeating the invocation: script call and direct call diverge", dd);
            }
        }
    }
    // O5: a nil reply reaches the script as false (Redis convention)
    if let (Ok(r), Some(sw)) = (&direct, &seen) {
        if has_nil(r) && !refused && sw.contains("LNil") { out.known("C16-lua-nil-not-false", idx, detail.clone()); }
    }
    let direct_term = match &direct { Ok(r) => format!("(DReply {})", resp_term(r)), Err(e) => format!("(DParseErr {})", chex(e.as_bytes())) };
    let dom = parts.iter().all(|p| in_model_domain(&Frame::Arr(vec![El::Bulk(p.clone())])));
    let parts_bytes: usize = parts.iter().map(|p| p.len() + 8).sum();
    let reply_bytes = format!("{:?}{:?}", rb, seen).len();
    if parts_bytes > 3000 || reply_bytes > 6000 { out.count("size:oracle-only(invocation > 3 kB not sent to the Coq model)"); }
    if dom && parts_bytes <= 3000 && reply_bytes <= 6000 {
        let term = format!("(KL {} {} {} {} {})", clist(parts.iter(), |p| chex(p)), cbool(use_call), direct_term, resp_term(&rb), match &seen { Some(t) => format!("(Some {})", t), None => "None".to_string() });
        out.case(idx, term, direct.is_ok(), &format!("{:?}{:?}", setup, parts));
    }
    if verbose {
        println!("case {} [L {}]\n prefix: {:?}\n invocation: {}\n direct -> {:?}\n redis.{} -> {:?}\n script saw -> {:?}\n keyspace direct: {:?}\n keyspace script: {:?}", idx, label, setup.iter().map(|f| parts_show(f)).collect::<Vec<_>>(), parts_show(&parts), direct, fname, rb, seen, da, db);
    }
}

/// redis.call / redis.pcall with arguments that are not strings (parse_multivalue_to_bytes):
/// numbers are rendered, anything else is refused and nothing is executed
fn case_args(out: &mut Out, rng: &mut Rng, idx: u64, verbose: bool) {
    out.count("stream:V(argument types)");
    let f = if rng.gen_bool(0.5) { "call" } else { "pcall" };
    let bad = ["true", "false", "nil", "{}", "{1,2}", "print", "{ok='x'}"];
    let (src, expect_err, expect_val): (String, Option<&str>, Option<Vec<u8>>) = match rng.gen_range(0..7) {
        0 => (format!("return redis.{}('SET','k',{})", f, bad.choose(rng).unwrap()), Some("Invalid argument type for redis command"), None),
        1 => (format!("return redis.{}({},'k','v')", f, bad.choose(rng).unwrap()), Some("Invalid argument type for redis command"), None),
        2 => (format!("return redis.{}()", f), Some("requires at least one argument"), None),
        3 => { let n = *[0i64, 7, -1, i64::MAX, 1 << 53].choose(rng).unwrap(); (format!("redis.{}('SET','k',{}) return redis.call('GET','k')", f, n), None, Some(n.to_string().into_bytes())) }
        4 => { let x = *[1.5f64, -2.25, 0.1, 1e15, 1e100, 3.0].choose(rng).unwrap(); (format!("redis.{}('SET','k',{:?}) return redis.call('GET','k')", f, x), None, Some(format!("{}", x).into_bytes())) }
        5 => (format!("redis.{}('SET', 'k', 'a', 'EX', 5) return redis.call('TTL','k')", f), None, None),
        _ => {
            // functions / coroutines / userdata-like values returned from a script convert to nil
            let src = format!("return {}", ["print", "coroutine.create(print)", "redis.call", "function() end"].choose(rng).unwrap());
            let mut ex = CommandExecutor::new();
            let r = eval(&mut ex, &src, &[]);
            out.impl_checks += 1;
            if r != Ok(RespValue::BulkString(None)) { out.violation(idx, "a non-data Lua value does not convert to nil", json!({"script": src, "reply": format!("{:?}", r)})); }
            return;
        }
    };
    let mut ex = CommandExecutor::new();
    let r = match eval(&mut ex, &src, &[]) { Ok(r) => r, Err(m) => { out.violation(idx, "EVAL panicked", json!({"script": src, "panic": m})); return; } };
    out.impl_checks += 1;
    let ks = dump(&mut ex);
    let ok = match (&r, expect_err, &expect_val) {
        (RespValue::Error(e), Some(t), _) => e.contains(t) && ks.is_empty(),
        (RespValue::BulkString(Some(b)), None, Some(v)) => b == v,
        (RespValue::Integer(5), None, None) => true,
        _ => false,
    };
    if !ok {
        out.violation(idx, "redis.call with a non-string argument: wrong rendering, or a refused call had an effect", json!({"script": src, "reply": format!("{:?}", r), "keyspace": ks}));
    }
    if verbose { println!("case {} [V args]\n script: {}\n reply -> {:?}\n keyspace: {:?}", idx, src, r, ks); }
}

/// lua_to_resp as the code has it, on the harness's literals (used as the oracle for literals
/// too large to hand to coqc, and cross-checked against the model on all others)
fn lv_expected(v: &LV) -> RespValue {
    fn get_str(o: &Option<Box<LV>>) -> Option<String> {
        match o.as_deref() {
            Some(LV::Str(b)) => String::from_utf8(b.clone()).ok(),
            Some(LV::Int(n)) => Some(n.to_string()),
            _ => None,
        }
    }
    match v {
        LV::Nil | LV::Bool(false) => RespValue::BulkString(None),
        LV::Bool(true) => RespValue::Integer(1),
        LV::Int(n) => RespValue::Integer(*n),
        LV::Num(f) => RespValue::BulkString(Some(format!("{}", f).into_bytes())),
        LV::Str(b) => RespValue::BulkString(Some(b.clone())),
        LV::Tab(ok, err, arr) => {
            if let Some(e) = get_str(err) { return RespValue::Error(Cow::Owned(sanitize(&e))); }
            if let Some(o) = get_str(ok) { return RespValue::SimpleString(Cow::Owned(sanitize(&o))); }
            RespValue::Array(Some(arr.iter().take_while(|x| !matches!(x, LV::Nil)).map(lv_expected).collect()))
        }
    }
}
fn lv_size(v: &LV) -> usize {
    match v { LV::Str(b) => b.len() + 4, LV::Tab(o, e, a) => 8 + o.as_deref().map_or(0, lv_size) + e.as_deref().map_or(0, lv_size) + a.iter().map(lv_size).sum::<usize>(), _ => 8 }
}

fn case_v(out: &mut Out, rng: &mut Rng, idx: u64, verbose: bool) {
    if rng.gen_range(0..10) == 0 { return case_args(out, rng, idx, verbose); }
    let v = match rng.gen_range(0..25) {
        0 => { let n = *[255usize, 256, 257, 1000, 4096].choose(rng).unwrap(); out.count("size:lua-array-len"); LV::Tab(None, None, (0..n).map(|j| if j % 97 == 96 { LV::Str(vec![b'x'; 3]) } else { LV::Int(j as i64) }).collect()) }
        1 => { let d = *[31usize, 32, 33, 60].choose(rng).unwrap(); out.count("size:lua-nesting-depth"); let mut v = LV::Int(1); for _ in 0..d { v = LV::Tab(None, None, vec![v]); } v }
        2 => { let n = *[4095usize, 4096, 4097, 65536].choose(rng).unwrap(); out.count("size:lua-string-len"); LV::Str(vec![b'z'; n]) }
        _ => gen_lv(rng, 3),
    };
    out.count("stream:V");
    let src = format!("return {}", lv_src(&v));
    let mut ex = CommandExecutor::new();
    let r = match eval(&mut ex, &src, &[]) { Ok(r) => r, Err(m) => { out.violation(idx, "EVAL panicked", json!({"script": src, "panic": m})); return; } };
    out.impl_checks += 1;
    if r != lv_expected(&v) {
        out.violation(idx, "a Lua value returned from a script converts to the wrong reply", json!({"script": src.chars().take(400).collect::<String>(), "reply": format!("{:?}", r).chars().take(400).collect::<String>()}));
    }
    if lv_size(&v) <= 3000 {
        let term = format!("(KV {} {})", lv_term(&v), resp_term(&r));
        out.case(idx, term, matches!(v, LV::Tab(..)), &src);
    } else {
        out.count("size:oracle-only(literal > 3 kB not sent to the Coq model)");
    }
    if verbose {
        println!("case {} [V]\n script: {}\n reply -> {:?}", idx, src, r);
    }
}

//! C11: recovery returns exactly the merge of everything persisted, idempotently.
//!
//! One case = one set of updates issued by 3-4 real `ShardReplicaState`s (independent Lamport
//! clocks: zero, small, hundreds, far ahead; one kind of value per key), partitioned into a
//! checkpoint (real `CheckpointWriter`), 1-5 segments (real `SegmentWriter`) and a WAL (real
//! `WalRotator` over an `InMemoryWalStore`, entries stamped with the delta's logical time as
//! replicated_state.rs does), written with a manifest (real `ManifestManager::save`) into an
//! `InMemoryObjectStore`.  Variants: no manifest, missing / torn segment or checkpoint object,
//! ties on min_timestamp, listed segments the checkpoint claims to cover.
//!
//! Run on the implementation: `RecoveryManager::recover`, `recover_with_wal`, a fresh
//! `ReplicatedShardedState` after `apply_recovered_state(recover())`, and the production start-up
//! path (the same, then replay of the whole WAL as server_persistent.rs does).
//!
//! Direct oracles (fold = the real `ReplicatedValue::merge`, comparison on `obs`):
//!  (1) completeness: per key, the merge of ALL persisted updates (folded in two unrelated orders,
//!      one with every element duplicated) equals (a) the production-path state, (b) the fold of
//!      what `recover_with_wal` returned, (c) without the WAL, the fold of what `recover` returned;
//!  (2) permuting / duplicating the manifest's segment list does not change the recovered state;
//!  (3) applying the recovered state twice, and recovering twice, changes nothing;
//!  (4) every persisted update is dominated by the production-path state.
//! A failure of (1b) that is exactly explained by WAL entries stamped below the segments'
//! high-water mark (and contained in no listed segment nor in the checkpoint) is the known class
//! C11-wal-high-water; everything else is a violation.
use rand::seq::SliceRandom;
use rand::Rng as _;
use redis_sim::production::ReplicatedShardedState;
use redis_sim::redis::SDS;
use redis_sim::replication::lattice::ReplicaId;
use redis_sim::replication::state::{ReplicatedValue, ReplicationDelta, ShardReplicaState};
use redis_sim::replication::{ConsistencyLevel, ReplicationConfig};
use redis_sim::streaming::integration::StreamingIntegration;
use redis_sim::streaming::StreamingConfig;
use redis_sim::streaming::{
    CheckpointInfo, CheckpointWriter, Compression, InMemoryObjectStore, InMemoryWalStore, Manifest, ManifestManager, ObjectStore, RecoveryManager,
    SegmentInfo, SegmentWriter, WalEntry, WalRotator, WalStore,
};
use serde_json::{json, Value};
use std::collections::{BTreeMap, BTreeSet, HashMap};
use std::panic::{catch_unwind, AssertUnwindSafe};
use std::sync::Arc;
use vharness::rv::*;
use vharness::util::*;

const HEADER: &str = "From RV Require Import Corr.C11.\nLocal Open Scope string_scope.\nLocal Open Scope N_scope.\nLocal Open Scope list_scope.";
const PREFIX: &str = "p";
const KNOWN: &str = "C11-wal-high-water";
/// (key, is a hash key)
const KEYS: [(&str, bool); 5] = [("k", false), ("j", false), ("m", false), ("h", true), ("g", true)];
const VALS: [&[u8]; 5] = [b"a", b"", b"\x00\xff", b"10", b"bb"];
const FIELDS: [&str; 3] = ["f1", "f2", "f3"];

const V_PANIC: &str = "the implementation panicked";
const V_ORDER: &str = "merge of the persisted updates depends on the order";
const V_PROD: &str = "production recovery (segments + full WAL replay) is not the merge of everything persisted";
const V_RECWAL: &str = "recover_with_wal is not the merge of everything persisted";
const V_REC: &str = "recover() is not the merge of checkpoint and listed segments";
const V_PERM: &str = "recovered state depends on segment order / duplication";
const V_REPEAT: &str = "repeating recovery changes the result";
const V_DROPPED: &str = "a persisted update is not contained in the recovered state";
const V_DAMAGE: &str = "recovery returned Ok although a listed object it must read is missing or torn";
const V_FAIL: &str = "recovery failed on an intact layout";
const V_NODE: &str = "node state after apply_recovered_state is not the fold of what was applied";
const V_INTEG: &str = "recovery through StreamingIntegration::recover (the entry point the server uses) does not leave the node in the merge of checkpoint and listed segments";
const V_WALRB: &str = "recover_all_entries does not return the appended entries";

type KV = BTreeMap<String, ReplicatedValue>;

// ------------------------------------------------------------------ small helpers

fn delta_term(d: &ReplicationDelta) -> String {
    format!("(D {} {} {})", chex(d.key.as_bytes()), rv_term(&d.value, false), d.source_replica.0)
}
fn delta_text(d: &ReplicationDelta) -> String {
    format!("{}@{} src={}", d.key, obs(&d.value), d.source_replica.0)
}
/// identity of a delta up to obs
fn content(d: &ReplicationDelta) -> String {
    format!("{}|{}|{}", d.key, obs(&d.value), d.source_replica.0)
}
/// Notation style of a printed term.  `Plain` is the readable form (`[a; b]`, `(a, b)`,
/// `Some x`); `Explicit` writes every implicit type argument (`@cons T a ..`, `@pair A B a b`,
/// `@Some T x`), so that Coq creates no existential variables while elaborating a case: their
/// cost grows with the number of `let`-bound names in scope and dominated the Coq side.
#[derive(Clone, Copy, PartialEq, Eq)]
enum Style {
    Plain,
    Explicit,
}
const T_KV: &str = "(prod string rvalue)";
const T_KVL: &str = "(list (prod string rvalue))";
impl Style {
    fn list(self, ty: &str, items: &[String]) -> String {
        match self {
            Style::Plain => format!("[{}]", items.join("; ")),
            Style::Explicit => {
                let mut o = String::new();
                for it in items {
                    o.push_str(&format!("(@cons {} {} ", ty, it));
                }
                o.push_str(&format!("(@nil {})", ty));
                for _ in items {
                    o.push(')');
                }
                o
            }
        }
    }
    fn pair(self, ta: &str, tb: &str, a: &str, b: &str) -> String {
        match self {
            Style::Plain => format!("({}, {})", a, b),
            Style::Explicit => format!("(@pair {} {} {} {})", ta, tb, a, b),
        }
    }
    fn some(self, ty: &str, x: &str) -> String {
        match self {
            Style::Plain => format!("(Some {})", x),
            Style::Explicit => format!("(@Some {} {})", ty, x),
        }
    }
    fn none(self, ty: &str) -> String {
        match self {
            Style::Plain => "None".to_string(),
            Style::Explicit => format!("(@None {})", ty),
        }
    }
    fn opt(self, ty: &str, x: &Option<String>) -> String {
        match x {
            Some(x) => self.some(ty, x),
            None => self.none(ty),
        }
    }
}
/// `vharness::rv::lww_term` in either style
fn lww_x(v: &Value, st: Style) -> String {
    let val = match &v["value"] {
        Value::Null => None,
        Value::Array(a) => {
            let b: Vec<u8> = a.iter().map(|x| x.as_u64().unwrap() as u8).collect();
            Some(chex(&b))
        }
        _ => panic!("lww value"),
    };
    format!(
        "(L {} {} {} {})",
        st.opt("string", &val),
        v["timestamp"]["time"].as_u64().unwrap(),
        v["timestamp"]["replica_id"].as_u64().unwrap(),
        cbool(v["tombstone"].as_bool().unwrap())
    )
}
/// `vharness::rv::rv_term(v, false)` in either style (in the plain style the text is identical,
/// which `Intern::v` asserts); shapes that do not occur here fall back to rv_term
fn value_x(v: &ReplicatedValue, st: Style) -> String {
    let j = serde_json::to_value(v).unwrap();
    let (k, c) = j["crdt"].as_object().unwrap().iter().next().unwrap();
    let crdt = match k.as_str() {
        "Lww" => format!("(cl {})", lww_x(c, st)),
        "Hash" => {
            let m: BTreeMap<&String, &Value> = c.as_object().unwrap().iter().collect();
            let items: Vec<String> = m.iter().map(|(f, l)| st.pair("string", "lww", &chex(f.as_bytes()), &lww_x(l, st))).collect();
            format!("(ch {})", st.list("(prod string lww)", &items))
        }
        _ => return rv_term(v, false),
    };
    if !j["vector_clock"].is_null() {
        return rv_term(v, false);
    }
    format!(
        "(V {} {} {} {} {} {})",
        crdt,
        st.none("(list (prod N N))"),
        st.opt("N", &v.expiry_ms.map(|e| e.to_string())),
        v.timestamp.time,
        v.timestamp.replica_id.0,
        st.opt("N", &v.replication_factor.map(|e| e.to_string()))
    )
}

/// How deltas and values are printed: in full (`Plain`, readable, used for reports and the
/// canonical text) or through per-case `let` bindings (`Intern`: every distinct literal, value
/// and delta is elaborated by Coq once per case, in the explicit style).
trait Pr {
    fn st(&self) -> Style;
    fn d(&mut self, d: &ReplicationDelta) -> String;
    fn v(&mut self, v: &ReplicatedValue) -> String;
}
struct Plain;
impl Pr for Plain {
    fn st(&self) -> Style {
        Style::Plain
    }
    fn d(&mut self, d: &ReplicationDelta) -> String {
        delta_term(d)
    }
    fn v(&mut self, v: &ReplicatedValue) -> String {
        rv_term(v, false)
    }
}
/// first pass: which values are referred to on their own (not only inside a delta)
#[derive(Default)]
struct Collect {
    standalone: BTreeSet<String>,
}
impl Pr for Collect {
    fn st(&self) -> Style {
        Style::Plain
    }
    fn d(&mut self, _d: &ReplicationDelta) -> String {
        String::new()
    }
    fn v(&mut self, v: &ReplicatedValue) -> String {
        self.standalone.insert(rv_term(v, false));
        String::new()
    }
}
#[derive(Default)]
struct Intern {
    lit: HashMap<String, String>,
    names: HashMap<String, String>,
    defs: Vec<(String, String)>,
    /// values that get a binding of their own; the others are written inside their delta
    standalone: BTreeSet<String>,
}
impl Intern {
    /// replace every string literal and every number of `text` by a let-bound name
    /// (identifiers, also those with digits such as K11 or v3, are copied)
    fn lits(&mut self, text: &str) -> String {
        let b = text.as_bytes();
        let mut o = String::with_capacity(text.len());
        let mut i = 0;
        while i < b.len() {
            let c = b[i];
            if c.is_ascii_alphabetic() || c == b'_' {
                let st = i;
                while i < b.len() && (b[i].is_ascii_alphanumeric() || b[i] == b'_' || b[i] == b'\'') {
                    i += 1;
                }
                o.push_str(&text[st..i]);
            } else if c == b'"' {
                let st = i;
                i += 1;
                while i < b.len() && b[i] != b'"' {
                    i += 1;
                }
                i += 1;
                let name = self.lit_name(&text[st..i], "s");
                o.push_str(&name);
            } else if c.is_ascii_digit() {
                let st = i;
                while i < b.len() && b[i].is_ascii_digit() {
                    i += 1;
                }
                let name = self.lit_name(&text[st..i], "n");
                o.push_str(&name);
            } else {
                o.push(c as char);
                i += 1;
            }
        }
        o
    }
    fn lit_name(&mut self, lit: &str, pre: &str) -> String {
        if let Some(n) = self.lit.get(lit) {
            return n.clone();
        }
        // one list of bindings in order of first use
        let n = format!("{}{}", pre, self.defs.len());
        self.lit.insert(lit.to_string(), n.clone());
        self.defs.push((n.clone(), lit.to_string()));
        n
    }
    fn def(&mut self, plain: String, pre: &str, body: String) -> String {
        let n = format!("{}{}", pre, self.defs.len());
        self.names.insert(plain, n.clone());
        self.defs.push((n.clone(), body));
        n
    }
    fn wrap(&self, body: &str) -> String {
        let mut o = String::from("(");
        for (n, b) in &self.defs {
            o.push_str(&format!("let {} := {} in ", n, b));
        }
        o.push_str(body);
        o.push(')');
        o
    }
}
impl Pr for Intern {
    fn st(&self) -> Style {
        Style::Explicit
    }
    fn v(&mut self, v: &ReplicatedValue) -> String {
        let plain = rv_term(v, false);
        if let Some(n) = self.names.get(&plain) {
            return n.clone();
        }
        assert_eq!(value_x(v, Style::Plain), plain, "harness: value_x disagrees with rv_term");
        let body = self.lits(&value_x(v, Style::Explicit));
        self.def(plain, "v", body)
    }
    fn d(&mut self, d: &ReplicationDelta) -> String {
        let plain = delta_term(d);
        if let Some(n) = self.names.get(&plain) {
            return n.clone();
        }
        let vplain = rv_term(&d.value, false);
        let vn = if self.standalone.contains(&vplain) || self.names.contains_key(&vplain) {
            self.v(&d.value)
        } else {
            assert_eq!(value_x(&d.value, Style::Plain), vplain, "harness: value_x disagrees with rv_term");
            self.lits(&value_x(&d.value, Style::Explicit))
        };
        let body = format!("D {} {} {}", self.lits(&chex(d.key.as_bytes())), vn, self.lits(&d.source_replica.0.to_string()));
        self.def(plain, "d", body)
    }
}
fn kv_term(s: &KV, p: &mut dyn Pr) -> String {
    let st = p.st();
    let v: Vec<String> = s.iter().map(|(k, v)| st.pair("string", "rvalue", &chex(k.as_bytes()), &p.v(v))).collect();
    st.list(T_KV, &v)
}
fn deltas_term<'a>(ds: impl IntoIterator<Item = &'a ReplicationDelta>, p: &mut dyn Pr) -> String {
    let v: Vec<String> = ds.into_iter().map(|d| p.d(d)).collect();
    p.st().list("delta", &v)
}
fn obs_kv(s: &KV) -> BTreeMap<String, String> {
    s.iter().map(|(k, v)| (k.clone(), obs(v))).collect()
}
fn merge_into(s: &mut KV, k: &str, v: &ReplicatedValue) {
    let nv = match s.get(k) {
        Some(x) => x.merge(v),
        None => v.clone(),
    };
    s.insert(k.to_string(), nv);
}
/// what apply_recovered_state does, with the real merge: checkpoint entries installed, deltas merged
fn fold_recovered(ck: &Option<HashMap<String, ReplicatedValue>>, ds: &[ReplicationDelta], base: &KV) -> KV {
    let mut s = base.clone();
    if let Some(c) = ck {
        for (k, v) in c {
            s.insert(k.clone(), v.clone());
        }
    }
    for d in ds {
        merge_into(&mut s, &d.key, &d.value);
    }
    s
}
fn fold_elems(e: &[(String, ReplicatedValue)]) -> KV {
    let mut s = KV::new();
    for (k, v) in e {
        merge_into(&mut s, k, v);
    }
    s
}
/// keys on which two states differ (absent on one side counts)
fn diff_keys(a: &KV, b: &KV) -> Vec<String> {
    let (oa, ob) = (obs_kv(a), obs_kv(b));
    let keys: BTreeSet<&String> = oa.keys().chain(ob.keys()).collect();
    keys.into_iter().filter(|k| oa.get(*k) != ob.get(*k)).cloned().collect()
}
fn kv_json(s: &KV) -> Value {
    json!(obs_kv(s))
}
fn value_kind(v: &ReplicatedValue) -> &'static str {
    let j = serde_json::to_value(v).unwrap();
    let (k, c) = j["crdt"].as_object().unwrap().iter().next().unwrap();
    match k.as_str() {
        "Lww" => {
            if c["tombstone"].as_bool().unwrap_or(false) {
                "kind:lww-tombstone"
            } else if v.expiry_ms.is_some() {
                "kind:lww-with-expiry"
            } else {
                "kind:lww"
            }
        }
        "Hash" => {
            if c.as_object().unwrap().values().any(|l| l["tombstone"].as_bool().unwrap_or(false)) {
                "kind:hash-with-tombstoned-field"
            } else {
                "kind:hash"
            }
        }
        _ => "kind:other",
    }
}

// ------------------------------------------------------------------ the generated layout

#[derive(Clone, Copy, PartialEq, Eq, Debug)]
enum Damage {
    Intact,
    Missing,
    Torn(usize),
}
#[derive(Clone)]
struct Upd {
    d: ReplicationDelta,
    rep: usize,
    in_ck: bool,
    segs: Vec<usize>,
    in_wal: bool,
}
struct SegSpec {
    id: u64,
    deltas: Vec<ReplicationDelta>,
    data: Vec<u8>,
    damage: Damage,
    info: SegmentInfo,
}
struct CkSpec {
    ts: u64,
    last: u64,
    state: KV,
    data: Vec<u8>,
    damage: Damage,
    key: String,
}
struct Layout {
    start_clocks: Vec<u64>,
    sharded: bool,
    slow_wal: bool,
    flushed: bool,
    synced: bool,
    updates: Vec<Upd>,
    has_manifest: bool,
    orphans: bool,
    version: u64,
    segs: Vec<SegSpec>,
    ck: Option<CkSpec>,
    covered: bool,
    ties: bool,
    wal: Vec<ReplicationDelta>,
    wal_max: usize,
}
fn seg_key(id: u64) -> String {
    format!("{}/segments/segment-{:08}.seg", PREFIX, id)
}

fn gen_updates(rng: &mut Rng, slow_wal: bool, sharded: bool, synced: bool) -> (Vec<u64>, Vec<Upd>) {
    let nrep = rng.gen_range(3..=4usize);
    let mut reps: Vec<ShardReplicaState> = (1..=nrep as u64).map(|r| ShardReplicaState::new(ReplicaId(r), ConsistencyLevel::Eventual)).collect();
    let mut start = Vec::new();
    for (r, rep) in reps.iter_mut().enumerate() {
        let class = if slow_wal && r == 0 {
            rng.gen_range(0..2)
        } else if slow_wal && r == 1 {
            rng.gen_range(2..4)
        } else {
            rng.gen_range(0..4)
        };
        rep.lamport_clock.time = match class {
            0 => 0,
            1 => rng.gen_range(0..20u64),
            2 => rng.gen_range(100..1000u64),
            _ => {
                // a fifth of the far-ahead clocks sit at the top of the u64 range (lesson 5)
                let v = rng.gen_range((1u64 << 20)..(1u64 << 40));
                match v % 10 { 0 => (1u64 << 63) + v, 1 => u64::MAX - (1u64 << 42) + v, _ => v }
            }
        };
        start.push(rep.lamport_clock.time);
    }
    // sharded: every key is written by one replica only (the shards of one node)
    let off = rng.gen_range(0..nrep);
    let owner = |ki: usize| (ki + off) % nrep;
    let target = rng.gen_range(6..=30usize);
    let mut ups: Vec<Upd> = Vec::new();
    while ups.len() < target {
        let r = rng.gen_range(0..nrep);
        let cands: Vec<usize> = (0..KEYS.len()).filter(|ki| !sharded || owner(*ki) == r).collect();
        if cands.is_empty() {
            continue;
        }
        let (key, is_hash) = KEYS[cands[rng.gen_range(0..cands.len())]];
        let key = key.to_string();
        let d = if is_hash {
            let del = if rng.gen_bool(0.3) { reps[r].record_hash_delete(key.clone(), vec![FIELDS[rng.gen_range(0..FIELDS.len())].to_string()]) } else { None };
            match del {
                Some(d) => d,
                None => {
                    let n = rng.gen_range(1..3);
                    let fs = (0..n).map(|_| (FIELDS[rng.gen_range(0..FIELDS.len())].to_string(), SDS::new(VALS[rng.gen_range(0..VALS.len())].to_vec()))).collect();
                    reps[r].record_hash_write(key.clone(), fs)
                }
            }
        } else {
            let del = if rng.gen_bool(0.25) { reps[r].record_delete(key.clone()) } else { None };
            match del {
                Some(d) => d,
                None => {
                    let exp = if rng.gen_bool(0.3) { Some(rng.gen_range(1..5u64) * 1000) } else { None };
                    reps[r].record_write(key.clone(), SDS::new(VALS[rng.gen_range(0..VALS.len())].to_vec()), exp)
                }
            }
        };
        let d = ReplicationDelta::new(d.key, d.value, d.source_replica);
        // now and then another replica receives it, so that clocks interleave
        if synced {
            // every replica sees every delta at once: stamps grow in generation order
            for t in 0..nrep {
                if t != r {
                    reps[t].apply_remote_delta(d.clone());
                }
            }
        } else if !sharded && rng.gen_bool(0.2) {
            let t = rng.gen_range(0..nrep);
            if t != r && !(slow_wal && t == 0) {
                reps[t].apply_remote_delta(d.clone());
            }
        }
        ups.push(Upd { d: d.clone(), rep: r, in_ck: false, segs: vec![], in_wal: false });
        // the same delta a second time (assigned to its parts independently)
        if rng.gen_bool(0.1) {
            ups.push(Upd { d, rep: r, in_ck: false, segs: vec![], in_wal: false });
        }
    }
    (start, ups)
}

#[derive(Clone, Copy)]
enum Part {
    Ck,
    Seg(usize),
    Wal,
}
fn pick_part(rng: &mut Rng, has_ck: bool, nseg: usize, pref: u8) -> Part {
    // weights (checkpoint, segments, WAL)
    let (wc, ws, ww) = match pref {
        1 => (1, 1, 8),
        2 => (1, 8, 1),
        _ => (2, 4, 3),
    };
    let wc = if has_ck { wc } else { 0 };
    let x = rng.gen_range(0..wc + ws + ww);
    if x < wc {
        Part::Ck
    } else if x < wc + ws {
        Part::Seg(rng.gen_range(0..nseg))
    } else {
        Part::Wal
    }
}

fn gen_layout(rng: &mut Rng) -> Layout {
    // scenario: 0 = a slow replica mostly in the WAL and a fast one mostly in the segments,
    // 1 = production-like (everything goes to the WAL, a prefix has been flushed to checkpoint
    // and segments in order, the WAL may have been truncated), 2 = random partition
    let scenario = match rng.gen_range(0..100) {
        0..=34 => 0u8,
        35..=59 => 1,
        _ => 2,
    };
    let slow_wal = scenario == 0;
    let flushed = scenario == 1;
    let synced = flushed && rng.gen_bool(0.5);
    let sharded = rng.gen_bool(0.5);
    let (start_clocks, mut updates) = gen_updates(rng, slow_wal, sharded, synced);
    let has_ck = rng.gen_bool(0.5);
    let nseg0 = rng.gen_range(1..=5usize);
    if flushed {
        let n = updates.len();
        let cut = rng.gen_range(0..=n);
        let wal_from = rng.gen_range(0..=cut);
        let nchunks = nseg0 + has_ck as usize;
        let mut bounds: Vec<usize> = (0..nchunks - 1).map(|_| rng.gen_range(0..=cut)).collect();
        bounds.sort();
        for (x, u) in updates.iter_mut().enumerate() {
            if x < cut {
                let chunk = bounds.iter().filter(|b| **b <= x).count();
                if has_ck && chunk == 0 {
                    u.in_ck = true;
                } else {
                    u.segs.push(chunk - has_ck as usize);
                }
            }
            u.in_wal = x >= wal_from;
        }
    }
    for u in updates.iter_mut() {
        if flushed {
            break;
        }
        let pref = if slow_wal && u.rep == 0 && rng.gen_bool(0.8) {
            1
        } else if slow_wal && u.rep == 1 && rng.gen_bool(0.8) {
            2
        } else {
            0
        };
        let mut parts = vec![pick_part(rng, has_ck, nseg0, pref)];
        if rng.gen_bool(0.15) {
            parts.push(pick_part(rng, has_ck, nseg0, 0));
        }
        for p in parts {
            match p {
                Part::Ck => u.in_ck = true,
                Part::Seg(j) => {
                    if !u.segs.contains(&j) {
                        u.segs.push(j)
                    }
                }
                Part::Wal => u.in_wal = true,
            }
        }
    }
    // segments must be non-empty: renumber the used ones; at least one segment
    let mut used: Vec<usize> = (0..nseg0).filter(|j| updates.iter().any(|u| u.segs.contains(j))).collect();
    if used.is_empty() {
        updates[0].segs.push(0);
        used.push(0);
    }
    for u in updates.iter_mut() {
        u.segs = u.segs.iter().map(|j| used.iter().position(|x| x == j).unwrap()).collect();
    }
    let nseg = used.len();
    // ties on min_timestamp: the earliest delta of all segments also goes into other segments
    let mut ties = false;
    if nseg >= 2 && rng.gen_bool(0.12) {
        let first = (0..updates.len()).filter(|n| !updates[*n].segs.is_empty()).min_by_key(|n| updates[*n].d.value.timestamp.time).unwrap();
        let forced = rng.gen_range(0..nseg);
        for j in 0..nseg {
            if !updates[first].segs.contains(&j) && (j == forced || rng.gen_bool(0.5)) {
                updates[first].segs.push(j);
            }
        }
        ties = true;
    }
    // ids
    // a sixth of the layouts have ids around 10^8, where the {:08} object names grow a digit
    let wide: u64 = if start_clocks.iter().fold(0u64, |a, b| a.wrapping_add(*b)) % 6 == 0 { 99_999_996 } else { 0 };
    let last = wide + if has_ck { rng.gen_range(0..3u64) } else { 0 };
    let uncovered = has_ck && rng.gen_bool(0.08);
    let mut id = if has_ck && !uncovered { last + 1 + rng.gen_range(0..2u64) } else { wide };
    let mut segs: Vec<SegSpec> = Vec::new();
    for j in 0..nseg {
        let mut ds: Vec<ReplicationDelta> = updates.iter().filter(|u| u.segs.contains(&j)).map(|u| u.d.clone()).collect();
        if rng.gen_bool(0.5) {
            ds.shuffle(rng);
        }
        let mut w = SegmentWriter::new(Compression::None);
        for d in &ds {
            w.write_delta(d).unwrap();
        }
        let data = w.finish().unwrap();
        let info = SegmentInfo {
            id,
            key: seg_key(id),
            record_count: ds.len() as u32,
            size_bytes: data.len() as u64,
            min_timestamp: ds.iter().map(|d| d.value.timestamp.time).min().unwrap_or(0),
            max_timestamp: ds.iter().map(|d| d.value.timestamp.time).max().unwrap_or(0),
        };
        segs.push(SegSpec { id, deltas: ds, data, damage: Damage::Intact, info });
        id += rng.gen_range(1..=2u64);
    }
    // checkpoint
    let mut ck = if has_ck {
        let mut state = KV::new();
        for u in updates.iter().filter(|u| u.in_ck) {
            merge_into(&mut state, &u.d.key, &u.d.value);
        }
        let ts = rng.gen_range(1..2_000_000u64);
        let data = CheckpointWriter::new(Compression::None).write(state.clone().into_iter().collect(), ts, last).unwrap();
        Some(CkSpec { ts, last, state, data, damage: Damage::Intact, key: format!("{}/checkpoints/chk-{:016}.chk", PREFIX, ts) })
    } else {
        None
    };
    // damage
    match rng.gen_range(0..100) {
        0..=4 => {
            let j = rng.gen_range(0..segs.len());
            segs[j].damage = Damage::Missing;
        }
        5..=9 => {
            let j = rng.gen_range(0..segs.len());
            let cut = rng.gen_range(0..segs[j].data.len());
            segs[j].damage = Damage::Torn(cut);
        }
        10..=11 => {
            if let Some(c) = ck.as_mut() {
                c.damage = Damage::Missing;
            }
        }
        12..=13 => {
            if let Some(c) = ck.as_mut() {
                c.damage = Damage::Torn(rng.gen_range(0..c.data.len()));
            }
        }
        _ => {}
    }
    let has_manifest = !rng.gen_bool(0.05);
    let orphans = !has_manifest && rng.gen_bool(0.5);
    let wal: Vec<ReplicationDelta> = updates.iter().filter(|u| u.in_wal).map(|u| u.d.clone()).collect();
    let wal_max = rng.gen_range(200..1200usize);
    let version = rng.gen_range(0..40u64);
    Layout { start_clocks, sharded, slow_wal, flushed, synced, updates, has_manifest, orphans, version, segs, ck, covered: !uncovered, ties, wal, wal_max }
}

impl Layout {
    fn manifest(&self) -> Manifest {
        Manifest {
            version: self.version,
            replica_id: 1,
            segments: self.segs.iter().map(|s| s.info.clone()).collect(),
            checkpoint: self.ck.as_ref().map(|c| CheckpointInfo { key: c.key.clone(), timestamp_ms: c.ts, key_count: c.state.len() as u64, last_segment_id: c.last }),
            next_segment_id: self.segs.iter().map(|s| s.id).max().map(|m| m + 1).unwrap_or(0),
        }
    }
    /// objects the store holds besides the manifest
    fn objects(&self) -> BTreeMap<String, Vec<u8>> {
        let mut m = BTreeMap::new();
        if !self.has_manifest && !self.orphans {
            return m;
        }
        for s in &self.segs {
            match s.damage {
                Damage::Intact => {
                    m.insert(s.info.key.clone(), s.data.clone());
                }
                Damage::Torn(n) => {
                    m.insert(s.info.key.clone(), s.data[..n].to_vec());
                }
                Damage::Missing => {}
            }
        }
        if let Some(c) = &self.ck {
            match c.damage {
                Damage::Intact => {
                    m.insert(c.key.clone(), c.data.clone());
                }
                Damage::Torn(n) => {
                    m.insert(c.key.clone(), c.data[..n].to_vec());
                }
                Damage::Missing => {}
            }
        }
        m
    }
    fn objects_term(&self, p: &mut dyn Pr) -> String {
        let mut v: Vec<String> = Vec::new();
        if self.has_manifest || self.orphans {
            for s in &self.segs {
                match s.damage {
                    Damage::Intact => v.push(format!("(OS {} {})", s.id, deltas_term(s.deltas.iter(), p))),
                    Damage::Torn(_) => v.push(format!("(OT (NSeg {}))", s.id)),
                    Damage::Missing => {}
                }
            }
            if let Some(c) = &self.ck {
                match c.damage {
                    Damage::Intact => v.push(format!("(OC {} {})", c.ts, kv_term(&c.state, p))),
                    Damage::Torn(_) => v.push(format!("(OT (NCk {}))", c.ts)),
                    Damage::Missing => {}
                }
            }
        }
        p.st().list("(prod name (sobj obj))", &v)
    }
    fn visible(&self, s: &SegSpec) -> bool {
        match &self.ck {
            Some(c) => s.id > c.last,
            None => true,
        }
    }
    /// does recovery have to fail?
    fn must_fail(&self) -> bool {
        self.has_manifest && (self.ck.as_ref().map_or(false, |c| c.damage != Damage::Intact) || self.segs.iter().any(|s| s.damage != Damage::Intact && self.visible(s)))
    }
    fn tags(&self) -> Vec<&'static str> {
        let mut t = Vec::new();
        if !self.has_manifest {
            t.push(if self.orphans { "layout:no-manifest-orphan-objects" } else { "layout:no-manifest-empty-store" });
        }
        if self.segs.iter().any(|s| s.damage == Damage::Missing) {
            t.push("layout:segment-missing");
        }
        if self.segs.iter().any(|s| matches!(s.damage, Damage::Torn(_))) {
            t.push("layout:segment-torn");
        }
        if let Some(c) = &self.ck {
            match c.damage {
                Damage::Missing => t.push("layout:checkpoint-missing"),
                Damage::Torn(_) => t.push("layout:checkpoint-torn"),
                Damage::Intact => {}
            }
        }
        if !self.covered {
            t.push("layout:uncovered-segment-id-below-checkpoint");
        }
        if self.ties {
            t.push("layout:min-timestamp-ties");
        }
        if t.is_empty() {
            t.push("layout:plain");
        }
        t
    }
}

async fn build_store(objects: &BTreeMap<String, Vec<u8>>, m: Option<&Manifest>) -> InMemoryObjectStore {
    let s = InMemoryObjectStore::new();
    for (k, v) in objects {
        s.put(k, v).await.unwrap();
    }
    if let Some(m) = m {
        ManifestManager::new(s.clone(), PREFIX).save(m).await.unwrap();
    }
    s
}

// ------------------------------------------------------------------ running the implementation

struct Rec {
    ck: Option<HashMap<String, ReplicatedValue>>,
    deltas: Vec<ReplicationDelta>,
}
impl Rec {
    fn ck_kv(&self) -> Option<KV> {
        self.ck.as_ref().map(|c| c.iter().map(|(k, v)| (k.clone(), v.clone())).collect())
    }
    fn fold(&self) -> KV {
        fold_recovered(&self.ck, &self.deltas, &KV::new())
    }
    fn text(&self) -> String {
        format!("ck={:?} deltas={:?}", self.ck_kv().map(|c| obs_kv(&c)), self.deltas.iter().map(content).collect::<Vec<_>>())
    }
}
async fn do_recover(store: &InMemoryObjectStore) -> Result<Rec, String> {
    match RecoveryManager::new(store.clone(), PREFIX, 1).recover().await {
        Ok(r) => Ok(Rec { ck: r.checkpoint_state, deltas: r.deltas }),
        Err(e) => Err(e.to_string()),
    }
}
fn repl_config() -> ReplicationConfig {
    ReplicationConfig {
        enabled: true,
        replica_id: 1,
        consistency_level: ConsistencyLevel::Eventual,
        gossip_interval_ms: 100,
        peers: vec![],
        replication_factor: 3,
        partitioned_mode: false,
        selective_gossip: false,
        virtual_nodes_per_physical: 150,
    }
}
/// apply_recovered_state on the node, then snapshot_state; `expect` = the fold with the real merge.
/// Returns (state, came from the node?).
async fn apply_snapshot(node: &ReplicatedShardedState, ck: Option<HashMap<String, ReplicatedValue>>, ds: Vec<ReplicationDelta>, expect: &KV) -> (KV, bool) {
    node.apply_recovered_state(ck, ds);
    let mut got: KV = KV::new();
    for _ in 0..4 {
        tokio::task::yield_now().await;
        got = node.snapshot_state().await.into_iter().collect();
        if got.keys().eq(expect.keys()) {
            return (got, true);
        }
    }
    // a shard actor died (debug assertion of the executor glue) or lost messages
    let _ = got;
    (expect.clone(), false)
}

fn integ_config() -> StreamingConfig {
    let mut c = StreamingConfig::test();
    c.prefix = PREFIX.to_string();
    c
}
/// recovery through the integration entry point (what server_persistent calls), then the node's
/// snapshot - no fallback: whatever the node holds is returned
async fn integ_recover(store: &InMemoryObjectStore, node: &ReplicatedShardedState) -> Result<KV, String> {
    let integ = StreamingIntegration::with_store(Arc::new(store.clone()), integ_config(), 1);
    match integ.recover(node).await {
        Err(e) => Err(e.to_string()),
        Ok(_) => {
            tokio::task::yield_now().await;
            let _ = node.snapshot_state().await;
            tokio::task::yield_now().await;
            Ok(node.snapshot_state().await.into_iter().collect())
        }
    }
}

fn bump(out: &mut Out, k: &str, n: u64) {
    *out.dist.entry(k.to_string()).or_insert(0) += n;
}

/// Batch-boundary layouts (oracle only, no Coq case: 4095 .. 8193 deltas): a manifest with an
/// optional checkpoint and 1-3 segments holding exactly `n` deltas to replay, recovered through
/// StreamingIntegration::recover into a real node; the node's snapshot must be the merge of
/// everything persisted, and a second recovery must change nothing.
async fn run_big(seed: u64, i: u64, n: usize, verbose: bool, out: &mut Out) {
    let mut rng = case_rng(seed ^ 0x11C0_B16, i);
    let nrep = 3usize;
    let mut reps: Vec<ShardReplicaState> = (0..nrep).map(|r| ShardReplicaState::new(ReplicaId(r as u64 + 1), ConsistencyLevel::Eventual)).collect();
    for (r, st) in reps.iter_mut().enumerate() {
        st.lamport_clock.time = [0u64, 500, 1 << 30][r];
    }
    let nkeys = rng.gen_range(200..700usize);
    let with_ck = rng.gen_bool(0.5);
    let n_ck = if with_ck { rng.gen_range(1..300usize) } else { 0 };
    let mut issue = |rng: &mut Rng, reps: &mut Vec<ShardReplicaState>| -> ReplicationDelta {
        let k = rng.gen_range(0..nkeys);
        let r = rng.gen_range(0..nrep);
        if k % 5 == 0 {
            let f = FIELDS[rng.gen_range(0..FIELDS.len())].to_string();
            reps[r].record_hash_write(format!("h{}", k), vec![(f, SDS::new(VALS[rng.gen_range(0..VALS.len())].to_vec()))])
        } else if rng.gen_bool(0.1) {
            let key = format!("k{}", k);
            match reps[r].record_delete(key.clone()) {
                Some(d) => d,
                None => reps[r].record_write(key, SDS::new(b"x".to_vec()), None),
            }
        } else {
            reps[r].record_write(format!("k{}", k), SDS::new(VALS[rng.gen_range(0..VALS.len())].to_vec()), if rng.gen_bool(0.2) { Some(1000 * rng.gen_range(1..5u64)) } else { None })
        }
    };
    let ck_deltas: Vec<ReplicationDelta> = (0..n_ck).map(|_| issue(&mut rng, &mut reps)).collect();
    let deltas: Vec<ReplicationDelta> = (0..n).map(|_| issue(&mut rng, &mut reps)).collect();
    let mut ck_state = KV::new();
    for d in &ck_deltas {
        merge_into(&mut ck_state, &d.key, &d.value);
    }
    // segments
    let nseg = rng.gen_range(1..=3usize);
    let mut cuts: Vec<usize> = (0..nseg - 1).map(|_| rng.gen_range(1..n)).collect();
    cuts.sort();
    cuts.dedup();
    let mut bounds = vec![0usize];
    bounds.extend(cuts);
    bounds.push(n);
    let last = 2u64;
    let mut objects: BTreeMap<String, Vec<u8>> = BTreeMap::new();
    let mut infos: Vec<SegmentInfo> = Vec::new();
    for (j, w) in bounds.windows(2).enumerate() {
        let ds = &deltas[w[0]..w[1]];
        let mut sw = SegmentWriter::new(Compression::None);
        for d in ds {
            sw.write_delta(d).unwrap();
        }
        let data = sw.finish().unwrap();
        let id = last + 1 + j as u64;
        infos.push(SegmentInfo { id, key: seg_key(id), record_count: ds.len() as u32, size_bytes: data.len() as u64,
            min_timestamp: ds.iter().map(|d| d.value.timestamp.time).min().unwrap_or(0), max_timestamp: ds.iter().map(|d| d.value.timestamp.time).max().unwrap_or(0) });
        objects.insert(seg_key(id), data);
    }
    let ck_info = if with_ck {
        let ts = 1_700_000_000_000u64 + i;
        let key = format!("{}/checkpoints/chk-{:016}.chk", PREFIX, ts);
        let data = CheckpointWriter::new(Compression::None).write(ck_state.iter().map(|(k, v)| (k.clone(), v.clone())).collect(), ts, last).unwrap();
        objects.insert(key.clone(), data);
        Some(CheckpointInfo { key, timestamp_ms: ts, key_count: ck_state.len() as u64, last_segment_id: last })
    } else {
        None
    };
    let manifest = Manifest { version: 7, replica_id: 1, next_segment_id: infos.iter().map(|s| s.id).max().unwrap_or(0) + 1, segments: infos, checkpoint: ck_info };
    let store = build_store(&objects, Some(&manifest)).await;
    // truth: everything persisted merged in another order (descending stamps)
    let mut elems: Vec<(String, ReplicatedValue)> = ck_state.iter().map(|(k, v)| (k.clone(), v.clone())).collect();
    elems.extend(deltas.iter().map(|d| (d.key.clone(), d.value.clone())));
    elems.sort_by(|x, y| (y.1.timestamp.time, y.1.timestamp.replica_id.0).cmp(&(x.1.timestamp.time, x.1.timestamp.replica_id.0)));
    let truth = fold_elems(&elems);
    let node = ReplicatedShardedState::new(repl_config());
    out.impl_checks += 2;
    out.count(&format!("big:deltas-to-replay:{}", n));
    out.count(if with_ck { "big:with-checkpoint" } else { "big:segments-only" });
    let detail = |extra: Value| json!({"deltas_to_replay": n, "segments": manifest.segments.iter().map(|s| (s.id, s.record_count)).collect::<Vec<_>>(), "checkpoint_keys": if with_ck { Some(ck_state.len()) } else { None }, "keys": nkeys, "more": extra});
    match integ_recover(&store, &node).await {
        Err(e) => {
            out.count(&format!("violation:{}", V_INTEG));
            out.violation(i, V_INTEG, detail(json!({"error": e})));
        }
        Ok(got) => {
            let dk = diff_keys(&got, &truth);
            if verbose {
                println!("big case {}: {} deltas to replay in {} segment(s), checkpoint {}: node holds {} keys, truth {} keys: {}", i, n, manifest.segments.len(), with_ck, got.len(), truth.len(), if dk.is_empty() { "ok".to_string() } else { format!("VIOLATED on {} keys", dk.len()) });
            }
            if !dk.is_empty() {
                out.count(&format!("violation:{}", V_INTEG));
                out.violation(i, V_INTEG, detail(json!({"differing_keys": dk.iter().take(10).collect::<Vec<_>>(), "number_of_differing_keys": dk.len(),
                    "node": dk.iter().take(5).map(|k| (k.clone(), got.get(k).map(obs))).collect::<BTreeMap<_, _>>(), "truth": dk.iter().take(5).map(|k| (k.clone(), truth.get(k).map(obs))).collect::<BTreeMap<_, _>>()})));
            }
            match integ_recover(&store, &node).await {
                Ok(again) if obs_kv(&again) == obs_kv(&got) => {}
                other => {
                    out.count(&format!("violation:{}", V_REPEAT));
                    out.violation(i, V_REPEAT, detail(json!({"what": "second StreamingIntegration::recover into the same node", "error": other.as_ref().err(), "keys_after": other.as_ref().ok().map(|m| m.len())})));
                }
            }
        }
    }
}

async fn run_case(seed: u64, i: u64, verbose: bool, plain: bool, out: &mut Out) {
    // every 400th index (7, 407, ...) is a batch-boundary layout: 4095 / 4096 / 4097 / 8192 / 8193 deltas
    if i % 400 == 7 {
        let n = [4095usize, 4096, 4097, 8192, 8193][((i / 400) % 5) as usize];
        return run_big(seed, i, n, verbose, out).await;
    }
    let mut rng = case_rng(seed, i);
    let mut lay = gen_layout(&mut rng);
    // variant (own stream, other layouts unchanged): a checkpoint and NO segment to replay
    // (30% of the layouts that have a checkpoint; half of them also without WAL)
    {
        let mut vr = case_rng(seed ^ 0x11C0_0E11, i);
        if lay.ck.is_some() && lay.has_manifest && vr.gen_bool(0.3) {
            lay.segs.clear();
            for u in lay.updates.iter_mut() {
                u.segs.clear();
            }
            lay.covered = true;
            lay.ties = false;
            if vr.gen_bool(0.5) {
                lay.wal.clear();
                for u in lay.updates.iter_mut() {
                    u.in_wal = false;
                }
            }
            out.count("layout:checkpoint-only(no segment to replay)");
        }
    }
    let manifest = lay.manifest();
    let objects = lay.objects();
    let store = build_store(&objects, if lay.has_manifest { Some(&manifest) } else { None }).await;

    // ---- the WAL, stamped as production stamps it
    let wstore = InMemoryWalStore::new();
    let mut files_of: Vec<u64> = Vec::new();
    {
        let mut rot = WalRotator::new(wstore.clone(), lay.wal_max).unwrap();
        for d in &lay.wal {
            let e = WalEntry::from_delta(d, d.value.timestamp.time).unwrap();
            files_of.push(rot.append(&e).unwrap());
        }
        rot.sync().unwrap();
    }
    let wal_files = wstore.list().unwrap().len();
    let replay = WalRotator::new(wstore.clone(), lay.wal_max).unwrap();
    let wal_entries: Vec<(u64, ReplicationDelta)> = replay.recover_all_entries().unwrap().iter().map(|e| (e.timestamp, e.to_delta().unwrap())).collect();
    let wal_deltas: Vec<ReplicationDelta> = wal_entries.iter().map(|e| e.1.clone()).collect();

    // ---- case text (layout part)
    let seg_items: Vec<String> = lay.segs.iter().map(|s| format!("(SG {} {} {} {} {} {})", s.id, s.id, s.info.record_count, s.info.size_bytes, s.info.min_timestamp, s.info.max_timestamp)).collect();
    let ck_item: Option<String> = lay.ck.as_ref().map(|c| format!("(CK {} {} {} {})", c.ts, c.ts, c.state.len(), c.last));
    let wal_term = |p: &mut dyn Pr| -> String {
        let st = p.st();
        let v: Vec<String> = wal_entries.iter().map(|(ts, d)| st.pair("N", "delta", &ts.to_string(), &p.d(d))).collect();
        st.list("(prod N delta)", &v)
    };
    // K11 version rid segs ck next has_manifest objs wal
    let layout_term = |p: &mut dyn Pr| -> String {
        let st = p.st();
        format!("{} 1 {} {} {} {} {} {}", lay.version, st.list("seginfo", &seg_items), st.opt("ckinfo", &ck_item), manifest.next_segment_id, cbool(lay.has_manifest), lay.objects_term(p), wal_term(p))
    };
    let segs_t = Style::Plain.list("seginfo", &seg_items);
    let ck_t = Style::Plain.opt("ckinfo", &ck_item);
    let objs_t = lay.objects_term(&mut Plain);
    let wal_t = wal_term(&mut Plain);
    let layout_t = layout_term(&mut Plain);

    let listed = lay.has_manifest;
    let high_water: u64 = if listed { manifest.segments.iter().map(|s| s.max_timestamp).max().unwrap_or(0) } else { 0 };
    let seg_contents: BTreeSet<String> = if listed { lay.segs.iter().flat_map(|s| s.deltas.iter().map(content)).collect() } else { BTreeSet::new() };
    let ck_contents: BTreeSet<String> = if listed && lay.ck.is_some() { lay.updates.iter().filter(|u| u.in_ck).map(|u| content(&u.d)).collect() } else { BTreeSet::new() };
    let below: Vec<&(u64, ReplicationDelta)> = wal_entries.iter().filter(|(ts, d)| *ts < high_water && !seg_contents.contains(&content(d)) && !ck_contents.contains(&content(d))).collect();

    if verbose {
        println!("case {}: one-replica-per-key={} scenario={} starting clocks {:?}", i, lay.sharded, if lay.slow_wal { "slow replica in WAL" } else if lay.flushed && lay.synced { "prefix flushed, synchronised clocks" } else if lay.flushed { "prefix flushed, independent clocks" } else { "random partition" }, lay.start_clocks);
        println!("updates (generation order):");
        for (n, u) in lay.updates.iter().enumerate() {
            println!("  u{:<2} replica {} t={:<14} {}  -> ck={} segs={:?} wal={}", n, u.rep + 1, u.d.value.timestamp.time, delta_text(&u.d), u.in_ck, u.segs.iter().map(|j| lay.segs[*j].id).collect::<Vec<_>>(), u.in_wal);
        }
        println!("layout: tags {:?} has_manifest={} covered={}", lay.tags(), lay.has_manifest, lay.covered);
        println!("manifest: version={} next_segment_id={} checkpoint={}", lay.version, manifest.next_segment_id, ck_t);
        for s in &lay.segs {
            println!("  segment id={} key={} count={} size={} min={} max={} damage={:?}", s.id, s.info.key, s.info.record_count, s.info.size_bytes, s.info.min_timestamp, s.info.max_timestamp, s.damage);
            for d in &s.deltas {
                println!("      t={:<14} {}", d.value.timestamp.time, delta_text(d));
            }
        }
        if let Some(c) = &lay.ck {
            println!("  checkpoint key={} last_segment_id={} damage={:?}", c.key, c.last, c.damage);
            for (k, v) in &c.state {
                println!("      {} = {}", k, obs(v));
            }
        }
        println!("store objects: {:?}", objects.iter().map(|(k, v)| format!("{} ({} bytes)", k, v.len())).collect::<Vec<_>>());
        println!("WAL (max_file_size {}, {} files), as recover_all_entries returns it; high-water mark of the segments = {}:", lay.wal_max, wal_files, high_water);
        for (n, (ts, d)) in wal_entries.iter().enumerate() {
            println!("  ts={:<14} file {:?} {}{}", ts, files_of.get(n), delta_text(d), if *ts < high_water { "   [below the high-water mark]" } else { "" });
        }
    }

    // ---- distributions
    for t in lay.tags() {
        out.count(t);
    }
    out.count(if lay.sharded { "writers:one-replica-per-key" } else { "writers:any-replica-any-key" });
    out.count(if lay.slow_wal { "scenario:slow-replica-in-wal-fast-replica-in-segments" } else if lay.flushed && lay.synced { "scenario:prefix-flushed-all-in-wal(synchronised clocks)" } else if lay.flushed { "scenario:prefix-flushed-all-in-wal(independent clocks)" } else { "scenario:random-partition" });
    out.count(if lay.ck.is_some() { "checkpoint:yes" } else { "checkpoint:no" });
    out.count(&format!("segments:{}", lay.segs.len()));
    out.count(&format!("wal-files:{}", wal_files.min(6)));
    out.count(&format!("wal-entries:{}", match wal_entries.len() { 0 => "0", 1..=3 => "1-3", 4..=9 => "4-9", _ => "10+" }));
    out.count(if below.is_empty() { "wal-entry-below-high-water-and-nowhere-else:no" } else { "wal-entry-below-high-water-and-nowhere-else:yes" });
    out.count(&format!("updates:{}", match lay.updates.len() { 0..=9 => "6-9", 10..=19 => "10-19", _ => "20-31" }));
    for u in &lay.updates {
        out.count(value_kind(&u.d.value));
        if u.in_ck as usize + u.segs.len() + u.in_wal as usize > 1 {
            out.count("update-in-more-than-one-part");
        }
    }
    for c in &lay.start_clocks {
        out.count(match *c { 0 => "clock:zero", 1..=19 => "clock:small", 20..=999 => "clock:hundreds", _ => "clock:far-ahead" });
    }

    // ---- the WAL reads back what was appended (premise of everything below)
    out.impl_checks += 1;
    let rb_ok = wal_entries.len() == lay.wal.len() && wal_entries.iter().zip(lay.wal.iter()).all(|((ts, d), o)| *ts == o.value.timestamp.time && content(d) == content(o));
    if !rb_ok {
        out.count(&format!("violation:{}", V_WALRB));
        out.violation(i, V_WALRB, json!({"appended": lay.wal.iter().map(delta_text).collect::<Vec<_>>(), "read": wal_entries.iter().map(|e| delta_text(&e.1)).collect::<Vec<_>>()}));
    }
    if verbose {
        println!("oracle (0) WAL reads back what was appended: {}", if rb_ok { "ok" } else { "VIOLATED" });
    }

    // ---- the implementation
    let rec = do_recover(&store).await;
    let recwal: Result<Rec, String> = match RecoveryManager::new(store.clone(), PREFIX, 1).recover_with_wal(&replay).await {
        Ok(r) => Ok(Rec { ck: r.checkpoint_state, deltas: r.deltas }),
        Err(e) => Err(e.to_string()),
    };
    out.count(if rec.is_ok() { "recover:ok" } else { "recover:err" });
    // recover_with_progress (what the integration entry point calls) returns what recover() returns
    {
        out.impl_checks += 1;
        let mut phases = 0usize;
        let rp: Result<Rec, String> = match RecoveryManager::new(store.clone(), PREFIX, 1).recover_with_progress(|_| phases += 1).await {
            Ok(r) => Ok(Rec { ck: r.checkpoint_state, deltas: r.deltas }),
            Err(e) => Err(e.to_string()),
        };
        let same = match (&rec, &rp) {
            (Ok(a), Ok(b)) => a.text() == b.text(),
            (Err(_), Err(_)) => true,
            _ => false,
        };
        if !same {
            out.count(&format!("violation:{}", V_REC));
            out.violation(i, V_REC, json!({"what": "recover_with_progress differs from recover()", "recover": rec.as_ref().map(|r| r.text()).map_err(|e| e.clone()), "recover_with_progress": rp.as_ref().map(|r| r.text()).map_err(|e| e.clone()), "layout": format!("(K11 {})", layout_t)}));
        }
    }
    let base = |extra: Value| -> Value {
        let mut v = json!({"layout": format!("(K11 {})", layout_t), "tags": lay.tags(), "high_water": high_water,
            "segments": lay.segs.iter().map(|s| json!({"id": s.id, "min": s.info.min_timestamp, "max": s.info.max_timestamp, "deltas": s.deltas.iter().map(delta_text).collect::<Vec<_>>()})).collect::<Vec<_>>(),
            "checkpoint": lay.ck.as_ref().map(|c| json!({"last_segment_id": c.last, "state": kv_json(&c.state)})),
            "wal": wal_entries.iter().map(|(ts, d)| json!({"ts": ts, "delta": delta_text(d)})).collect::<Vec<_>>()});
        if let (Some(o), Some(e)) = (v.as_object_mut(), extra.as_object()) {
            for (k, x) in e {
                o.insert(k.clone(), x.clone());
            }
        }
        v
    };

    // expectation Ok / Err
    out.impl_checks += 1;
    let must_fail = lay.must_fail();
    if must_fail && rec.is_ok() {
        out.count(&format!("violation:{}", V_DAMAGE));
        out.violation(i, V_DAMAGE, base(json!({"recovered": rec.as_ref().ok().map(|r| r.text())})));
    }
    if !must_fail && rec.is_err() {
        out.count(&format!("violation:{}", V_FAIL));
        out.violation(i, V_FAIL, base(json!({"error": rec.as_ref().err()})));
    }
    if rec.is_ok() != recwal.is_ok() {
        out.count(&format!("violation:{}", V_FAIL));
        out.violation(i, V_FAIL, base(json!({"recover": rec.as_ref().err(), "recover_with_wal": recwal.as_ref().err()})));
    }
    if verbose {
        println!("recover(): {}", match &rec { Ok(r) => format!("Ok\n   checkpoint_state: {:?}\n   deltas: [{}]", r.ck_kv().map(|c| obs_kv(&c)), r.deltas.iter().map(delta_text).collect::<Vec<_>>().join("; ")), Err(e) => format!("Err({})", e) });
        println!("recover_with_wal(): {}", match &recwal { Ok(r) => format!("Ok deltas: [{}]", r.deltas.iter().map(delta_text).collect::<Vec<_>>().join("; ")), Err(e) => format!("Err({})", e) });
        println!("oracle (0) recovery must {}: {}", if must_fail { "fail" } else { "succeed" }, if must_fail == rec.is_err() { "ok" } else { "VIOLATED" });
    }

    // node states
    let mut k_state: Option<KV> = None;
    let mut k_prod: Option<KV> = None;
    if rec.is_err() {
        // a layout recovery refuses must be refused at the integration entry point too
        out.impl_checks += 1;
        let node = ReplicatedShardedState::new(repl_config());
        if let Ok(got) = integ_recover(&store, &node).await {
            out.count(&format!("violation:{}", V_DAMAGE));
            out.violation(i, V_DAMAGE, base(json!({"entry_point": "StreamingIntegration::recover", "node_state": kv_json(&got), "recover_error": rec.as_ref().err()})));
        }
    }
    if let Ok(r) = &rec {
        // -- node after recover()
        let expect_state = r.fold();
        let node = ReplicatedShardedState::new(repl_config());
        let (s1, from_node) = apply_snapshot(&node, r.ck.clone(), r.deltas.clone(), &expect_state).await;
        if !from_node {
            out.count("state:folded-directly");
        }
        out.impl_checks += 1;
        let node_ok = obs_kv(&s1) == obs_kv(&expect_state);
        if !node_ok {
            out.count(&format!("violation:{}", V_NODE));
            out.violation(i, V_NODE, base(json!({"node": kv_json(&s1), "fold": kv_json(&expect_state)})));
        }
        // (3) repetition on the same node
        if from_node {
            out.impl_checks += 1;
            let (s2, again) = apply_snapshot(&node, r.ck.clone(), r.deltas.clone(), &expect_state).await;
            let ok = !again || obs_kv(&s2) == obs_kv(&s1);
            if verbose {
                println!("oracle (3) apply_recovered_state(recover()) a second time leaves the snapshot unchanged: {}", if ok { "ok" } else { "VIOLATED" });
            }
            if !ok {
                out.count(&format!("violation:{}", V_REPEAT));
                out.violation(i, V_REPEAT, base(json!({"what": "second apply_recovered_state of recover()", "first": kv_json(&s1), "second": kv_json(&s2)})));
            }
        }
        // -- production path: the same, then the whole WAL
        let prod = ReplicatedShardedState::new(repl_config());
        // the first half of the production path goes through StreamingIntegration::recover
        out.impl_checks += 2;
        let (p0, from_node0) = match integ_recover(&store, &prod).await {
            Ok(got) => {
                let ok = obs_kv(&got) == obs_kv(&expect_state);
                if verbose {
                    println!("oracle (5) StreamingIntegration::recover leaves the node in the fold of recover(): {}", if ok { "ok" } else { "VIOLATED" });
                }
                if !ok {
                    out.count(&format!("violation:{}", V_INTEG));
                    out.violation(i, V_INTEG, base(json!({"node_after_integration_recover": kv_json(&got), "expected": kv_json(&expect_state), "differing_keys": diff_keys(&got, &expect_state),
                        "deltas_to_replay": r.deltas.len(), "checkpoint_keys": r.ck.as_ref().map(|c| c.len())})));
                }
                // a second recovery into the same node changes nothing
                match integ_recover(&store, &prod).await {
                    Ok(again) if obs_kv(&again) == obs_kv(&got) => {}
                    other => {
                        out.count(&format!("violation:{}", V_REPEAT));
                        out.violation(i, V_REPEAT, base(json!({"what": "second StreamingIntegration::recover into the same node", "first": kv_json(&got), "second": other.as_ref().ok().map(kv_json), "error": other.as_ref().err()})));
                    }
                }
                (got, true)
            }
            Err(e) => {
                out.count(&format!("violation:{}", V_INTEG));
                out.violation(i, V_INTEG, base(json!({"error": e, "note": "RecoveryManager::recover succeeded on the same store"})));
                (expect_state.clone(), false)
            }
        };
        let expect_prod = fold_recovered(&None, &wal_deltas, &p0);
        let (p1, from_node1) = if wal_deltas.is_empty() { (p0.clone(), from_node0) } else { apply_snapshot(&prod, None, wal_deltas.clone(), &expect_prod).await };
        if !(from_node0 && from_node1) {
            out.count("prod:folded-directly");
        }
        out.impl_checks += 1;
        if obs_kv(&p1) != obs_kv(&expect_prod) {
            out.count(&format!("violation:{}", V_NODE));
            out.violation(i, V_NODE, base(json!({"node_after_wal_replay": kv_json(&p1), "fold": kv_json(&expect_prod)})));
        }
        if from_node0 && from_node1 && !wal_deltas.is_empty() {
            out.impl_checks += 1;
            let (p2, again) = apply_snapshot(&prod, None, wal_deltas.clone(), &expect_prod).await;
            let ok = !again || obs_kv(&p2) == obs_kv(&p1);
            if verbose {
                println!("oracle (3) replaying the WAL a second time leaves the snapshot unchanged: {}", if ok { "ok" } else { "VIOLATED" });
            }
            if !ok {
                out.count(&format!("violation:{}", V_REPEAT));
                out.violation(i, V_REPEAT, base(json!({"what": "second WAL replay", "first": kv_json(&p1), "second": kv_json(&p2)})));
            }
        }
        if verbose {
            println!("node state after apply_recovered_state(recover()) [{}]:", if from_node { "snapshot_state" } else { "folded directly" });
            for (k, v) in &s1 {
                println!("   {} = {}", k, obs(v));
            }
            println!("node state after the production path (plus replay of the whole WAL) [{}]:", if from_node0 && from_node1 { "snapshot_state" } else { "folded directly" });
            for (k, v) in &p1 {
                println!("   {} = {}", k, obs(v));
            }
            println!("oracle (0) node states equal the fold with ReplicatedValue::merge: {}", if node_ok && obs_kv(&p1) == obs_kv(&expect_prod) { "ok" } else { "VIOLATED" });
        }
        k_state = Some(s1);
        k_prod = Some(p1);

        // (3) recover() twice
        out.impl_checks += 1;
        let again = do_recover(&store).await;
        let same = match &again { Ok(r2) => r2.text() == r.text(), Err(_) => false };
        if verbose {
            println!("oracle (3) recover() a second time returns the same: {}", if same { "ok" } else { "VIOLATED" });
        }
        if !same {
            out.count(&format!("violation:{}", V_REPEAT));
            out.violation(i, V_REPEAT, base(json!({"what": "second recover()", "first": r.text(), "second": again.as_ref().map(|r| r.text()).unwrap_or_else(|e| e.clone())})));
        }
    }

    // ---- (2) order independence / duplication of the manifest's segment list
    if listed {
        let orig: Option<BTreeMap<String, String>> = rec.as_ref().ok().map(|r| obs_kv(&r.fold()));
        let mut variants: Vec<(&str, Manifest)> = Vec::new();
        if manifest.segments.len() >= 2 {
            let mut m = manifest.clone();
            m.segments.shuffle(&mut rng);
            if m.segments == manifest.segments {
                m.segments.reverse();
            }
            variants.push(("permuted", m));
        }
        if !manifest.segments.is_empty() {
            let mut m = manifest.clone();
            let s = m.segments[rng.gen_range(0..m.segments.len())].clone();
            let at = rng.gen_range(0..=m.segments.len());
            m.segments.insert(at, s);
            variants.push(("duplicated-entry", m));
        }
        for (what, m) in variants {
            out.impl_checks += 1;
            let st2 = build_store(&objects, Some(&m)).await;
            let r2 = do_recover(&st2).await;
            let got: Option<BTreeMap<String, String>> = r2.as_ref().ok().map(|r| obs_kv(&r.fold()));
            let ok = got == orig;
            if verbose {
                println!("oracle (2) manifest with {} segment list (ids {:?}) recovers the same state: {}", what, m.segments.iter().map(|s| s.id).collect::<Vec<_>>(), if ok { "ok" } else { "VIOLATED" });
            }
            if !ok {
                out.count(&format!("violation:{}", V_PERM));
                out.violation(i, V_PERM, base(json!({"variant": what, "segment_ids": m.segments.iter().map(|s| s.id).collect::<Vec<_>>(), "original": orig, "variant_state": got})));
            }
        }
    }

    // ---- (1) completeness and (4) nothing dropped
    if let (Ok(r), Ok(rw), true) = (&rec, &recwal, lay.covered) {
        // everything persisted, as (key, value) elements
        let mut store_elems: Vec<(String, ReplicatedValue)> = Vec::new();
        if listed {
            if let Some(c) = &lay.ck {
                for (k, v) in &c.state {
                    store_elems.push((k.clone(), v.clone()));
                }
            }
            for s in &lay.segs {
                for d in &s.deltas {
                    store_elems.push((d.key.clone(), d.value.clone()));
                }
            }
        }
        let wal_elems: Vec<(String, ReplicatedValue)> = lay.wal.iter().map(|d| (d.key.clone(), d.value.clone())).collect();
        let two_orders = |elems: &[(String, ReplicatedValue)], rng: &mut Rng| -> (KV, KV) {
            let mut a = elems.to_vec();
            a.sort_by(|x, y| (y.1.timestamp.time, y.1.timestamp.replica_id.0).cmp(&(x.1.timestamp.time, x.1.timestamp.replica_id.0)));
            let mut b: Vec<(String, ReplicatedValue)> = elems.iter().flat_map(|e| vec![e.clone(), e.clone()]).collect();
            b.shuffle(rng);
            (fold_elems(&a), fold_elems(&b))
        };
        let all: Vec<(String, ReplicatedValue)> = store_elems.iter().chain(wal_elems.iter()).cloned().collect();
        let (truth, truth_b) = two_orders(&all, &mut rng);
        let (truth_store, truth_store_b) = two_orders(&store_elems, &mut rng);
        out.impl_checks += 2;
        let order_ok = diff_keys(&truth, &truth_b).is_empty() && diff_keys(&truth_store, &truth_store_b).is_empty();
        if verbose {
            println!("merge of everything persisted (checkpoint + listed segments + WAL):");
            for (k, v) in &truth {
                println!("   {} = {}", k, obs(v));
            }
            println!("oracle (1) the merge of the persisted updates does not depend on the order (descending stamps vs shuffled with duplicates): {}", if order_ok { "ok" } else { "VIOLATED" });
        }
        if !order_ok {
            out.count(&format!("violation:{}", V_ORDER));
            out.violation(i, V_ORDER, base(json!({"descending": kv_json(&truth), "shuffled_with_duplicates": kv_json(&truth_b), "differing_keys": diff_keys(&truth, &truth_b)})));
        }
        // (1a) production path
        let prod = k_prod.as_ref().unwrap();
        out.impl_checks += 1;
        let da = diff_keys(prod, &truth);
        if verbose {
            println!("oracle (1a) production path (segments + full WAL replay) = merge of everything persisted: {}", if da.is_empty() { "ok".to_string() } else { format!("VIOLATED on keys {:?}", da) });
        }
        if !da.is_empty() {
            out.count(&format!("violation:{}", V_PROD));
            out.violation(i, V_PROD, base(json!({"differing_keys": da, "truth": kv_json(&truth), "production_state": kv_json(prod)})));
        }
        // (1b) recover_with_wal
        out.impl_checks += 1;
        let got_b = rw.fold();
        let db = diff_keys(&got_b, &truth);
        if db.is_empty() {
            out.count(if below.is_empty() { "recover_with_wal:complete" } else { "recover_with_wal:complete-although-entries-filtered(dominated)" });
            if verbose {
                println!("oracle (1b) fold of recover_with_wal = merge of everything persisted: ok");
            }
        } else {
            // what the result would be if the high-water filter were the only cause
            let kept: Vec<(String, ReplicatedValue)> = wal_entries.iter().filter(|(ts, _)| *ts >= high_water).map(|(_, d)| (d.key.clone(), d.value.clone())).collect();
            let alt = fold_elems(&store_elems.iter().chain(kept.iter()).cloned().collect::<Vec<_>>());
            let explained = !below.is_empty() && db.iter().all(|k| below.iter().any(|(_, d)| &d.key == k) && got_b.get(k).map(obs) == alt.get(k).map(obs));
            let detail = base(json!({"differing_keys": db, "truth": kv_json(&truth), "fold_of_recover_with_wal": kv_json(&got_b),
                "wal_entries_below_high_water_in_no_segment_nor_checkpoint": below.iter().map(|(ts, d)| json!({"ts": ts, "delta": delta_text(d)})).collect::<Vec<_>>(),
                "recover_with_wal_deltas": rw.deltas.iter().map(delta_text).collect::<Vec<_>>()}));
            if verbose {
                println!("oracle (1b) fold of recover_with_wal = merge of everything persisted: FAILS on keys {:?}", db);
                for k in &db {
                    println!("   {}: recovered {} but persisted {}", k, got_b.get(k).map(obs).unwrap_or_else(|| "(absent)".into()), truth.get(k).map(obs).unwrap_or_else(|| "(absent)".into()));
                }
                println!("   filtered WAL entries (ts < {} and in no listed segment nor the checkpoint): {:?}", high_water, below.iter().map(|(ts, d)| format!("ts={} {}", ts, delta_text(d))).collect::<Vec<_>>());
                println!("   verdict: {}", if explained { format!("KNOWN {} (every differing key is explained by a filtered entry)", KNOWN) } else { "VIOLATION (not explained by the high-water filter)".to_string() });
            }
            if explained {
                out.count("recover_with_wal:incomplete(known C11-wal-high-water)");
                out.known(KNOWN, i, detail);
            } else {
                out.count(&format!("violation:{}", V_RECWAL));
                out.violation(i, V_RECWAL, detail);
            }
        }
        // (1c) recover() without the WAL
        out.impl_checks += 1;
        let got_c = r.fold();
        let dc = diff_keys(&got_c, &truth_store);
        if verbose {
            println!("oracle (1c) fold of recover() = merge of checkpoint and listed segments: {}", if dc.is_empty() { "ok".to_string() } else { format!("VIOLATED on keys {:?}", dc) });
        }
        if !dc.is_empty() {
            out.count(&format!("violation:{}", V_REC));
            out.violation(i, V_REC, base(json!({"differing_keys": dc, "truth": kv_json(&truth_store), "fold_of_recover": kv_json(&got_c)})));
        }
        // (4) nothing dropped
        let mut lost: Vec<String> = Vec::new();
        for (k, v) in &all {
            out.impl_checks += 1;
            let ok = match prod.get(k) {
                Some(s) => obs(&s.merge(v)) == obs(s),
                None => false,
            };
            if !ok {
                lost.push(format!("{}@{}", k, obs(v)));
            }
        }
        if verbose {
            println!("oracle (4) every persisted update ({}) is dominated by the production-path state: {}", all.len(), if lost.is_empty() { "ok".to_string() } else { format!("VIOLATED: {:?}", lost) });
        }
        if !lost.is_empty() {
            out.count(&format!("violation:{}", V_DROPPED));
            out.violation(i, V_DROPPED, base(json!({"lost": lost, "production_state": kv_json(prod)})));
        }
    } else if verbose {
        println!("oracles (1) and (4) skipped: {}", if !lay.covered { "the layout lists a segment the checkpoint claims to cover" } else { "recovery failed" });
    }

    // ---- the Coq case
    let okv = |s: &Option<KV>, p: &mut dyn Pr| -> String {
        let x = s.as_ref().map(|s| kv_term(s, p));
        p.st().opt(T_KVL, &x)
    };
    let outputs = |p: &mut dyn Pr| -> [String; 4] {
        let st = p.st();
        let t_ck = format!("(option {})", T_KVL);
        let k_rec_t = match &rec {
            Ok(r) => {
                let pr = st.pair(&t_ck, "(list delta)", &okv(&r.ck_kv(), p), &deltas_term(r.deltas.iter(), p));
                st.some(&format!("(prod {} (list delta))", t_ck), &pr)
            }
            Err(_) => st.none(&format!("(prod {} (list delta))", t_ck)),
        };
        let k_recwal_t = match &recwal {
            Ok(r) => st.some("(list delta)", &deltas_term(r.deltas.iter(), p)),
            Err(_) => st.none("(list delta)"),
        };
        [k_rec_t, k_recwal_t, okv(&k_state, p), okv(&k_prod, p)]
    };
    let [k_rec_t, k_recwal_t, k_state_t, k_prod_t] = outputs(&mut Plain);
    // the term written to the case file: the same case with every distinct literal, value and
    // delta bound once by a `let`
    let term = {
        let mut pass1 = Collect::default();
        let _ = layout_term(&mut pass1);
        let _ = outputs(&mut pass1);
        let mut it = Intern { standalone: pass1.standalone, ..Intern::default() };
        let layout_i = layout_term(&mut it);
        let [a, b, c, d] = outputs(&mut it);
        let skeleton = format!("K11 {} {} {} {} {}", layout_i, a, b, c, d);
        let body = it.lits(&skeleton);
        it.wrap(&body)
    };
    let plain_term = format!("(K11 {} {} {} {} {})", layout_t, k_rec_t, k_recwal_t, k_state_t, k_prod_t);
    bump(out, "case-term-bytes-plain", plain_term.len() as u64);
    bump(out, "case-term-bytes-written", term.len() as u64);
    let parts = (listed && lay.ck.as_ref().map_or(false, |c| !c.state.is_empty())) as usize + (listed && !lay.segs.is_empty()) as usize + (!wal_entries.is_empty()) as usize;
    let nontrivial = rec.is_ok() && parts >= 2;
    if verbose {
        println!("Coq case as written to the case file (let-compressed):\n{}", term);
    }
    // `--plain 1` writes the readable term instead (same case; about three times slower in Coq)
    out.case(i, if plain { plain_term } else { term }, nontrivial, &layout_t);
    out.sample(json!({"case": i, "tags": lay.tags(), "updates": lay.updates.len(), "segments": lay.segs.iter().map(|s| s.id).collect::<Vec<_>>(), "checkpoint": lay.ck.is_some(), "wal_entries": wal_entries.len(), "high_water": high_water}));
    bump(out, "updates-total", lay.updates.len() as u64);
    if verbose {
        println!("Coq case, written out in full (same term):\n(K11 {} 1\n  {}\n  {} {} {}\n  {}\n  {}\n  {}\n  {}\n  {}\n  {})", lay.version, segs_t, ck_t, manifest.next_segment_id, cbool(lay.has_manifest), objs_t, wal_t, k_rec_t, k_recwal_t, k_state_t, k_prod_t);
    }
}

fn main() {
    let a: Vec<String> = std::env::args().collect();
    let args = &Args::parse(&a[1..]);
    let verbose = args.only.is_some();
    let plain = args.get("plain", 0) != 0;
    let mut out = Out::new(&args.out, "C11", args.shards, HEADER);
    out.nontrivial_rule = "a case = 6-31 updates (SET with/without expiry, DEL, HSET, HDEL; one kind per key over keys k/j/m/h/g) issued by 3-4 real ShardReplicaStates with independent Lamport clocks (0, small, hundreds, far ahead; either one replica per key or any replica any key with occasional cross-delivery; 10% of the deltas occur twice), partitioned at random (15% into two parts) into a checkpoint (50%), 1-5 segments with increasing ids and a WAL written by the real WalRotator (several files); 35% of the cases put a slow replica mostly into the WAL and a fast one mostly into the segments, 25% are production-like (everything in the WAL, a prefix flushed in order to checkpoint and segments, half of them with synchronised clocks); variants: no manifest, missing/torn segment or checkpoint object, min_timestamp ties, listed segments with id <= last_segment_id; 30% of the layouts with a checkpoint have NO segment to replay (half of those no WAL either); every recovery that succeeds is repeated through StreamingIntegration::recover (the entry point server_persistent uses) into a real ReplicatedShardedState, twice; indices 7 mod 400 are batch-boundary layouts (oracle only, no Coq case): 4095 / 4096 / 4097 / 8192 / 8193 deltas to replay over 200-700 keys in 1-3 segments with or without a checkpoint, recovered through the integration entry point; non-trivial = recovery returned Ok and at least two of checkpoint/segments/WAL are non-empty; distinct by layout text".into();
    if !verbose {
        std::panic::set_hook(Box::new(|_| {}));
    }
    let rt = tokio::runtime::Builder::new_current_thread().enable_all().build().unwrap();
    let range: Vec<u64> = match args.only { Some(i) => vec![i], None => (0..args.n).collect() };
    for i in range {
        let r = catch_unwind(AssertUnwindSafe(|| rt.block_on(run_case(args.seed, i, verbose, plain, &mut out))));
        out.impl_checks += 1;
        if r.is_err() {
            out.count(&format!("violation:{}", V_PANIC));
            out.violation(i, V_PANIC, json!({"case": i}));
            if verbose {
                println!("oracle no panic: VIOLATED");
            }
        }
    }
    out.finish(args.seed);
}

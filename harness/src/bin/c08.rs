//! C08: stamps issued by a node only grow, also across restart.
//! A node history = up to three incarnations of replica 1; each incarnation is driven either
//! through ShardReplicaState directly (clock visible after every event) or through the real
//! ReplicatedShardActor (ApplyRecoveredState path; only deltas and the final snapshot visible).
//! Peers 2 and 3 are real ShardReplicaStates that produce the remote deltas.
//! A third of the histories additionally drive a whole production node (ReplicatedShardedState)
//! through crashes and apply_recovered_state(checkpoint, deltas) with the persisted deltas coming
//! back as segments in any order.
use rand::Rng as _;
use redis_sim::production::{ReplicatedShardActor, ReplicatedShardedState};
use redis_sim::replication::ReplicationConfig;
use rand::seq::SliceRandom;
use redis_sim::redis::{Command, SDS};
use redis_sim::replication::lattice::ReplicaId;
use redis_sim::replication::state::{ReplicatedValue, ReplicationDelta, ShardReplicaState};
use redis_sim::replication::ConsistencyLevel;
use serde_json::json;
use std::collections::BTreeMap;
use std::panic::{catch_unwind, AssertUnwindSafe};
use vharness::rv::*;
use vharness::util::*;

const HEADER: &str = "From RV Require Import Corr.C08.\nLocal Open Scope string_scope.\nLocal Open Scope N_scope.\nLocal Open Scope list_scope.";
const KEYS: [&str; 2] = ["k", "j"];
const VALS: [&[u8]; 4] = [b"a", b"", b"\x00\xff", b"10"];
const FIELDS: [&str; 2] = ["f1", "f2"];

#[derive(Clone)]
enum Ev {
    Write(String, Vec<u8>, Option<u64>),
    Delete(String),
    HSet(String, Vec<(String, Vec<u8>)>),
    HDel(String, Vec<String>),
    Remote(String, ReplicatedValue),
    Recover(String, ReplicatedValue),
}
fn ev_term(e: &Ev) -> String {
    match e {
        Ev::Write(k, v, x) => format!("(EW {} {} {})", chex(k.as_bytes()), chex(v), copt(x, |e| e.to_string())),
        Ev::Delete(k) => format!("(ED {})", chex(k.as_bytes())),
        Ev::HSet(k, fs) => format!("(EHS {} {})", chex(k.as_bytes()), clist(fs.iter(), |(f, v)| format!("({}, {})", chex(f.as_bytes()), chex(v)))),
        Ev::HDel(k, fs) => format!("(EHD {} {})", chex(k.as_bytes()), clist(fs.iter(), |f| chex(f.as_bytes()))),
        Ev::Remote(k, v) => format!("(ERm {} {})", chex(k.as_bytes()), rv_term(v, false)),
        Ev::Recover(k, v) => format!("(ERc {} {})", chex(k.as_bytes()), rv_term(v, false)),
    }
}
fn ev_kind(e: &Ev) -> &'static str {
    match e { Ev::Write(..) => "write", Ev::Delete(..) => "delete", Ev::HSet(..) => "hset", Ev::HDel(..) => "hdel", Ev::Remote(..) => "remote", Ev::Recover(..) => "recover" }
}

/// what one event showed on the implementation
struct Obs {
    clock: Option<u64>,
    delta: Option<ReplicatedValue>,
}

fn apply_direct(s: &mut ShardReplicaState, e: &Ev) -> Obs {
    let delta = match e {
        Ev::Write(k, v, x) => Some(s.record_write(k.clone(), SDS::new(v.clone()), *x).value),
        Ev::Delete(k) => s.record_delete(k.clone()).map(|d| d.value),
        Ev::HSet(k, fs) => Some(s.record_hash_write(k.clone(), fs.iter().map(|(f, v)| (f.clone(), SDS::new(v.clone()))).collect()).value),
        Ev::HDel(k, fs) => s.record_hash_delete(k.clone(), fs.clone()).map(|d| d.value),
        Ev::Remote(k, v) => {
            s.apply_remote_delta(ReplicationDelta::new(k.clone(), v.clone(), v.timestamp.replica_id));
            None
        }
        Ev::Recover(..) => unreachable!("recover events are only applied through the actor"),
    };
    Obs { clock: Some(s.lamport_clock.time), delta }
}

thread_local! { static CONSISTENT: std::cell::Cell<bool> = std::cell::Cell::new(false); static NOREPL: std::cell::Cell<u64> = std::cell::Cell::new(0); static UNEXPECTED_DELTA: std::cell::Cell<bool> = std::cell::Cell::new(false); }
/// local operation; in "kind-consistent" histories key k only holds strings and key j only hashes
/// (the executor glue of the actor debug-asserts on a hash delta arriving over a string).
fn gen_local(rng: &mut Rng) -> Ev {
    let mut k = KEYS[rng.gen_range(0..KEYS.len())].to_string();
    let c = rng.gen_range(0..10);
    if CONSISTENT.with(|x| x.get()) { k = if c <= 4 { "k".to_string() } else { "j".to_string() }; }
    match c {
        0..=3 => Ev::Write(k, VALS[rng.gen_range(0..VALS.len())].to_vec(), if rng.gen_bool(0.2) { Some(rng.gen_range(1..5u64) * 1000) } else { None }),
        4 => Ev::Delete(k),
        5..=7 => {
            let n = rng.gen_range(1..3);
            Ev::HSet(k, (0..n).map(|_| (FIELDS[rng.gen_range(0..FIELDS.len())].to_string(), VALS[rng.gen_range(0..VALS.len())].to_vec())).collect())
        }
        _ => Ev::HDel(k, vec![FIELDS[rng.gen_range(0..FIELDS.len())].to_string()]),
    }
}

fn main() {
    let a: Vec<String> = std::env::args().collect();
    let args = &Args::parse(&a[1..]);
    let mut out = Out::new(&args.out, "C08", args.shards, HEADER);
    out.nontrivial_rule = "node histories of replica 1: up to 3 incarnations separated by crashes; per incarnation 3-10 events (local SET/DEL/HSET/HDEL, remote deltas produced by two real peer states with clocks behind/ahead/far ahead, recovered checkpoint entries and recovered deltas); incarnations run on ShardReplicaState directly or through the real ReplicatedShardActor; one Coq case per incarnation; non-trivial = the incarnation issued at least one stamp after seeing a remote or recovered value; distinct by event text".into();
    std::panic::set_hook(Box::new(|_| {}));
    let rt = tokio::runtime::Builder::new_current_thread().enable_all().build().unwrap();
    // case ids are 8 * history + incarnation (+ 4 for the whole-node flavour)
    let range: Vec<u64> = match args.only { Some(c) => vec![c / 8], None => (0..args.n).collect() };
    for i in range {
        let mut rng = case_rng(args.seed, i);
        let causal = rng.gen_bool(0.25);
        CONSISTENT.with(|x| x.set(rng.gen_bool(0.6)));
        let level = if causal { ConsistencyLevel::Causal } else { ConsistencyLevel::Eventual };
        // peers
        let mut peers: Vec<ShardReplicaState> = (2..=3u64).map(|r| ShardReplicaState::new(ReplicaId(r), level)).collect();
        let overflow_case = rng.gen_bool(0.01);
        for p in peers.iter_mut() {
            p.lamport_clock.time = match rng.gen_range(0..4) { 0 => 0, 1 => rng.gen_range(0..20), 2 => rng.gen_range(100..1000), _ => 1u64 << rng.gen_range(20..62) };
        }
        if overflow_case {
            peers[0].lamport_clock.time = u64::MAX - 1;
        }
        let incarnations = rng.gen_range(1..4);
        let mut issued_before: Vec<(u64, u64)> = Vec::new(); // stamps issued by earlier incarnations
        let mut durable_snapshot: BTreeMap<String, ReplicatedValue> = BTreeMap::new();
        let mut durable_deltas: Vec<(String, ReplicatedValue)> = Vec::new();
        for inc in 0..incarnations {
            let use_actor = inc > 0 || rng.gen_bool(0.3);
            let mut evs: Vec<Ev> = Vec::new();
            // recovery list: checkpoint entries (only through the actor) then deltas
            if inc > 0 {
                for (k, v) in durable_snapshot.iter() {
                    evs.push(Ev::Recover(k.clone(), v.clone()));
                }
                for (k, v) in durable_deltas.iter() {
                    evs.push(Ev::Remote(k.clone(), v.clone()));
                }
            }
            let n_rec = evs.len();
            let steps = rng.gen_range(3..11);
            let mut observed: Vec<Obs> = Vec::new();
            let mut final_keys: BTreeMap<String, ReplicatedValue> = BTreeMap::new();
            let mut panicked = false;
            let mut actor_died = false;
            let res = catch_unwind(AssertUnwindSafe(|| {
                if use_actor {
                    rt.block_on(async {
                        let h = ReplicatedShardActor::spawn(ReplicaId(1), level, 0);
                        let mut idx = 0usize;
                        let mut planned = 0;
                        loop {
                            let e = if idx < evs.len() { evs[idx].clone() } else if planned < steps {
                                planned += 1;
                                let e = next_event(&mut rng, &mut peers);
                                evs.push(e.clone());
                                e
                            } else { break };
                            idx += 1;
                            if idx > n_rec && rng.gen_bool(0.12) {
                                // a command the glue does not replicate: must leave the replication state
                                // (and in particular the shard's clock) alone
                                let extra = match rng.gen_range(0..5) {
                                    0 => Command::FlushAll,
                                    1 => Command::FlushDb,
                                    2 => Command::LPush("lst".to_string(), vec![SDS::new(b"x".to_vec())]),
                                    3 => Command::Ping(None),
                                    _ => Command::Persist("k".to_string()),
                                };
                                NOREPL.with(|c| c.set(c.get() + 1));
                                let (_r, d) = h.execute(extra).await;
                                if d.is_some() { UNEXPECTED_DELTA.with(|c| c.set(true)); }
                            }
                            let cmd = match &e {
                                Ev::Write(k, v, x) => Some(match x { Some(ms) => Command::setex(k.clone(), (*ms / 1000) as i64, SDS::new(v.clone())), None => Command::set(k.clone(), SDS::new(v.clone())) }),
                                Ev::Delete(k) => Some(Command::Del(vec![k.clone()])),
                                Ev::HSet(k, fs) => Some(Command::HSet(k.clone(), fs.iter().map(|(f, v)| (SDS::from_str(f), SDS::new(v.clone()))).collect())),
                                Ev::HDel(k, fs) => Some(Command::HDel(k.clone(), fs.iter().map(|f| SDS::from_str(f)).collect())),
                                Ev::Remote(k, v) => { h.apply_remote_delta(ReplicationDelta::new(k.clone(), v.clone(), v.timestamp.replica_id)); None }
                                Ev::Recover(k, v) => { h.apply_recovered_state(k.clone(), v.clone()); None }
                            };
                            let delta = match cmd {
                                Some(c) => {
                                    let (reply, d) = h.execute(c).await;
                                    if matches!(reply, redis_sim::redis::RespValue::Error(_)) {
                                        // the executor refused the command (WRONGTYPE): the glue records
                                        // nothing, the replication state is untouched - for the shard
                                        // model this is a no-op event
                                        let last = evs.len() - 1;
                                        if idx - 1 == last || idx - 1 < evs.len() { evs[idx - 1] = Ev::Delete("zz-noop".to_string()); }
                                        None
                                    } else { d.map(|d| d.value) }
                                }
                                None => None,
                            };
                            let e = evs[idx - 1].clone();
                            if let Some(d) = &delta { feed_peers(&mut rng, &mut peers, &e, d); }
                            observed.push(Obs { clock: None, delta });
                            tokio::task::yield_now().await;
                            if !h.is_running() { actor_died = true; break; }
                        }
                        if !actor_died {
                            for (k, v) in h.get_snapshot().await { final_keys.insert(k, v); }
                            if !h.is_running() { actor_died = true; }
                            h.shutdown().await;
                        }
                    });
                } else {
                    let mut s = ShardReplicaState::new(ReplicaId(1), level);
                    let mut idx = 0usize;
                    let mut planned = 0;
                    loop {
                        let e = if idx < evs.len() { evs[idx].clone() } else if planned < steps {
                            planned += 1;
                            let e = next_event(&mut rng, &mut peers);
                            evs.push(e.clone());
                            e
                        } else { break };
                        idx += 1;
                        let o = apply_direct(&mut s, &e);
                        if let Some(d) = &o.delta { feed_peers(&mut rng, &mut peers, &e, d); }
                        observed.push(o);
                    }
                    for (k, v) in s.replicated_keys.iter() { final_keys.insert(k.clone(), v.clone()); }
                }
            }));
            if res.is_err() { panicked = true; }
            if actor_died {
                // a debug assertion of the executor glue (remote hash delta onto a local string:
                // C06's territory) killed the actor task; this history says nothing about C08
                out.count("abandoned:actor-task-died-in-glue-debug-assert");
                break;
            }
            let cid = i * 8 + inc as u64;
            for e in &evs { out.count(&format!("ev:{}", ev_kind(e))); }
            out.count(if use_actor { "mode:actor" } else { "mode:direct" });
            let nr = NOREPL.with(|c| c.replace(0));
            for _ in 0..nr { out.count("non-replicated command interleaved (FLUSHALL/FLUSHDB/LPUSH/PING/PERSIST)"); }
            if UNEXPECTED_DELTA.with(|c| c.replace(false)) {
                out.violation(i * 8 + inc as u64, "a command that is not replicated emitted a delta", json!({"events": evs.iter().map(ev_term).collect::<Vec<_>>()}));
            }
            // ---- the property, on the implementation
            let mut seen_max: Option<u64> = None;
            let mut saw_input = false;
            let mut issued_after_input = false;
            let mut last_issued: Option<(u64, u64)> = None;
            let saw_max_stamp = evs.iter().any(|e| matches!(e, Ev::Remote(_, v) | Ev::Recover(_, v) if all_times(v).iter().any(|t| *t == u64::MAX)));
            for (n, e) in evs.iter().enumerate() {
                if n >= observed.len() { break; }
                if let Ev::Remote(_, v) | Ev::Recover(_, v) = e {
                    saw_input = true;
                    for t in all_times(v) { seen_max = Some(seen_max.map_or(t, |m| m.max(t))); }
                }
                let is_write = matches!(e, Ev::Write(..)) || matches!(e, Ev::HSet(_, fs) if !fs.is_empty());
                if let Some(d) = &observed[n].delta {
                    if is_write {
                        out.impl_checks += 1;
                        let st = (d.timestamp.time, d.timestamp.replica_id.0);
                        if saw_input { issued_after_input = true; }
                        let bad_seen = seen_max.map_or(false, |m| st.0 <= m);
                        let bad_prev = last_issued.map_or(false, |p| st <= p);
                        let bad_restart = issued_before.iter().any(|p| st <= *p);
                        if bad_seen || bad_prev || bad_restart || st.1 != 1 {
                            let d = json!({"incarnation": inc, "event_index": n, "event": ev_term(e), "issued": format!("{:?}", st),
                                "max_time_seen_before": seen_max, "previous_issue": format!("{:?}", last_issued),
                                "issued_by_earlier_incarnations": format!("{:?}", issued_before),
                                "recovered_entries": n_rec, "through_actor": use_actor,
                                "events": evs.iter().map(ev_term).collect::<Vec<_>>()});
                            if saw_max_stamp { out.known("C08-clock-overflow", cid, d); }
                            else { out.violation(cid, if bad_restart { "a stamp issued after restart does not exceed a stamp issued (and recovered) before the crash" } else if bad_seen { "an issued stamp does not exceed a stamp the node had already seen" } else { "issued stamps do not strictly increase" }, d); }
                        }
                        last_issued = Some(st);
                    }
                    for t in all_times(d) { seen_max = Some(seen_max.map_or(t, |m| m.max(t))); }
                }
            }
            if panicked {
                let d = json!({"incarnation": inc, "events": evs.iter().map(ev_term).collect::<Vec<_>>()});
                if saw_max_stamp || overflow_case { out.known("C08-clock-overflow", cid, d); } else { out.violation(cid, "the implementation panicked", d); }
                break;
            }
            // ---- the Coq case for this incarnation
            let obs_terms = clist(observed.iter(), |o| format!("({}, {})", copt(&o.clock, |c| c.to_string()), copt(&o.delta, |d| rv_term(d, false))));
            let fin = clist(final_keys.iter(), |(k, v)| format!("({}, {})", chex(k.as_bytes()), rv_term(v, false)));
            let evt = clist(evs.iter().take(observed.len()), ev_term);
            let term = format!("(K {} {} {} {})", cbool(causal), evt, obs_terms, fin);
            out.case(cid, term, issued_after_input, &evt);
            out.sample(json!({"incarnation": inc, "through_actor": use_actor, "events": evs.iter().map(ev_term).collect::<Vec<_>>()}));
            if args.only.is_some() {
                println!("case {} incarnation {} (actor={}):", i, inc, use_actor);
                for (n, e) in evs.iter().enumerate() {
                    println!("  {} -> clock {:?} delta {}", ev_term(e), observed.get(n).and_then(|o| o.clock), observed.get(n).and_then(|o| o.delta.as_ref()).map(obs).unwrap_or_default());
                }
            }
            // ---- crash: what was durable (everything acknowledged, C09/C12's conclusion):
            // a checkpoint of the state at a random earlier point plus every later delta.
            for o in &observed { if let Some(d) = &o.delta { issued_before.push((d.timestamp.time, d.timestamp.replica_id.0)); } }
            if rng.gen_bool(0.5) {
                durable_snapshot = final_keys.clone();
                durable_deltas.clear();
            } else {
                // keep the old checkpoint, add this incarnation's deltas (as segments / WAL would)
                for (n, e) in evs.iter().enumerate() {
                    if n >= observed.len() { break; }
                    let k = match e { Ev::Write(k, ..) | Ev::Delete(k) | Ev::HSet(k, _) | Ev::HDel(k, _) | Ev::Remote(k, _) | Ev::Recover(k, _) => k.clone() };
                    if let Some(d) = &observed[n].delta { durable_deltas.push((k, d.clone())); }
                }
            }
        }
    }
    // ---- whole-node flavour: a production node (ReplicatedShardedState, 16 shard actors) that crashes
    // and is rebuilt by apply_recovered_state(checkpoint, deltas); what was persisted comes back as
    // segments in any order (RecoveryManager sorts segments by their smallest stamp only)
    let range: Vec<u64> = match args.only { Some(c) => vec![c / 8], None => (0..args.n).collect() };
    for i in range {
        let mut rng = case_rng(args.seed ^ 0x0c08_40de, i);
        if !rng.gen_bool(0.3) { continue; }
        node_history(&rt, &mut rng, i, &mut out, args);
    }
    out.finish(args.seed);
}

/// One history of a whole node; all commands go to one key (a node has 16 shards with independent
/// clocks, the model is one shard), which holds either strings or hashes.
fn node_history(rt: &tokio::runtime::Runtime, rng: &mut Rng, i: u64, out: &mut Out, args: &Args) {
    let stringy = rng.gen_bool(0.6);
    let key = if stringy { "k" } else { "j" }.to_string();
    let incarnations = rng.gen_range(2..4);
    let mut persisted: Vec<(String, ReplicatedValue)> = Vec::new(); // every delta the node ever emitted, in order
    let mut issued_before: Vec<(u64, u64)> = Vec::new();
    let mut checkpoint: Option<BTreeMap<String, ReplicatedValue>> = None;
    for inc in 0..incarnations {
        let cid = i * 8 + 4 + inc as u64;
        let mut evs: Vec<Ev> = Vec::new();
        let mut observed: Vec<Obs> = Vec::new();
        let mut final_keys: BTreeMap<String, ReplicatedValue> = BTreeMap::new();
        // the recovery input of this incarnation: the persisted deltas cut into segments, segments in any order
        let mut recovered: Vec<(String, ReplicatedValue)> = Vec::new();
        if inc > 0 {
            let mut segs: Vec<Vec<(String, ReplicatedValue)>> = Vec::new();
            let mut j = 0;
            while j < persisted.len() {
                let n = rng.gen_range(1..4).min(persisted.len() - j);
                segs.push(persisted[j..j + n].to_vec());
                j += n;
            }
            if rng.gen_bool(0.7) { segs.shuffle(rng); }
            recovered = segs.into_iter().flatten().collect();
        }
        let cp = if inc > 0 { checkpoint.clone() } else { None };
        let steps = rng.gen_range(2..7);
        let mut local: Vec<Ev> = Vec::new();
        for _ in 0..steps {
            local.push(if stringy {
                match rng.gen_range(0..10) {
                    0..=7 => Ev::Write(key.clone(), VALS[rng.gen_range(0..VALS.len())].to_vec(), None),
                    _ => Ev::Delete(key.clone()),
                }
            } else {
                match rng.gen_range(0..10) {
                    0..=6 => { let n = rng.gen_range(1..3); Ev::HSet(key.clone(), (0..n).map(|_| (FIELDS[rng.gen_range(0..FIELDS.len())].to_string(), VALS[rng.gen_range(0..VALS.len())].to_vec())).collect()) }
                    _ => Ev::HDel(key.clone(), vec![FIELDS[rng.gen_range(0..FIELDS.len())].to_string()]),
                }
            });
        }
        let mut cp_at_crash: BTreeMap<String, ReplicatedValue> = BTreeMap::new();
        rt.block_on(async {
            let mut cfg = ReplicationConfig::default();
            cfg.replica_id = 1;
            let node = ReplicatedShardedState::new(cfg);
            if inc > 0 {
                if let Some(c) = &cp { for (k, v) in c.iter() { evs.push(Ev::Recover(k.clone(), v.clone())); observed.push(Obs { clock: None, delta: None }); } }
                for (k, v) in recovered.iter() { evs.push(Ev::Remote(k.clone(), v.clone())); observed.push(Obs { clock: None, delta: None }); }
                node.apply_recovered_state(
                    cp.as_ref().map(|c| c.iter().map(|(k, v)| (k.clone(), v.clone())).collect()),
                    recovered.iter().map(|(k, v)| ReplicationDelta::new(k.clone(), v.clone(), v.timestamp.replica_id)).collect(),
                );
                let _ = node.snapshot_state().await;
            }
            for e in local.iter() {
                let cmd = match e {
                    Ev::Write(k, v, _) => Command::set(k.clone(), SDS::new(v.clone())),
                    Ev::Delete(k) => Command::Del(vec![k.clone()]),
                    Ev::HSet(k, fs) => Command::HSet(k.clone(), fs.iter().map(|(f, v)| (SDS::from_str(f), SDS::new(v.clone()))).collect()),
                    Ev::HDel(k, fs) => Command::HDel(k.clone(), fs.iter().map(|f| SDS::from_str(f)).collect()),
                    _ => unreachable!(),
                };
                let _ = node.execute(cmd).await;
                let ds = node.collect_pending_deltas().await;
                evs.push(e.clone());
                observed.push(Obs { clock: None, delta: ds.last().map(|d| d.value.clone()) });
                for d in ds { persisted.push((d.key.clone(), d.value.clone())); }
            }
            for (k, v) in node.snapshot_state().await { final_keys.insert(k.clone(), v.clone()); cp_at_crash.insert(k, v); }
        });
        out.count("mode:whole-node (ReplicatedShardedState, apply_recovered_state)");
        for e in &evs { out.count(&format!("ev:{}", ev_kind(e))); }
        // ---- the property on the implementation: every stamp issued exceeds every stamp this node issued before
        let mut last: Option<(u64, u64)> = None;
        for (n, e) in evs.iter().enumerate() {
            let is_write = matches!(e, Ev::Write(..)) || matches!(e, Ev::HSet(_, fs) if !fs.is_empty());
            if let (true, Some(d)) = (is_write, &observed[n].delta) {
                out.impl_checks += 1;
                let st = (d.timestamp.time, d.timestamp.replica_id.0);
                let bad_restart = issued_before.iter().any(|p| st <= *p);
                let bad_prev = last.map_or(false, |p| st <= p);
                if bad_restart || bad_prev || st.1 != 1 {
                    out.violation(cid, if bad_restart { "a stamp issued after a whole-node restart does not exceed a stamp the node issued (and persisted) before the crash" } else { "issued stamps do not strictly increase" },
                        json!({"incarnation": inc, "event_index": n, "event": ev_term(e), "issued": format!("{:?}", st), "issued_by_earlier_incarnations": format!("{:?}", issued_before),
                               "recovered_deltas_in_order": recovered.iter().map(|(k, v)| format!("{} @ {:?}", k, (v.timestamp.time, v.timestamp.replica_id.0))).collect::<Vec<_>>(),
                               "checkpoint": cp.is_some(), "events": evs.iter().map(ev_term).collect::<Vec<_>>()}));
                }
                last = Some(st);
            }
        }
        for o in &observed { if let Some(d) = &o.delta { issued_before.push((d.timestamp.time, d.timestamp.replica_id.0)); } }
        // ---- the Coq case of this incarnation (one key, hence one shard)
        let obs_terms = clist(observed.iter(), |o| format!("({}, {})", copt(&o.clock, |c| c.to_string()), copt(&o.delta, |d| rv_term(d, false))));
        let fin = clist(final_keys.iter(), |(k, v)| format!("({}, {})", chex(k.as_bytes()), rv_term(v, false)));
        let evt = clist(evs.iter(), ev_term);
        out.case(cid, format!("(K false {} {} {})", evt, obs_terms, fin), inc > 0, &evt);
        out.sample(json!({"incarnation": inc, "whole_node": true, "events": evs.iter().map(ev_term).collect::<Vec<_>>()}));
        if args.only.is_some() {
            println!("case {} whole-node incarnation {}:", i, inc);
            for (n, e) in evs.iter().enumerate() { println!("  {} -> delta {}", ev_term(e), observed[n].delta.as_ref().map(obs).unwrap_or_default()); }
        }
        // what is durable at the crash: every emitted delta; now and then also a checkpoint of the state
        if rng.gen_bool(0.3) { checkpoint = Some(cp_at_crash); }
    }
}

/// next event of the running incarnation: a local operation or a delta from a peer
fn next_event(rng: &mut Rng, peers: &mut Vec<ShardReplicaState>) -> Ev {
    if rng.gen_bool(0.35) {
        let p = rng.gen_range(0..peers.len());
        let e = gen_local(rng);
        let d = apply_direct(&mut peers[p], &e);
        let k = match &e { Ev::Write(k, ..) | Ev::Delete(k) | Ev::HSet(k, _) | Ev::HDel(k, _) => k.clone(), _ => unreachable!() };
        match d.delta {
            Some(v) => Ev::Remote(k, v),
            None => gen_local(rng),
        }
    } else {
        gen_local(rng)
    }
}
/// now and then a peer receives what node 1 issued (so that peer stamps depend on ours)
fn feed_peers(rng: &mut Rng, peers: &mut Vec<ShardReplicaState>, e: &Ev, d: &ReplicatedValue) {
    if rng.gen_bool(0.3) {
        let p = rng.gen_range(0..peers.len());
        let k = match e { Ev::Write(k, ..) | Ev::Delete(k) | Ev::HSet(k, _) | Ev::HDel(k, _) | Ev::Remote(k, _) | Ev::Recover(k, _) => k.clone() };
        if peers[p].lamport_clock.time < u64::MAX - 2 && d.timestamp.time < u64::MAX - 2 {
            peers[p].apply_remote_delta(ReplicationDelta::new(k, d.clone(), ReplicaId(1)));
        }
    }
}

//! C04: pipelining - exactly one reply per command, in order, however the bytes arrive.
//! Runs the REAL production connection handler (OptimizedConnectionHandler, verif-hooks) on a
//! scripted in-memory stream over a real ShardedActorState (1 or 4 shards).
//!
//! Case kinds
//!   seg   one stream, one segmentation into reads, one (min_pipeline_buffer, batch_threshold):
//!         printed with the cumulative number of bytes written after every read and the final output
//!   all2  one short stream: EVERY segmentation into 1, 2 and 3 reads is run on the implementation and
//!         compared with the reference run; the model re-checks every 2-read segmentation
//!   bad   well-formed prefix followed by one malformed frame
//!   tail  short stream of commands whose LAST argument is the empty string (or whose key is empty):
//!         every cut position, and every pair of cuts at most 3 bytes apart, is run (a read that ends
//!         inside the last bytes of a frame); the model re-checks every cut position
//!   ttl   SET k v PX 40 | PX 60000 | no deadline, a pause of 90 ms (real time: the handler is wired to
//!         ProductionTimeSource) between two reads, then plain GETs / SETs of the key (fast path or
//!         batch): judged by O1 O2 O5 O6 and by the model (the mini backend has a clock)
//!   rbuf  read_buffer_size 16 / 64 / 128 / 256 / 8192 and a stream whose total length (or whose last
//!         chunk) is exactly k x read_buffer_size, or that +- 1; the stream is delivered in reads of at most
//!         read_buffer_size bytes and then STAYS OPEN AND SILENT (the client waits for its replies): the
//!         run ends when the handler is back in `read` with nothing to read; missing replies = O2/O3/O5
//!   ovfl  max_buffer_size = read_buffer_size = M in {64, 128, 256, 1024}; a stream with one ECHO frame of
//!         M - 1, M, M + 1 or 1.5 M bytes behind 0-2 small commands: the `buffer.len() + n > max` arm
//!         (-ERR buffer overflow, connection closed); total <= M must be answered normally, a frame longer
//!         than M must end in exactly that error; the model has the arm
//!   pool  2 .. 33 connections, one after the other, sharing ONE BufferPoolAsync of 2 / 4 / 8 / 64 buffers
//!         (as all connections of a server do); the first ends badly - EOF in the middle of a frame (for
//!         short streams: at EVERY cut), the peer closing before / while the reply is written (write
//!         error), a read error - or cleanly; fillers end cleanly; the LAST connection (the one that pops
//!         the first one's buffers) is judged: same bytes at the same reads as alone on a fresh pool
//!   bulk  a few SETs / LPUSHes of 1-4 KB values, then a deep pipeline of GET / LRANGE / ECHO (/ MGET)
//!         whose replies total more than 64, 128 or 256 KiB, fed in one read or in two or three large
//!         reads: judged by the direct oracles O1 O2 O3 O5; one in two of the 64 KiB cases without
//!         MGET is also printed for the model (the others would cost coqc seconds each to parse)
//!
//! Direct oracles on the implementation (no model involved)
//!   O1 no panic, no hang (5 s)                       O2 #replies decoded from the output = #commands
//!   O3 output = output of the same stream fed one command per read with batching disabled
//!   O4 malformed frame: prefix replies intact, then >= 1 reply, all of them errors
//!   O5 a reply is written by the read that completes its command (no reply is held back)
//!   O6 (class ttl) the same reads with every GET / SET spelled GeT / SeT - which forces the generic
//!      path - are answered with the same bytes: the reply does not depend on the path a command takes
use rand::seq::SliceRandom;
use rand::Rng as _;
use redis_sim::observability::{DatadogConfig, Metrics};
use redis_sim::production::{ConnectionConfig, ConnectionPool, OptimizedConnectionHandler, ShardedActorState};
use redis_sim::security::AclManager;
use serde_json::json;
use std::hash::{Hash, Hasher};
use std::panic::{catch_unwind, AssertUnwindSafe};
use std::sync::Arc;
use vharness::conn::ScriptedStream;
use std::pin::Pin;
use std::task::{Context, Poll};
use tokio::io::{AsyncRead, AsyncWrite, ReadBuf};
use vharness::util::*;

const HEADER: &str = "From RV Require Import Corr.C04.\nLocal Open Scope string_scope.\nLocal Open Scope N_scope.\nLocal Open Scope list_scope.";
const CFGS: [(usize, usize); 4] = [(60, 2), (70, 6), (1, 1), (1_000_000_000, 2)];
const MAXBUF: usize = 1 << 20;

struct Env {
    rt: tokio::runtime::Runtime,
    metrics: Arc<Metrics>,
    keys: Vec<Vec<u8>>,
    no_empty: bool,
}

#[derive(Clone, Debug, PartialEq)]
enum Ran {
    Ok(Vec<u8>, Vec<usize>), // all bytes written, cumulative length after each read
    Panic(String),
    Hang,
}

fn run(env: &Env, shards: usize, cfg: (usize, usize), chunks: &[Vec<u8>]) -> Ran {
    let nreads = chunks.iter().filter(|c| !c.is_empty()).count();
    let r = catch_unwind(AssertUnwindSafe(|| {
        env.rt.block_on(async {
            let state = ShardedActorState::with_shards(shards);
            let (stream, written, marks) = ScriptedStream::new(chunks.to_vec());
            let pool = ConnectionPool::new(2, 2);
            let acl = Arc::new(parking_lot::RwLock::new(AclManager::new()));
            let config = ConnectionConfig { max_buffer_size: MAXBUF, read_buffer_size: MAXBUF, min_pipeline_buffer: cfg.0, batch_threshold: cfg.1 };
            let h = OptimizedConnectionHandler::new(stream, state, "verif:0".to_string(), pool.buffer_pool(), env.metrics.clone(), config, acl, None);
            let done = tokio::time::timeout(std::time::Duration::from_secs(5), h.run()).await.is_ok();
            let w = written.lock().unwrap().clone();
            let m = marks.lock().unwrap().clone();
            (done, w, m)
        })
    }));
    match r {
        Err(e) => Ran::Panic(e.downcast_ref::<String>().cloned().or_else(|| e.downcast_ref::<&str>().map(|s| s.to_string())).unwrap_or_default()),
        Ok((false, _, _)) => Ran::Hang,
        Ok((true, w, m)) => {
            let mut cum = vec![0usize; nreads];
            for (reads, total) in m {
                if reads >= 1 && reads <= nreads {
                    for c in cum.iter_mut().skip(reads - 1) {
                        *c = (*c).max(total);
                    }
                }
            }
            Ran::Ok(w, cum)
        }
    }
}

/// like ScriptedStream, but an item may be a pause: the read that follows it completes only after
/// that many milliseconds of real time
enum Item {
    Chunk(Vec<u8>),
    Pause(u64),
}
struct TimedStream {
    items: std::collections::VecDeque<Item>,
    sleeping: Option<Pin<Box<tokio::time::Sleep>>>,
    written: Arc<std::sync::Mutex<Vec<u8>>>,
    marks: Arc<std::sync::Mutex<Vec<(usize, usize)>>>,
    reads: usize,
}
impl AsyncRead for TimedStream {
    fn poll_read(mut self: Pin<&mut Self>, cx: &mut Context<'_>, buf: &mut ReadBuf<'_>) -> Poll<std::io::Result<()>> {
        loop {
            if let Some(s) = self.sleeping.as_mut() {
                match s.as_mut().poll(cx) {
                    Poll::Pending => return Poll::Pending,
                    Poll::Ready(()) => self.sleeping = None,
                }
            }
            match self.items.pop_front() {
                None => return Poll::Ready(Ok(())),
                Some(Item::Pause(ms)) => self.sleeping = Some(Box::pin(tokio::time::sleep(std::time::Duration::from_millis(ms)))),
                Some(Item::Chunk(c)) => {
                    assert!(c.len() <= buf.remaining());
                    buf.put_slice(&c);
                    self.reads += 1;
                    return Poll::Ready(Ok(()));
                }
            }
        }
    }
}
impl AsyncWrite for TimedStream {
    fn poll_write(self: Pin<&mut Self>, _cx: &mut Context<'_>, data: &[u8]) -> Poll<std::io::Result<usize>> {
        let mut w = self.written.lock().unwrap();
        w.extend_from_slice(data);
        self.marks.lock().unwrap().push((self.reads, w.len()));
        Poll::Ready(Ok(data.len()))
    }
    fn poll_flush(self: Pin<&mut Self>, _cx: &mut Context<'_>) -> Poll<std::io::Result<()>> {
        Poll::Ready(Ok(()))
    }
    fn poll_shutdown(self: Pin<&mut Self>, _cx: &mut Context<'_>) -> Poll<std::io::Result<()>> {
        Poll::Ready(Ok(()))
    }
}
use std::future::Future;

/// as `run`, with pauses: items are (pause before this read in ms, bytes of the read)
fn run_timed(env: &Env, shards: usize, cfg: (usize, usize), reads: &[(u64, Vec<u8>)]) -> Ran {
    let nreads = reads.len();
    let r = catch_unwind(AssertUnwindSafe(|| {
        env.rt.block_on(async {
            let state = ShardedActorState::with_shards(shards);
            let written = Arc::new(std::sync::Mutex::new(Vec::new()));
            let marks = Arc::new(std::sync::Mutex::new(Vec::new()));
            let mut items = std::collections::VecDeque::new();
            for (p, c) in reads {
                if *p > 0 {
                    items.push_back(Item::Pause(*p));
                }
                items.push_back(Item::Chunk(c.clone()));
            }
            let stream = TimedStream { items, sleeping: None, written: written.clone(), marks: marks.clone(), reads: 0 };
            let pool = ConnectionPool::new(2, 2);
            let acl = Arc::new(parking_lot::RwLock::new(AclManager::new()));
            let config = ConnectionConfig { max_buffer_size: MAXBUF, read_buffer_size: MAXBUF, min_pipeline_buffer: cfg.0, batch_threshold: cfg.1 };
            let h = OptimizedConnectionHandler::new(stream, state, "verif:0".to_string(), pool.buffer_pool(), env.metrics.clone(), config, acl, None);
            let done = tokio::time::timeout(std::time::Duration::from_secs(5), h.run()).await.is_ok();
            let w = written.lock().unwrap().clone();
            let m = marks.lock().unwrap().clone();
            (done, w, m)
        })
    }));
    match r {
        Err(e) => Ran::Panic(e.downcast_ref::<String>().cloned().or_else(|| e.downcast_ref::<&str>().map(|s| s.to_string())).unwrap_or_default()),
        Ok((false, _, _)) => Ran::Hang,
        Ok((true, w, m)) => {
            let mut cum = vec![0usize; nreads];
            for (reads, total) in m {
                if reads >= 1 && reads <= nreads {
                    for c in cum.iter_mut().skip(reads - 1) {
                        *c = (*c).max(total);
                    }
                }
            }
            Ran::Ok(w, cum)
        }
    }
}

// ---------------------------------------------------------------- faults, shared pools, waiting clients
#[derive(Clone)]
enum FItem {
    Chunk(Vec<u8>),
    ReadErr, // the read fails (connection reset)
}
/// scripted stream: a chunk longer than the handler's read buffer is delivered in several reads;
/// after the script either EOF or - `hold_open` - the stream stays open and silent (sets `idle`);
/// `write_limit` = number of reply bytes the peer accepts before its side is closed (write error)
struct FaultStream {
    items: std::collections::VecDeque<FItem>,
    hold_open: bool,
    idle: Arc<std::sync::atomic::AtomicBool>,
    write_limit: Option<usize>,
    accepted: usize,
    written: Arc<std::sync::Mutex<Vec<u8>>>,
    marks: Arc<std::sync::Mutex<Vec<(usize, usize)>>>,
    reads: usize,
}
impl AsyncRead for FaultStream {
    fn poll_read(mut self: Pin<&mut Self>, _cx: &mut Context<'_>, buf: &mut ReadBuf<'_>) -> Poll<std::io::Result<()>> {
        match self.items.pop_front() {
            None => {
                if self.hold_open {
                    self.idle.store(true, std::sync::atomic::Ordering::SeqCst);
                    Poll::Pending
                } else {
                    Poll::Ready(Ok(()))
                }
            }
            Some(FItem::ReadErr) => Poll::Ready(Err(std::io::Error::new(std::io::ErrorKind::ConnectionReset, "scripted read error"))),
            Some(FItem::Chunk(mut c)) => {
                let n = c.len().min(buf.remaining());
                buf.put_slice(&c[..n]);
                if n < c.len() {
                    let rest = c.split_off(n);
                    self.items.push_front(FItem::Chunk(rest));
                }
                self.reads += 1;
                Poll::Ready(Ok(()))
            }
        }
    }
}
impl AsyncWrite for FaultStream {
    fn poll_write(mut self: Pin<&mut Self>, _cx: &mut Context<'_>, data: &[u8]) -> Poll<std::io::Result<usize>> {
        let n = match self.write_limit {
            Some(lim) => {
                if self.accepted >= lim {
                    return Poll::Ready(Err(std::io::Error::new(std::io::ErrorKind::BrokenPipe, "scripted: peer closed")));
                }
                data.len().min(lim - self.accepted)
            }
            None => data.len(),
        };
        self.accepted += n;
        let reads = self.reads;
        let mut w = self.written.lock().unwrap();
        w.extend_from_slice(&data[..n]);
        self.marks.lock().unwrap().push((reads, w.len()));
        Poll::Ready(Ok(n))
    }
    fn poll_flush(self: Pin<&mut Self>, _cx: &mut Context<'_>) -> Poll<std::io::Result<()>> {
        Poll::Ready(Ok(()))
    }
    fn poll_shutdown(self: Pin<&mut Self>, _cx: &mut Context<'_>) -> Poll<std::io::Result<()>> {
        Poll::Ready(Ok(()))
    }
}

#[derive(Clone)]
struct ConnSpec {
    shards: usize,
    cfg: (usize, usize),
    rbs: usize, // read_buffer_size
    items: Vec<FItem>,
    hold_open: bool,
    write_limit: Option<usize>,
    max_buf: usize,        // max_buffer_size
    via_perf_config: bool, // build the ConnectionConfig with ConnectionConfig::from_perf_config
}
impl ConnSpec {
    fn plain(shards: usize, cfg: (usize, usize), rbs: usize, items: Vec<FItem>, hold_open: bool, write_limit: Option<usize>) -> ConnSpec {
        ConnSpec { shards, cfg, rbs, items, hold_open, write_limit, max_buf: MAXBUF, via_perf_config: false }
    }
}
/// the reads the handler gets for these items with this read buffer
fn pieces(items: &[FItem], rbs: usize) -> Vec<Vec<u8>> {
    let mut v = Vec::new();
    for it in items {
        if let FItem::Chunk(c) = it {
            for p in c.chunks(rbs) {
                v.push(p.to_vec());
            }
        }
    }
    v
}
/// the connections one after the other, each on a fresh backend, all on ONE buffer pool of `pool_size`
fn run_seq(env: &Env, pool_size: usize, conns: &[ConnSpec]) -> Vec<Ran> {
    run_seq_opt(env, pool_size, conns, false, false)
}
/// `share_state`: all connections on ONE ShardedActorState (shards of the first); `fresh_pool_each`: every
/// connection gets a buffer pool of its own (the reference for shared pools)
fn run_seq_opt(env: &Env, pool_size: usize, conns: &[ConnSpec], share_state: bool, fresh_pool_each: bool) -> Vec<Ran> {
    let r = catch_unwind(AssertUnwindSafe(|| {
        env.rt.block_on(async {
            let mut pool = Arc::new(redis_sim::production::BufferPoolAsync::new(pool_size, 8192));
            let shared = if share_state { Some(ShardedActorState::with_shards(conns[0].shards)) } else { None };
            let mut res = Vec::new();
            for (ci, sp) in conns.iter().enumerate() {
                if fresh_pool_each {
                    pool = Arc::new(redis_sim::production::BufferPoolAsync::new(pool_size, 8192));
                }
                let state = match &shared { Some(s) => s.clone(), None => ShardedActorState::with_shards(sp.shards) };
                let written = Arc::new(std::sync::Mutex::new(Vec::new()));
                let marks = Arc::new(std::sync::Mutex::new(Vec::new()));
                let idle = Arc::new(std::sync::atomic::AtomicBool::new(false));
                let stream = FaultStream { items: sp.items.iter().cloned().collect(), hold_open: sp.hold_open, idle: idle.clone(), write_limit: sp.write_limit, accepted: 0, written: written.clone(), marks: marks.clone(), reads: 0 };
                let acl = Arc::new(parking_lot::RwLock::new(AclManager::new()));
                let config = if sp.via_perf_config {
                    ConnectionConfig::from_perf_config(&redis_sim::production::BufferConfig { read_size: sp.rbs, max_size: sp.max_buf }, &redis_sim::production::BatchingConfig { min_pipeline_buffer: sp.cfg.0, batch_threshold: sp.cfg.1 })
                } else {
                    ConnectionConfig { max_buffer_size: sp.max_buf, read_buffer_size: sp.rbs, min_pipeline_buffer: sp.cfg.0, batch_threshold: sp.cfg.1 }
                };
                let h = OptimizedConnectionHandler::new(stream, state, format!("verif:{}", ci), pool.clone(), env.metrics.clone(), config, acl, None);
                let wait_idle = async {
                    loop {
                        tokio::task::yield_now().await;
                        if idle.load(std::sync::atomic::Ordering::SeqCst) {
                            break;
                        }
                    }
                };
                let done = tokio::time::timeout(std::time::Duration::from_secs(5), async {
                    tokio::select! {
                        _ = h.run() => {}
                        _ = wait_idle => {}
                    }
                })
                .await
                .is_ok();
                if !done {
                    res.push(Ran::Hang);
                    continue;
                }
                let w = written.lock().unwrap().clone();
                let m = marks.lock().unwrap().clone();
                let nreads = pieces(&sp.items, sp.rbs).len();
                let mut cum = vec![0usize; nreads];
                for (reads, total) in m {
                    if reads >= 1 && reads <= nreads {
                        for c in cum.iter_mut().skip(reads - 1) {
                            *c = (*c).max(total);
                        }
                    }
                }
                res.push(Ran::Ok(w, cum));
            }
            res
        })
    }));
    match r {
        Ok(v) => v,
        Err(e) => vec![Ran::Panic(e.downcast_ref::<String>().cloned().or_else(|| e.downcast_ref::<&str>().map(|s| s.to_string())).unwrap_or_default())],
    }
}

/// the frame with its GET / SET name respelled GeT / SeT (same command, generic path)
fn generic_spelling(f: &[u8]) -> Vec<u8> {
    let mut v = f.to_vec();
    if v.len() >= 13 && (v.starts_with(b"*2\r\n$3\r\n") || v.starts_with(b"*3\r\n$3\r\n") || v.starts_with(b"*5\r\n$3\r\n")) {
        let name = v[8..11].to_ascii_uppercase();
        if name == b"GET" || name == b"SET" {
            v[8] = v[8].to_ascii_uppercase();
            v[9] = v[9].to_ascii_lowercase();
            v[10] = v[10].to_ascii_uppercase();
        }
    }
    v
}

/// end of the RESP value starting at `p`; None = incomplete or not RESP
fn resp_end(b: &[u8], p: usize, depth: usize) -> Option<usize> {
    if p >= b.len() || depth > 40 {
        return None;
    }
    let line_end = |from: usize| -> Option<usize> { (from..b.len().saturating_sub(1)).find(|&i| b[i] == b'\r' && b[i + 1] == b'\n') };
    match b[p] {
        b'+' | b'-' | b':' => line_end(p).map(|e| e + 2),
        b'$' => {
            let e = line_end(p)?;
            let n: i64 = std::str::from_utf8(&b[p + 1..e]).ok()?.parse().ok()?;
            if n < 0 {
                return Some(e + 2);
            }
            let end = e + 2 + n as usize + 2;
            if end <= b.len() && &b[end - 2..end] == b"\r\n" { Some(end) } else { None }
        }
        b'*' => {
            let e = line_end(p)?;
            let n: i64 = std::str::from_utf8(&b[p + 1..e]).ok()?.parse().ok()?;
            let mut q = e + 2;
            for _ in 0..n.max(0) {
                q = resp_end(b, q, depth + 1)?;
            }
            Some(q)
        }
        _ => None,
    }
}
/// the replies in `out`: Some(list of (start,end)) iff `out` is a sequence of whole RESP values
fn replies(out: &[u8]) -> Option<Vec<(usize, usize)>> {
    let mut v = Vec::new();
    let mut p = 0;
    while p < out.len() {
        let e = resp_end(out, p, 0)?;
        v.push((p, e));
        p = e;
    }
    Some(v)
}

fn enc(args: &[&[u8]]) -> Vec<u8> {
    let mut v = format!("*{}\r\n", args.len()).into_bytes();
    for a in args {
        v.extend_from_slice(format!("${}\r\n", a.len()).as_bytes());
        v.extend_from_slice(a);
        v.extend_from_slice(b"\r\n");
    }
    v
}

fn hashes_agree(k: &[u8], n: u64) -> bool {
    let mut h1 = std::collections::hash_map::DefaultHasher::new();
    std::str::from_utf8(k).unwrap().hash(&mut h1);
    let mut h2 = std::collections::hash_map::DefaultHasher::new();
    k.hash(&mut h2);
    h1.finish() % n == h2.finish() % n
}
/// keys of the given lengths on which hash_key(&str) and hash_key_bytes(&[u8]) pick the same one of 4
/// shards (DESIGN section 4 row 1 is C03's defect, not C04's); plus one key that is not UTF-8
fn key_alphabet() -> Vec<Vec<u8>> {
    let mut keys = Vec::new();
    for (len, want) in [(1usize, 2usize), (2, 1), (39, 1), (40, 1), (41, 1), (50, 1)] {
        let mut found = 0;
        for c in 0u32..100000 {
            let suffix = if len == 1 { ((b'a' + (c % 26) as u8) as char).to_string() } else { format!("{}", c) };
            if suffix.len() > len || (len == 1 && c >= 26) {
                break;
            }
            let mut k = vec![b'k'; len - suffix.len()];
            k.extend_from_slice(suffix.as_bytes());
            if hashes_agree(&k, 4) {
                keys.push(k);
                found += 1;
                if found == want {
                    break;
                }
            }
        }
    }
    keys.push(b"k\xff".to_vec());
    keys
}

const VALS: [&[u8]; 8] = [b"v", b"", b"10", b"+5", b"a\r\nb", b"xxxxxxxxxxxxxxxxxxxxxxxxxxxxxx", b"yyyyyyyyyyyyyyyyyyyyyyyyyyyyyyyyyyyyyyyyyyyyy", b"-1"];

fn case_name(rng: &mut Rng, n: &str) -> Vec<u8> {
    match rng.gen_range(0..10) {
        0..=5 => n.to_uppercase().into_bytes(),
        6..=8 => n.to_lowercase().into_bytes(),
        _ => n.bytes().enumerate().map(|(i, c)| if i % 2 == 0 { c.to_ascii_uppercase() } else { c.to_ascii_lowercase() }).collect(),
    }
}

/// one well-formed command frame: (label, bytes)
fn gen_cmd(env: &Env, rng: &mut Rng, in_multi: &mut bool, profile: u32) -> (String, Vec<u8>) {
    let k = env.keys[..env.keys.len() - 1].choose(rng).unwrap().clone();
    let v = VALS.choose(rng).unwrap().to_vec();
    let c = match profile {
        0 => rng.gen_range(0..4),  // GET/SET only
        1 => rng.gen_range(0..20), // everything
        _ => rng.gen_range(0..24), // with transactions
    };
    match c {
        0 | 1 | 4 | 5 => {
            let nm = case_name(rng, "get");
            // occasionally a non-canonical but valid length line, or the non-UTF-8 key
            match rng.gen_range(0..12) {
                0 => {
                    // non-canonical but valid count / length lines: "*+2", "*02", "$+3", "$03", "$+1", "$01"
                    let mut f = format!("*{}2\r\n${}3\r\n", ["", "", "+", "0"].choose(rng).unwrap(), ["", "", "+", "0"].choose(rng).unwrap()).into_bytes();
                    f.extend_from_slice(&nm);
                    f.extend_from_slice(format!("\r\n${}{}\r\n", ["+", "0", "00"].choose(rng).unwrap(), k.len()).as_bytes());
                    f.extend_from_slice(&k);
                    f.extend_from_slice(b"\r\n");
                    ("get-noncanon".into(), f)
                }
                1 => ("get-nonutf8".into(), enc(&[&nm, env.keys.last().unwrap()])),
                _ => ("get".into(), enc(&[&nm, &k])),
            }
        }
        2 | 3 | 6 | 7 => {
            let nm = case_name(rng, "set");
            if rng.gen_range(0..14) == 0 {
                ("set-nonutf8".into(), enc(&[&nm, env.keys.last().unwrap(), &v]))
            } else {
                ("set".into(), enc(&[&nm, &k, &v]))
            }
        }
        8 => ("ping".into(), enc(&[&case_name(rng, "ping")])),
        9 => ("echo".into(), enc(&[b"ECHO", &v])),
        10 => ("incr".into(), enc(&[b"INCR", &k])),
        11 => ("append".into(), enc(&[b"append", &k, &v])),
        12 => {
            let k2 = env.keys[..env.keys.len() - 1].choose(rng).unwrap().clone();
            if rng.gen_bool(0.5) { ("del".into(), enc(&[b"DEL", &k])) } else { ("del2".into(), enc(&[b"DEL", &k, &k2])) }
        }
        13 => ("lpush".into(), enc(&[b"LPUSH", &k, &v, b"z"])),
        14 => ("lrange".into(), enc(&[b"LRANGE", &k, b"0", [b"-1".as_ref(), b"0", b"1"].choose(rng).unwrap()])),
        15 => ("unknown".into(), enc(&[b"FOO", &v])),
        16 => ("arity".into(), enc(&[b"GET"])),
        17 if !env.no_empty => ("empty-name".into(), enc(&[[b"".as_ref(), b" "].choose(rng).unwrap(), &k])),
        17 => ("ping".into(), enc(&[b"PING"])),
        18 => {
            if rng.gen_bool(0.5) { ("get3".into(), enc(&[b"GET", &k, &v])) } else { ("config-crlf".into(), enc(&[b"CONFIG", [b"x\r\n+OK".as_ref(), b"a\nb", b"bogus"].choose(rng).unwrap()])) }
        }
        19 => ("inline-frame".into(), [b"+OK\r\n".to_vec(), b":1\r\n".to_vec(), b"$-1\r\n".to_vec(), b"*0\r\n".to_vec(), b"*-1\r\n".to_vec()].choose(rng).unwrap().clone()),
        20 | 21 => {
            if *in_multi {
                *in_multi = false;
                if rng.gen_bool(0.8) { ("exec".into(), enc(&[b"EXEC"])) } else { ("discard".into(), enc(&[b"DISCARD"])) }
            } else {
                *in_multi = true;
                ("multi".into(), enc(&[b"MULTI"]))
            }
        }
        22 => ("watch".into(), enc(&[b"WATCH", &k])),
        _ => ("exec".into(), { *in_multi = false; enc(&[b"EXEC"]) }),
    }
}

fn gen_malformed(env: &Env, rng: &mut Rng) -> (String, Vec<u8>) {
    let k = env.keys[0].clone();
    let big = ["18446744073709551615", "18446744073709551614", "9223372036854775808", "18446744073709551616", "99999999999999999999999"];
    match rng.gen_range(0..13) {
        0 => ("bad-type".into(), b"?2\r\n$3\r\nGET\r\n$1\r\nk\r\n".to_vec()),
        1 => ("bad-array-len".into(), b"*x\r\n$3\r\nGET\r\n".to_vec()),
        2 => ("bad-bulk-len".into(), format!("*2\r\n$3\r\n{}\r\n$1x\r\nk\r\n", ["GET", "get", "FOO"].choose(rng).unwrap()).into_bytes()),
        3 => ("huge-len-get".into(), format!("*2\r\n$3\r\n{}\r\n${}\r\nk\r\n", ["GET", "get"].choose(rng).unwrap(), big.choose(rng).unwrap()).into_bytes()),
        4 => ("huge-len-set-key".into(), format!("*3\r\n$3\r\nSET\r\n${}\r\nk\r\n$1\r\nv\r\n", big.choose(rng).unwrap()).into_bytes()),
        5 => ("huge-len-set-val".into(), format!("*3\r\n$3\r\nset\r\n$1\r\nk\r\n${}\r\nv\r\n", big.choose(rng).unwrap()).into_bytes()),
        6 => ("neg-len".into(), format!("*2\r\n$3\r\nGET\r\n$-{}\r\nk\r\n", rng.gen_range(2..9)).into_bytes()),
        7 => ("cr-no-lf-get".into(), b"*2\r\n$3\r\nGET\r\n$1\rXk\r\n".to_vec()),
        8 => ("cr-no-lf-set".into(), b"*3\r\n$3\r\nSET\r\n$1\r\nk\r\n$1\rXv\r\n".to_vec()),
        9 => ("cr-no-lf-hdr".into(), b"*2\rX\r\n$3\r\nGET\r\n".to_vec()),
        10 => {
            // one stray byte after the command name: the frame the recognisers of the pinned tree accept
            let x = *[b'X', b'$', b'0', b'\r'].choose(rng).unwrap();
            let mut f = format!("*2\r\n$3\r\n{}\r\n", ["GET", "get"].choose(rng).unwrap()).into_bytes();
            f.push(x);
            f.extend_from_slice(format!("${}\r\n", k.len()).as_bytes());
            f.extend_from_slice(&k);
            f.extend_from_slice(b"\r\n");
            ("stray-byte-get".into(), f)
        }
        11 => {
            let mut f = format!("*3\r\n$3\r\n{}\r\nX", ["SET", "set"].choose(rng).unwrap()).into_bytes();
            f.extend_from_slice(format!("${}\r\n", k.len()).as_bytes());
            f.extend_from_slice(&k);
            f.extend_from_slice(b"\r\n$1\r\nv\r\n");
            ("stray-byte-set".into(), f)
        }
        _ => {
            let mut f = format!("*2\r\n$3\r\nGET\r\nX${}\r\n", big.choose(rng).unwrap()).into_bytes();
            f.extend_from_slice(b"k\r\n");
            ("stray-byte-huge".into(), f)
        }
    }
}

/// a command whose last argument is the empty string, or whose key is empty
fn gen_empty_tail(env: &Env, rng: &mut Rng) -> Vec<(String, Vec<u8>)> {
    let k = env.keys[..env.keys.len() - 1].choose(rng).unwrap().clone();
    let v = VALS.choose(rng).unwrap().to_vec();
    match rng.gen_range(0..10) {
        0 => vec![("echo-empty".into(), enc(&[&case_name(rng, "echo"), b""]))],
        1 => vec![("append-empty".into(), enc(&[b"APPEND", &k, b""]))],
        2 => vec![("set-empty-fast".into(), enc(&[[b"SET".as_ref(), b"set"].choose(rng).unwrap(), &k, b""]))],
        3 => vec![("set-empty-generic".into(), enc(&[b"SeT", &k, b""]))],
        4 => vec![("multi".into(), enc(&[b"MULTI"])), ("set-empty-in-multi".into(), enc(&[b"SET", &k, b""])), ("exec".into(), enc(&[b"EXEC"]))],
        5 => vec![("lpush-empty".into(), enc(&[b"LPUSH", &k, b""]))],
        6 => vec![("lpush-empty-last".into(), enc(&[b"LPUSH", &k, &v, b""]))],
        7 => vec![("get-empty-key".into(), enc(&[&case_name(rng, "get"), b""]))],
        8 => vec![("set-empty-key-and-value".into(), enc(&[b"SET", b"", b""]))],
        _ => vec![("ping-empty".into(), enc(&[b"PING", b""]))],
    }
}

/// SETs / LPUSHes of 1-4 KB values, then a deep pipeline whose replies exceed `target` bytes;
/// returns the frames and whether an MGET (not in the mini backend) was used
fn gen_bulk(env: &Env, rng: &mut Rng, target: usize, huge: Option<usize>) -> (Vec<(String, Vec<u8>)>, bool) {
    let mut frames = Vec::new();
    let nk = rng.gen_range(1..4);
    let mut ks: Vec<(Vec<u8>, usize)> = Vec::new();
    for j in 0..nk {
        let k = env.keys[j % (env.keys.len() - 1)].clone();
        let n = match huge { Some(h) if j == 0 => h, _ => rng.gen_range(1024..4097) };
        let val: Vec<u8> = (0..n).map(|x| b'a' + ((x + j * 7) % 26) as u8).collect();
        frames.push(("set-big".into(), enc(&[[b"SET".as_ref(), b"set", b"sEt"].choose(rng).unwrap(), &k, &val])));
        ks.push((k, n));
    }
    let lk = env.keys[env.keys.len() - 2].clone(); // a key not used above (nk <= 3 < 7 keys)
    let ln = rng.gen_range(1024..3000);
    let lval: Vec<u8> = (0..ln).map(|x| b'A' + (x % 26) as u8).collect();
    let with_list = rng.gen_bool(0.5);
    if with_list {
        frames.push(("lpush-big".into(), enc(&[b"LPUSH", &lk, &lval, &lval])));
    }
    let allow_mget = rng.gen_bool(0.4);
    let mut used_mget = false;
    let mut est = 0usize;
    let pure_get = rng.gen_bool(0.3);
    while est < target + target / 8 {
        let (k, n) = ks.choose(rng).unwrap().clone();
        match if pure_get { 0 } else { rng.gen_range(0..12) } {
            0..=6 => {
                frames.push(("get-big".into(), enc(&[&case_name(rng, "get"), &k])));
                est += n + 12;
            }
            7 if with_list => {
                frames.push(("lrange-big".into(), enc(&[b"LRANGE", &lk, b"0", b"-1"])));
                est += 2 * ln + 30;
            }
            8 => {
                frames.push(("echo-big".into(), enc(&[b"ECHO", &lval])));
                est += ln + 12;
            }
            9 if allow_mget => {
                let (k2, n2) = ks.choose(rng).unwrap().clone();
                frames.push(("mget-big".into(), enc(&[b"MGET", &k, &k2])));
                used_mget = true;
                est += n + n2 + 30;
            }
            10 => frames.push(("ping".into(), enc(&[b"PING"]))),
            _ => {
                frames.push(("get-big".into(), enc(&[b"GET", &k])));
                est += n + 12;
            }
        }
    }
    // at least one command after the mark
    frames.push(("get-big".into(), enc(&[&case_name(rng, "get"), &ks[0].0])));
    (frames, used_mget)
}

struct Stream {
    frames: Vec<(String, Vec<u8>)>,
    bad: Option<(String, Vec<u8>)>,
}
impl Stream {
    fn bytes(&self) -> Vec<u8> {
        let mut v: Vec<u8> = self.frames.iter().flat_map(|f| f.1.clone()).collect();
        if let Some(b) = &self.bad {
            v.extend_from_slice(&b.1);
        }
        v
    }
}

fn gen_stream(env: &Env, rng: &mut Rng, short: bool, malformed: bool) -> Stream {
    let mut frames = Vec::new();
    let mut in_multi = false;
    let shape = rng.gen_range(0..4);
    if short {
        let n = rng.gen_range(1..4);
        for _ in 0..n {
            let f = gen_cmd(env, rng, &mut in_multi, if shape == 0 { 1 } else { 0 });
            if frames.iter().map(|x: &(String, Vec<u8>)| x.1.len()).sum::<usize>() + f.1.len() <= 80 {
                frames.push(f);
            }
        }
        if frames.is_empty() {
            frames.push(("ping".into(), enc(&[b"PING"])));
        }
    } else {
        match shape {
            0 | 1 => {
                // runs of GETs and SETs with counts around the thresholds, other commands in between
                let runs = rng.gen_range(1..5);
                for _ in 0..runs {
                    let n = rng.gen_range(0..9);
                    let p = rng.gen_range(0..2);
                    for _ in 0..n {
                        let mut f = gen_cmd(env, rng, &mut in_multi, 0);
                        while p == 0 && !f.0.starts_with("get") || p == 1 && !f.0.starts_with("set") {
                            f = gen_cmd(env, rng, &mut in_multi, 0);
                        }
                        frames.push(f);
                    }
                    if rng.gen_bool(0.6) {
                        frames.push(gen_cmd(env, rng, &mut in_multi, 1));
                    }
                }
            }
            2 => {
                for _ in 0..rng.gen_range(1..14) {
                    frames.push(gen_cmd(env, rng, &mut in_multi, 1));
                }
            }
            _ => {
                for _ in 0..rng.gen_range(1..16) {
                    frames.push(gen_cmd(env, rng, &mut in_multi, 2));
                }
            }
        }
        if frames.is_empty() {
            frames.push(gen_cmd(env, rng, &mut in_multi, 0));
        }
    }
    let bad = if malformed { Some(gen_malformed(env, rng)) } else { None };
    Stream { frames, bad }
}

fn cut(bytes: &[u8], cuts: &[usize]) -> Vec<Vec<u8>> {
    let mut v = Vec::new();
    let mut p = 0;
    for &c in cuts {
        if c > p && c < bytes.len() {
            v.push(bytes[p..c].to_vec());
            p = c;
        }
    }
    v.push(bytes[p..].to_vec());
    v
}

fn cfg_term_max(c: (usize, usize), max: usize) -> String {
    format!("(mk_cfg {} {} {})", c.0, c.1, max)
}
fn cfg_term(c: (usize, usize)) -> String {
    format!("(mk_cfg {} {} {})", c.0, c.1, MAXBUF)
}

fn main() {
    let argv: Vec<String> = std::env::args().skip(1).collect();
    let args = Args::parse(&argv);
    std::panic::set_hook(Box::new(|_| {}));
    let env = Env {
        rt: tokio::runtime::Builder::new_current_thread().enable_all().build().unwrap(),
        metrics: Arc::new(Metrics::new(&DatadogConfig::from_env())),
        keys: key_alphabet(),
        no_empty: args.get("no_empty", 0) == 1,
    };
    let mut out = Out::new(&args.out, "C04", args.shards, HEADER);
    out.nontrivial_rule = "a case counts when its stream holds at least two commands or a malformed frame and the implementation wrote at least one reply; distinct by (config, shards, reads, output)".into();
    let exh_every = args.get("exh_every", 40);
    for i in 0..args.n {
        if let Some(o) = args.only {
            if o != i {
                continue;
            }
        }
        let mut rng = case_rng(args.seed, i);
        let shards = if rng.gen_bool(0.5) { 1 } else { 4 };
        let cfg = CFGS[rng.gen_range(0..CFGS.len())];
        if i % 40 == 23 {
            // ---- class rbuf: small / default read buffers, totals that are exact multiples, a client that waits
            out.count("kind:rbuf");
            out.count(&format!("cfg:{}/{}", cfg.0, cfg.1));
            out.count(&format!("shards:{}", shards));
            let rbs = *[16usize, 64, 128, 256, 8192].choose(&mut rng).unwrap();
            out.count(&format!("rbuf:read_buffer_size:{}", rbs));
            let mut frames: Vec<(String, Vec<u8>)> = Vec::new();
            let mut im = false;
            for _ in 0..rng.gen_range(1..8) {
                frames.push(gen_cmd(&env, &mut rng, &mut im, 1));
            }
            // a last command padded so that the total is k * rbs (+ 0, + 1, - 1)
            let delta = *[0usize, 0, 0, 1, rbs - 1].choose(&mut rng).unwrap();
            out.count(&format!("rbuf:total_mod_rbs:{}", if delta == 0 { "0 (exact multiple)" } else if delta == 1 { "+1" } else { "-1" }));
            let base: usize = frames.iter().map(|f| f.1.len()).sum();
            let mut padded = None;
            // length of enc(["ECHO", x]) with |x| = l: "*2\r\n$4\r\nECHO\r\n" (14) + "$" + digits + "\r\n" + l + "\r\n"
            let flen = |l: usize| 14 + 1 + l.to_string().len() + 2 + l + 2;
            for l in 0..(3 * rbs + 40) {
                if (base + flen(l)) % rbs == delta {
                    padded = Some(enc(&[b"ECHO", &vec![b'p'; l]]));
                    break;
                }
            }
            frames.push(("echo-pad".into(), padded.expect("pad length exists")));
            let bytes: Vec<u8> = frames.iter().flat_map(|f| f.1.clone()).collect();
            let l = bytes.len();
            // delivery: one piece; or cut at multiples of rbs (every chunk ends on a full read); or cut anywhere
            let chunks: Vec<Vec<u8>> = match rng.gen_range(0..10) {
                0..=4 => vec![bytes.clone()],
                5..=7 => {
                    let k = l / rbs;
                    let mut cs: Vec<usize> = (0..rng.gen_range(1..3)).map(|_| rng.gen_range(0..=k) * rbs).collect();
                    cs.sort();
                    cs.dedup();
                    cut(&bytes, &cs)
                }
                _ => {
                    let mut cs: Vec<usize> = (0..rng.gen_range(1..3)).map(|_| rng.gen_range(0..=l)).collect();
                    cs.sort();
                    cut(&bytes, &cs)
                }
            };
            let chunks: Vec<Vec<u8>> = chunks.into_iter().filter(|c| !c.is_empty()).collect();
            let last_full = chunks.last().map(|c| c.len() % rbs == 0).unwrap_or(false);
            if last_full {
                out.count("rbuf:last_read_exactly_full");
            }
            let waits = rng.gen_range(0..5) != 0;
            out.count(if waits { "rbuf:client_waits_after_last_chunk" } else { "rbuf:eof_after_last_chunk" });
            let items: Vec<FItem> = chunks.iter().map(|c| FItem::Chunk(c.clone())).collect();
            let reads = pieces(&items, rbs);
            let ref_chunks: Vec<Vec<u8>> = frames.iter().map(|f| f.1.clone()).collect();
            let reference = run(&env, shards, (1_000_000_000, 2), &ref_chunks);
            let got = run_seq(&env, 2, &[ConnSpec { via_perf_config: rbs == 128, ..ConnSpec::plain(shards, cfg, rbs, items, waits, None) }]).remove(0);
            out.impl_checks += 2;
            let d = |got: &Ran| json!({"config": [cfg.0, cfg.1], "shards": shards, "read_buffer_size": rbs, "chunk_lengths": chunks.iter().map(|c| c.len()).collect::<Vec<_>>(), "client_waits": waits, "commands": frames.len(), "labels": frames.iter().map(|f| f.0.clone()).collect::<Vec<_>>(), "got": format!("{:?}", got).chars().take(400).collect::<String>(), "stream": if bytes.len() <= 600 { hex(&bytes) } else { format!("{}...({} bytes)", hex(&bytes[..600]), bytes.len()) }});
            let (w, cum, dead) = match &got {
                Ran::Ok(w, c) => (w.clone(), c.clone(), false),
                _ => {
                    out.violation(i, "O1: the handler panicked or hung (class rbuf)", d(&got));
                    (Vec::new(), Vec::new(), true)
                }
            };
            if let (false, Ran::Ok(ref_out, ref_cum)) = (dead, &reference) {
                if w != *ref_out {
                    let n = replies(&w).map(|r| r.len());
                    let what = if w.len() < ref_out.len() && ref_out.starts_with(&w) { "O2: replies are missing although every command has been received in full and the client is waiting (class rbuf)" } else { "O3: output differs from the one-command-per-read reference (class rbuf)" };
                    out.violation(i, what, json!({"replies_received": n, "bytes_received": w.len(), "bytes_expected": ref_out.len(), "case": d(&got)}));
                } else {
                    let mut fed = 0usize;
                    let mut ends = Vec::new();
                    let mut p = 0;
                    for f in &frames {
                        p += f.1.len();
                        ends.push(p);
                    }
                    for (ri, c) in reads.iter().enumerate() {
                        fed += c.len();
                        let done = ends.iter().filter(|&&e| e <= fed).count();
                        let want = if done == 0 { 0 } else { ref_cum[done - 1] };
                        if cum[ri] != want {
                            out.violation(i, "O5: a reply was not written by the read that completed its command (class rbuf)", json!({"read_index": ri, "written_after_it": cum[ri], "expected": want, "case": d(&got)}));
                            break;
                        }
                    }
                }
            }
            let term = if bytes.len() > 3000 {
                let pcs = |b: &Vec<u8>| clist(b.chunks(2000), |p| chex(p));
                format!("(KSegL {} {} {} {} {})", cfg_term(cfg), clist(reads.iter(), |c| pcs(c)), clist(cum.iter(), |c| c.to_string()), pcs(&w), cbool(dead))
            } else {
                format!("(KSeg {} {} {} {} {})", cfg_term(cfg), clist(reads.iter(), |c| chex(c)), clist(cum.iter(), |c| c.to_string()), chex(&w), cbool(dead))
            };
            out.case(i, term, true, &format!("rbuf{:?}{}{}{}{}", cfg, shards, rbs, hex(&bytes), hex(&w)));
            if args.only.is_some() {
                println!("class rbuf\n{}", serde_json::to_string_pretty(&d(&got)).unwrap());
                println!("output {:?}", String::from_utf8_lossy(&w).chars().take(600).collect::<String>());
            }
            continue;
        }
        if i % 40 == 37 {
            // ---- class ovfl: the buffer-overflow arm at its boundary
            out.count("kind:ovfl");
            let m = *[64usize, 128, 256, 1024].choose(&mut rng).unwrap();
            out.count(&format!("ovfl:max_buffer_size:{}", m));
            let mut frames: Vec<(String, Vec<u8>)> = Vec::new();
            let mut im = false;
            for _ in 0..rng.gen_range(0..3) {
                let f = gen_cmd(&env, &mut rng, &mut im, 0);
                if f.1.len() < m / 2 {
                    frames.push(f);
                }
            }
            let want = *[m - 1, m, m, m + 1, m + m / 2].choose(&mut rng).unwrap();
            // an ECHO frame of exactly `want` bytes (or the nearest length that exists)
            let mut big = enc(&[b"ECHO", b""]);
            let flen = |l: usize| 14 + 1 + l.to_string().len() + 2 + l + 2;
            if let Some(l) = (0..(2 * m)).filter(|l| flen(*l) <= want).last() {
                big = enc(&[b"ECHO", &vec![b'o'; l]]);
            }
            let biglen = big.len();
            out.count(&format!("ovfl:big_frame:{}", if biglen < m { "M-1 or less" } else if biglen == m { "exactly M" } else if biglen == m + 1 { "M+1" } else { "> M+1" }));
            let pos = rng.gen_range(0..=frames.len());
            frames.insert(pos, ("echo-big".into(), big));
            if rng.gen_bool(0.5) {
                frames.push(("ping".into(), enc(&[b"PING"])));
            }
            let bytes: Vec<u8> = frames.iter().flat_map(|f| f.1.clone()).collect();
            let items = vec![FItem::Chunk(bytes.clone())];
            let reads = pieces(&items, m);
            let ref_chunks: Vec<Vec<u8>> = frames.iter().map(|f| f.1.clone()).collect();
            let reference = run(&env, shards, (1_000_000_000, 2), &ref_chunks);
            let got = run_seq(&env, 2, &[ConnSpec { max_buf: m, via_perf_config: rng.gen_bool(0.5), ..ConnSpec::plain(shards, cfg, m, items, false, None) }]).remove(0);
            out.impl_checks += 2;
            let d = |got: &Ran| json!({"config": [cfg.0, cfg.1], "shards": shards, "max_buffer_size = read_buffer_size": m, "frame_lengths": frames.iter().map(|f| f.1.len()).collect::<Vec<_>>(), "labels": frames.iter().map(|f| f.0.clone()).collect::<Vec<_>>(), "got": format!("{:?}", match got { Ran::Ok(w, c) => format!("{:?} {:?}", String::from_utf8_lossy(w), c), o => format!("{:?}", o) }).chars().take(700).collect::<String>()});
            const OVERFLOW: &[u8] = b"-ERR buffer overflow\r\n";
            let (w, cum, dead) = match &got {
                Ran::Ok(w, c) => (w.clone(), c.clone(), false),
                _ => {
                    out.violation(i, "O1: the handler panicked or hung (class ovfl)", d(&got));
                    (Vec::new(), Vec::new(), true)
                }
            };
            if let (false, Ran::Ok(ref_out, ref_cum)) = (dead, &reference) {
                let overflowed = w.ends_with(OVERFLOW);
                let body = if overflowed { &w[..w.len() - OVERFLOW.len()] } else { &w[..] };
                // what was written before the error must be the replies of a prefix of the commands
                let is_prefix = ref_out.starts_with(body) && (body.is_empty() || ref_cum.contains(&body.len()));
                if !is_prefix || (!overflowed && w != *ref_out) {
                    out.violation(i, "O7: around max_buffer_size the output is neither the reference output nor replies of a prefix of the commands followed by -ERR buffer overflow", d(&got));
                } else if bytes.len() <= m && overflowed {
                    out.violation(i, "O7: -ERR buffer overflow although the whole stream fits max_buffer_size", d(&got));
                } else if frames.iter().any(|f| f.1.len() > m) && !overflowed {
                    out.violation(i, "O7: a frame longer than max_buffer_size was accepted", d(&got));
                }
            }
            let term = format!("(KSeg {} {} {} {} {})", cfg_term_max(cfg, m), clist(reads.iter(), |c| chex(c)), clist(cum.iter(), |c| c.to_string()), chex(&w), cbool(dead));
            out.case(i, term, true, &format!("ovfl{:?}{}{}{}{}", cfg, shards, m, hex(&bytes), hex(&w)));
            if args.only.is_some() {
                println!("class ovfl\n{}", serde_json::to_string_pretty(&d(&got)).unwrap());
            }
            continue;
        }
        if i % 40 == 31 {
            // ---- class pool: connections one after the other on one buffer pool; the first one ends badly
            out.count("kind:pool");
            out.count(&format!("cfg:{}/{}", cfg.0, cfg.1));
            out.count(&format!("shards:{}", shards));
            let pool_size = *[2usize, 2, 4, 8, 64].choose(&mut rng).unwrap();
            out.count(&format!("pool:buffers:{}", pool_size));
            let mut im = false;
            let mut first: Vec<(String, Vec<u8>)> = Vec::new();
            for _ in 0..rng.gen_range(1..4) {
                first.push(gen_cmd(&env, &mut rng, &mut im, 1));
            }
            // one first connection in five carries a value of 17-40 KB: its buffers grow past 2 x 8192 bytes
            // of capacity and are dropped, not pooled, when the connection ends
            if rng.gen_range(0..5) == 0 {
                let n = rng.gen_range(17_000..40_000);
                first.push(("set-oversized".into(), enc(&[b"SET", &env.keys[0], &vec![b'z'; n]])));
                out.count("pool:first_connection_outgrows_pooled_buffer");
            }
            let fbytes: Vec<u8> = first.iter().flat_map(|f| f.1.clone()).collect();
            let mut vim = false;
            let mut victim: Vec<(String, Vec<u8>)> = Vec::new();
            for _ in 0..rng.gen_range(1..4) {
                victim.push(match rng.gen_range(0..4) { 0 => ("ping".into(), enc(&[b"PING"])), 1 => ("get-missing".into(), enc(&[b"GET", b"nosuchkey"])), _ => gen_cmd(&env, &mut rng, &mut vim, 1) });
            }
            let vbytes: Vec<u8> = victim.iter().flat_map(|f| f.1.clone()).collect();
            let vchunks: Vec<Vec<u8>> = if rng.gen_bool(0.6) { vec![vbytes.clone()] } else { cut(&vbytes, &[rng.gen_range(0..=vbytes.len())]).into_iter().filter(|c| !c.is_empty()).collect() };
            let alone = run(&env, shards, cfg, &vchunks);
            out.impl_checks += 1;
            // one case in four: all connections also share ONE backend (response pools, shard mailboxes);
            // the reference is the same sequence with a fresh buffer pool per connection; oracle only
            let share_state = rng.gen_range(0..4) == 0;
            if share_state {
                out.count("pool:connections_also_share_the_backend");
            }
            // how the first connection ends
            let ending = rng.gen_range(0..10);
            let endings: Vec<(String, Vec<FItem>, Option<usize>)> = match ending {
                0 => vec![("clean-eof".into(), vec![FItem::Chunk(fbytes.clone())], None)],
                1..=4 => {
                    // EOF in the middle of a frame: at every cut for a short stream on the small pools, else one cut
                    let cuts: Vec<usize> = if fbytes.len() <= 90 && pool_size <= 4 && rng.gen_bool(0.6) { (1..fbytes.len()).collect() } else { vec![rng.gen_range(1..fbytes.len())] };
                    cuts.into_iter().map(|c| (format!("eof-mid-stream@{}", c), vec![FItem::Chunk(fbytes[..c].to_vec())], None)).collect()
                }
                5..=7 => {
                    let lim = if rng.gen_bool(0.5) { 0 } else { rng.gen_range(0..6) };
                    vec![(format!("peer-closed-after-{}-reply-bytes", lim), vec![FItem::Chunk(fbytes.clone())], Some(lim))]
                }
                _ => {
                    let c = rng.gen_range(1..=fbytes.len());
                    vec![(format!("read-error-after-{}-bytes", c), vec![FItem::Chunk(fbytes[..c].to_vec()), FItem::ReadErr], None)]
                }
            };
            out.count(&format!("pool:first_connection_ends:{}", endings[0].0.split('@').next().unwrap().split("-after").next().unwrap()));
            let fillers = pool_size / 2 - 1;
            let mut shown: Option<(Vec<u8>, Vec<usize>, bool)> = None;
            let mut nseq = 0u64;
            for (ename, items, wl) in &endings {
                let mut conns = vec![ConnSpec::plain(shards, cfg, 8192, items.clone(), false, *wl)];
                for _ in 0..fillers {
                    conns.push(ConnSpec::plain(1, cfg, 8192, vec![FItem::Chunk(enc(&[b"PING"]))], false, None));
                }
                conns.push(ConnSpec::plain(shards, cfg, 8192, vchunks.iter().map(|c| FItem::Chunk(c.clone())).collect(), false, None));
                let res = run_seq_opt(&env, pool_size, &conns, share_state, false);
                let alone = if share_state { run_seq_opt(&env, pool_size, &conns, true, true).last().cloned().unwrap_or(Ran::Hang) } else { alone.clone() };
                nseq += 1;
                out.impl_checks += conns.len() as u64;
                let d = |res: &Vec<Ran>| json!({"config": [cfg.0, cfg.1], "pool_buffers": pool_size, "connections": conns.len(), "first_connection": {"stream": String::from_utf8_lossy(&fbytes), "ends": ename}, "last_connection_reads": vchunks.iter().map(|c| String::from_utf8_lossy(c).to_string()).collect::<Vec<_>>(), "last_connection_got": format!("{:?}", res.last().map(|r| match r { Ran::Ok(w, c) => format!("{:?} {:?}", String::from_utf8_lossy(w), c), o => format!("{:?}", o) })), "alone_on_a_fresh_pool": format!("{:?}", match &alone { Ran::Ok(w, c) => format!("{:?} {:?}", String::from_utf8_lossy(w), c), o => format!("{:?}", o) })});
                if res.len() != conns.len() || res.iter().any(|r| !matches!(r, Ran::Ok(..))) {
                    out.violation(i, "O1: a connection panicked or hung (class pool)", d(&res));
                    shown = Some((Vec::new(), Vec::new(), true));
                    break;
                }
                // fillers: exactly +PONG
                if res[1..res.len() - 1].iter().any(|r| !matches!(r, Ran::Ok(w, _) if w == b"+PONG\r\n")) {
                    out.violation(i, "O3: a connection that only sent PING on a shared buffer pool was not answered exactly +PONG", d(&res));
                }
                let last = res.last().unwrap().clone();
                if last != alone {
                    let what = match (&last, &alone) {
                        (Ran::Ok(w, _), Ran::Ok(a, _)) if replies(w).map(|r| r.len()) != replies(a).map(|r| r.len()) => "O2/O3: a connection on a shared buffer pool gets a different number of replies than alone on a fresh pool (bytes left in a pooled buffer by an earlier connection)",
                        _ => "O3: a connection on a shared buffer pool is answered differently from the same connection alone on a fresh pool",
                    };
                    out.violation(i, what, d(&res));
                }
                if let Ran::Ok(w, c) = last {
                    if shown.is_none() {
                        shown = Some((w, c, false));
                    }
                }
                if args.only.is_some() {
                    println!("{}", serde_json::to_string_pretty(&d(&res)).unwrap());
                }
            }
            *out.dist.entry("pool:connection_sequences".into()).or_insert(0) += nseq;
            if share_state {
                continue; // the last connection's replies depend on what the earlier ones stored: judged by the oracles only
            }
            let (w, cum, dead) = shown.unwrap_or((Vec::new(), Vec::new(), true));
            let term = format!("(KSeg {} {} {} {} {})", cfg_term(cfg), clist(vchunks.iter(), |c| chex(c)), clist(cum.iter(), |c| c.to_string()), chex(&w), cbool(dead));
            out.case(i, term, true, &format!("pool{:?}{}{}{}{}", cfg, shards, pool_size, hex(&fbytes), hex(&w)));
            continue;
        }
        if i % 40 == 11 {
            // ---- class ttl
            out.count("kind:ttl");
            out.count(&format!("cfg:{}/{}", cfg.0, cfg.1));
            out.count(&format!("shards:{}", shards));
            let k = env.keys[rng.gen_range(0..2)].clone();
            let k2 = env.keys[2].clone();
            let (label, first): (&str, Vec<u8>) = match rng.gen_range(0..8) {
                0..=4 => ("px40", enc(&[b"SET", &k, b"v1", b"PX", b"40"])),
                5..=6 => ("px60000", enc(&[b"SET", &k, b"v1", b"PX", b"60000"])),
                _ => ("no-deadline", enc(&[b"SET", &k, b"v1"])),
            };
            out.count(&format!("ttl:{}", label));
            let mut reads: Vec<(u64, Vec<u8>)> = vec![(0, first)];
            if rng.gen_bool(0.5) {
                reads.push((0, enc(&[&case_name(&mut rng, "get"), &k])));
            }
            // after the pause: one read holding 1-4 plain GETs / SETs (fast path, or the batch when the
            // read is long enough), sometimes preceded by a generic command on the same key
            let mut after = Vec::new();
            let mut ncmd = 0;
            if rng.gen_range(0..5) == 0 {
                after.extend_from_slice(&enc(&[b"LLEN", &k]));
                ncmd += 1;
            }
            for _ in 0..rng.gen_range(1..5) {
                match rng.gen_range(0..6) {
                    0..=3 => after.extend_from_slice(&enc(&[[b"GET".as_ref(), b"get"].choose(&mut rng).unwrap(), &k])),
                    4 => after.extend_from_slice(&enc(&[b"GET", &k2])),
                    _ => after.extend_from_slice(&enc(&[b"SET", &k2, b"w"])),
                }
                ncmd += 1;
            }
            reads.push((90, after));
            reads.push((0, enc(&[b"APPEND", &k, b"x"])));
            reads.push((0, enc(&[b"GET", &k])));
            let ncommands = reads.len() - 1 + ncmd;
            let got = run_timed(&env, shards, cfg, &reads);
            let twin_reads: Vec<(u64, Vec<u8>)> = reads.iter().map(|(p, c)| {
                // respell every frame of the read
                let mut v = Vec::new();
                let mut q = 0;
                while q < c.len() {
                    let e = resp_end(c, q, 0).unwrap();
                    v.extend_from_slice(&generic_spelling(&c[q..e]));
                    q = e;
                }
                (*p, v)
            }).collect();
            let twin = run_timed(&env, shards, cfg, &twin_reads);
            out.impl_checks += 2;
            let d = |got: &Ran, twin: &Ran| json!({"config": [cfg.0, cfg.1], "shards": shards, "reads": reads.iter().map(|(p, c)| format!("pause {} ms, then {:?}", p, String::from_utf8_lossy(c))).collect::<Vec<_>>(), "got": format!("{:?}", match got { Ran::Ok(w, c) => format!("{:?} {:?}", String::from_utf8_lossy(w), c), o => format!("{:?}", o) }), "same_reads_on_the_generic_path": format!("{:?}", match twin { Ran::Ok(w, _) => String::from_utf8_lossy(w).to_string(), o => format!("{:?}", o) })});
            let (w, cum, dead) = match &got {
                Ran::Ok(w, c) => (w.clone(), c.clone(), false),
                _ => {
                    out.violation(i, "O1: the handler panicked or hung (class ttl)", d(&got, &twin));
                    (Vec::new(), Vec::new(), true)
                }
            };
            if !dead {
                if replies(&w).map(|r| r.len()) != Some(ncommands) {
                    out.violation(i, "O2: number of replies differs from number of commands (class ttl)", d(&got, &twin));
                }
                match &twin {
                    Ran::Ok(tw, tc) => {
                        if *tw != w || *tc != cum {
                            out.violation(i, "O6: a plain GET / SET is answered differently from the same command on the generic path (GeT / SeT): the reply depends on the path the command takes", d(&got, &twin));
                        }
                    }
                    _ => out.violation(i, "O1: the handler panicked or hung on the generic-path spelling (class ttl)", d(&got, &twin)),
                }
            }
            // for the model: the clock (ms) at which each read is processed, as scheduled by the script
            let mut clock = 0u64;
            let timed: Vec<String> = reads.iter().map(|(p, c)| { clock += p; format!("({}, {})", clock, chex(c)) }).collect();
            let term = format!("(KTtl {} [{}] {} {} {})", cfg_term(cfg), timed.join("; "), clist(cum.iter(), |c| c.to_string()), chex(&w), cbool(dead));
            out.case(i, term, true, &format!("ttl{:?}{}{}", cfg, shards, hex(&w)));
            if args.only.is_some() {
                println!("class ttl, config {:?}, shards {}", cfg, shards);
                println!("{}", serde_json::to_string_pretty(&d(&got, &twin)).unwrap());
            }
            continue;
        }
        let kind = if i % exh_every == exh_every - 1 { "all2" } else if i % 30 == 7 { "tail" } else if i % 25 == 3 { "bulk" } else if rng.gen_range(0..5) == 0 { "bad" } else { "seg" };
        let mut bulk_model = false;
        let st = if kind == "tail" {
            let mut frames = Vec::new();
            let mut im = false;
            if rng.gen_bool(0.4) {
                frames.push(gen_cmd(&env, &mut rng, &mut im, 0));
            }
            frames.extend(gen_empty_tail(&env, &mut rng));
            if rng.gen_bool(0.3) {
                frames.extend(gen_empty_tail(&env, &mut rng));
            }
            Stream { frames, bad: None }
        } else if kind == "bulk" {
            let target = *[64usize << 10, 128 << 10, 256 << 10].choose(&mut rng).unwrap();
            out.count(&format!("bulk:target_kib:{}", target >> 10));
            // thorough tier: one bulk case in six stores a value of 64 KiB - 1 .. 900 KB (far above any
            // plausible optimisation threshold) and reads it back several times
            let huge = if args.n >= 10000 && rng.gen_range(0..6) == 0 { Some(*[65535usize, 65536, 65537, 131072, 300_000, 900_000].choose(&mut rng).unwrap()) } else { None };
            if let Some(h) = huge {
                out.count(&format!("bulk:huge_value_bytes:{}", h));
            }
            let (frames, mget) = gen_bulk(&env, &mut rng, if huge.is_some() { target.max(256 << 10) } else { target }, huge);
            bulk_model = huge.is_none() && !mget && target == 64 << 10 && rng.gen_range(0..2) == 0;
            Stream { frames, bad: None }
        } else {
            gen_stream(&env, &mut rng, kind == "all2", kind == "bad")
        };
        let bytes = st.bytes();
        let wf: Vec<u8> = st.frames.iter().flat_map(|f| f.1.clone()).collect();
        out.count(&format!("kind:{}", kind));
        out.count(&format!("cfg:{}/{}", cfg.0, cfg.1));
        out.count(&format!("shards:{}", shards));
        for f in &st.frames {
            out.count(&format!("cmd:{}", f.0));
        }
        if let Some(b) = &st.bad {
            out.count(&format!("bad:{}", b.0));
        }
        // reference: one command per read, batching disabled, fresh backend
        let ref_chunks: Vec<Vec<u8>> = st.frames.iter().map(|f| f.1.clone()).collect();
        let reference = run(&env, shards, (1_000_000_000, 2), &ref_chunks);
        out.impl_checks += 1;
        let (ref_out, ref_cum) = match &reference {
            Ran::Ok(w, c) => (w.clone(), c.clone()),
            other => {
                out.violation(i, "O1: the handler panicked or hung on a stream of well-formed commands fed one per read", json!({"result": format!("{:?}", other), "frames": st.frames.iter().map(|f| hex(&f.1)).collect::<Vec<_>>()}));
                (Vec::new(), Vec::new())
            }
        };
        // O2 on the reference run itself
        match replies(&ref_out) {
            Some(r) if r.len() == st.frames.len() => {}
            r => {
                if matches!(reference, Ran::Ok(..)) {
                    out.violation(i, "O2: one command per read: number of replies differs from number of commands", json!({"commands": st.frames.len(), "replies": r.map(|x| x.len()), "out": hex(&ref_out), "frames": st.frames.iter().map(|f| hex(&f.1)).collect::<Vec<_>>()}));
                }
            }
        }
        let short = |b: &[u8]| -> String { if b.len() <= 1500 { hex(b) } else { format!("{}...({} bytes)", hex(&b[..1500]), b.len()) } };
        let detail = |chunks: &[Vec<u8>], got: &Ran| json!({"config": [cfg.0, cfg.1], "shards": shards, "reads": chunks.iter().map(|c| short(c)).collect::<Vec<_>>(), "got": format!("{:?}", got).chars().take(600).collect::<String>(), "reference_output": short(&ref_out), "first_difference_at_byte": match got { Ran::Ok(w, _) => w.iter().zip(ref_out.iter()).position(|(a, b)| a != b).map(|p| p as i64).unwrap_or(-1), _ => -1 }, "output_len": match got { Ran::Ok(w, _) => w.len(), _ => 0 }, "labels": st.frames.iter().map(|f| f.0.clone()).take(40).chain(st.bad.iter().map(|b| b.0.clone())).collect::<Vec<_>>()});
        if kind == "all2" || kind == "tail" {
            // all2: every segmentation into 1, 2, 3 reads; tail: every cut, and every two cuts at most 3 bytes apart
            let l = bytes.len();
            let mut all_ok = true;
            let mut nseg = 0u64;
            'outer: for a in 0..=l {
                for b in a..=(if kind == "tail" { (a + 3).min(l) } else { l }) {
                    let chunks = cut(&bytes, &[a, b]);
                    let got = run(&env, shards, cfg, &chunks);
                    nseg += 1;
                    out.impl_checks += 1;
                    let ok = matches!(&got, Ran::Ok(w, _) if *w == ref_out);
                    if !ok {
                        all_ok = false;
                        let what = match got { Ran::Panic(_) => "O1: the handler panicked (a segmentation into <= 3 reads)", Ran::Hang => "O1: the handler hung (a segmentation into <= 3 reads)", _ => "O3: output differs from the one-command-per-read reference (a segmentation into <= 3 reads)" };
                        out.violation(i, what, detail(&chunks, &got));
                        break 'outer;
                    }
                }
            }
            *out.dist.entry(format!("{}:segmentations", kind)).or_insert(0) += nseg;
            let term = format!("(KAll {} {} {})", cfg_term(cfg), chex(&bytes), chex(&ref_out));
            out.case(i, term, st.frames.len() >= 2 && !ref_out.is_empty(), &format!("{:?}{}{}{}", cfg, shards, hex(&bytes), all_ok));
            if args.only.is_some() {
                println!("stream {}\nreference output {}\nall segmentations into <=3 reads agree: {}", hex(&bytes), hex(&ref_out), all_ok);
            }
            continue;
        }
        // one segmentation
        let l = bytes.len();
        let chunks: Vec<Vec<u8>> = match if kind == "bulk" { [0, 0, 2, 7].choose(&mut rng).copied().unwrap() } else { rng.gen_range(0..7) } {
            0 => vec![bytes.clone()],
            6 => {
                // reads that end inside the last four bytes of a frame
                let mut cs = Vec::new();
                let mut p = 0;
                for f in st.frames.iter().map(|f| &f.1).chain(st.bad.iter().map(|b| &b.1)) {
                    p += f.len();
                    if rng.gen_bool(0.5) {
                        cs.push(p - rng.gen_range(1..=4usize).min(f.len()));
                    }
                }
                cut(&bytes, &cs)
            }
            7 => {
                // two or three large reads
                let mut cs: Vec<usize> = (0..rng.gen_range(1..3)).map(|_| rng.gen_range(0..=l)).collect();
                cs.sort();
                cut(&bytes, &cs)
            }
            1 => st.frames.iter().map(|f| f.1.clone()).chain(st.bad.iter().map(|b| b.1.clone())).collect(),
            2 => {
                let a = rng.gen_range(0..=l);
                cut(&bytes, &[a])
            }
            _ => {
                let k = rng.gen_range(1..(2 + l / 12).min(12));
                let mut cs: Vec<usize> = (0..k).map(|_| rng.gen_range(0..=l)).collect();
                cs.sort();
                cs.dedup();
                cut(&bytes, &cs)
            }
        };
        let mut chunks: Vec<Vec<u8>> = chunks.into_iter().filter(|c| !c.is_empty()).collect();
        // a third of the malformed cases: the connection must stay usable - after the malformed frame (in a
        // read of its own, so that nothing of it is left behind) well-formed commands arrive in later reads
        let mut suffix: Vec<(String, Vec<u8>)> = Vec::new();
        let mut suffix_expected: Vec<u8> = Vec::new();
        if kind == "bad" && rng.gen_range(0..3) == 0 {
            chunks = st.frames.iter().map(|f| f.1.clone()).chain(st.bad.iter().map(|b| b.1.clone())).collect();
            let mut im = false;
            for _ in 0..rng.gen_range(1..4) {
                suffix.push(gen_cmd(&env, &mut rng, &mut im, 1));
            }
            for f in &suffix {
                chunks.push(f.1.clone());
            }
            // what the later commands must be answered: the same commands after the well-formed prefix, without the malformed frame
            let all: Vec<Vec<u8>> = st.frames.iter().map(|f| f.1.clone()).chain(suffix.iter().map(|f| f.1.clone())).collect();
            if let Ran::Ok(wa, _) = run(&env, shards, (1_000_000_000, 2), &all) {
                if wa.starts_with(&ref_out) {
                    suffix_expected = wa[ref_out.len()..].to_vec();
                }
            }
            out.impl_checks += 1;
            out.count("bad:well-formed_commands_after_the_malformed_frame");
        }
        out.count(&format!("reads:{}", chunks.len().min(9)));
        let got = run(&env, shards, cfg, &chunks);
        out.impl_checks += 1;
        let (term_out, term_cum, term_dead) = match &got {
            Ran::Ok(w, c) => (w.clone(), c.clone(), false),
            _ => (Vec::new(), Vec::new(), true),
        };
        match &got {
            Ran::Panic(_) => out.violation(i, "O1: the handler panicked", detail(&chunks, &got)),
            Ran::Hang => out.violation(i, "O1: the handler hung", detail(&chunks, &got)),
            Ran::Ok(w, cum) => {
                if kind != "bad" {
                    if *w != ref_out {
                        let n = replies(w).map(|r| r.len());
                        let what = if n != Some(st.frames.len()) { "O2/O3: number of replies differs from number of commands (output differs from the one-command-per-read reference)" } else { "O3: output differs from the one-command-per-read reference" };
                        out.violation(i, what, detail(&chunks, &got));
                    } else {
                        // O5: after each read, every command completed so far has been answered
                        let mut fed = 0usize;
                        let mut ends = Vec::new();
                        let mut p = 0;
                        for f in &st.frames {
                            p += f.1.len();
                            ends.push(p);
                        }
                        for (ri, c) in chunks.iter().enumerate() {
                            fed += c.len();
                            let done = ends.iter().filter(|&&e| e <= fed).count();
                            let want = if done == 0 { 0 } else { ref_cum[done - 1] };
                            if cum[ri] != want {
                                out.violation(i, "O5: a reply was not written by the read that completed its command", detail(&chunks, &got));
                                break;
                            }
                        }
                    }
                } else {
                    // O4
                    let ok_prefix = w.len() >= ref_out.len() && w[..ref_out.len()] == ref_out[..];
                    let ok_suffix = suffix.is_empty() || (!suffix_expected.is_empty() && w.ends_with(&suffix_expected) && w.len() >= ref_out.len() + suffix_expected.len());
                    if !ok_suffix {
                        out.violation(i, "O4: after a malformed frame the connection does not answer later well-formed commands as it would without the malformed frame", detail(&chunks, &got));
                    }
                    let w_mid_end = if suffix.is_empty() || !ok_suffix { w.len() } else { w.len() - suffix_expected.len() };
                    let w = &w[..w_mid_end].to_vec();
                    let tail = if ok_prefix { replies(&w[ref_out.len()..]) } else { None };
                    let ok_tail = match &tail {
                        Some(t) => !t.is_empty() && t.iter().all(|(s, _)| w[ref_out.len() + s] == b'-'),
                        None => false,
                    };
                    if !(ok_prefix && ok_tail) {
                        let what = if !ok_prefix { "O4: a malformed frame altered the replies to earlier commands" } else if tail.as_ref().map(|t| t.is_empty()).unwrap_or(false) { "O4: a malformed frame got no reply (silence)" } else { "O4: a malformed frame was answered with something other than error replies" };
                        out.violation(i, what, detail(&chunks, &got));
                    }
                }
            }
        }
        if kind == "bulk" {
            out.count(&format!("bulk:replies_kib>={}", (term_out.len() >> 16) << 6));
            if !bulk_model {
                out.count("bulk:judged_by_direct_oracles_only");
                if args.only.is_some() {
                    println!("bulk case: {} commands, {} reads, output {} bytes, reference {} bytes, identical: {}", st.frames.len(), chunks.len(), term_out.len(), ref_out.len(), term_out == ref_out);
                }
                continue;
            }
            out.count("bulk:also_checked_by_the_model");
        }
        let pieces = |b: &Vec<u8>| clist(b.chunks(2000), |p| chex(p));
        let term = if kind == "bulk" {
            format!("(KSegL {} {} {} {} {})", cfg_term(cfg), clist(chunks.iter(), |c| pieces(c)), clist(term_cum.iter(), |c| c.to_string()), pieces(&term_out), cbool(term_dead))
        } else {
            format!("(KSeg {} {} {} {} {})", cfg_term(cfg), clist(chunks.iter(), |c| chex(c)), clist(term_cum.iter(), |c| c.to_string()), chex(&term_out), cbool(term_dead))
        };
        let nontrivial = (st.frames.len() >= 2 || st.bad.is_some()) && !term_out.is_empty();
        out.case(i, term, nontrivial, &format!("{:?}{}{}{}", cfg, shards, chunks.iter().map(|c| hex(c)).collect::<Vec<_>>().join("|"), hex(&term_out)));
        if kind != "bulk" { out.sample(json!({"config": [cfg.0, cfg.1], "shards": shards, "reads": chunks.iter().map(|c| String::from_utf8_lossy(c).to_string()).collect::<Vec<_>>(), "output": String::from_utf8_lossy(&term_out), "kind": kind})); }
        if args.only.is_some() {
            println!("kind {} config {:?} shards {} labels {:?}", kind, cfg, shards, st.frames.iter().map(|f| f.0.clone()).chain(st.bad.iter().map(|b| b.0.clone())).collect::<Vec<_>>());
            for c in &chunks {
                println!("read  {:?}", String::from_utf8_lossy(c));
            }
            println!("implementation: {}", format!("{:?}", got).chars().take(1500).collect::<String>());
            println!("output as text: {:?}", String::from_utf8_lossy(&term_out));
            println!("reference (one command per read, batching off): {:?}", String::from_utf8_lossy(&ref_out));
            let _ = wf;
        }
    }
    out.finish(args.seed);
}

//! probe (temporary)
use redis_sim::production::{ConnectionConfig, ShardedActorState};
use vharness::conn::run_handler;
fn cfg(m: usize, t: usize) -> ConnectionConfig { ConnectionConfig { max_buffer_size: 1 << 20, read_buffer_size: 8192, min_pipeline_buffer: m, batch_threshold: t } }
fn main() {
    let rt = tokio::runtime::Builder::new_current_thread().enable_all().build().unwrap();
    let cases: Vec<(&str, (usize, usize), Vec<&[u8]>)> = vec![
        ("wf get+ping", (1, 2), vec![b"*3\r\n$3\r\nSET\r\n$1\r\nk\r\n$1\r\nv\r\n", b"*2\r\n$3\r\nGET\r\n$1\r\nk\r\n*1\r\n$4\r\nPING\r\n"]),
        ("junk get", (1000, 2), vec![b"*3\r\n$3\r\nSET\r\n$1\r\nk\r\n$1\r\nv\r\n", b"*2\r\n$3\r\nGET\r\nX$1\r\nk\r\n*1\r\n$4\r\nPING\r\n"]),
        ("junk get dropped", (1, 2), vec![b"*3\r\n$3\r\nSET\r\n$1\r\nk\r\n$1\r\nv\r\n", b"*2\r\n$3\r\nGET\r\nX$1\r\nk\r\n*1\r\n$4\r\nPING\r\n"]),
        ("junk get overflow", (1000, 2), vec![b"*2\r\n$3\r\nGET\r\nX$18446744073709551615\r\nk\r\n"]),
    ];
    for (name, (m, t), chunks) in cases {
        let r = std::panic::catch_unwind(|| {
            rt.block_on(async {
                let state = ShardedActorState::with_shards(1);
                run_handler(state, cfg(m, t), chunks.iter().map(|c| c.to_vec()).collect()).await
            })
        });
        match r { Ok((out, marks)) => println!("{}: {:?} {:?}", name, String::from_utf8_lossy(&out), marks), Err(_) => println!("{}: PANIC", name) }
    }
}

//! C09: always-fsync WAL — a write reported durable survives a crash at any instant.
//!
//! The real `spawn_wal_actor` (FsyncPolicy::Always) runs on a scripted `WalStore`
//! implemented here.  The store records every mutating I/O call (create / append / sync)
//! with its outcome, applies a fault script, and after every call remembers the synced
//! length of every file (= the crash image at that instant).  Writer futures are polled
//! through a tracing waker, so the instant at which the actor resolves an ack is recorded
//! in the same log as the I/O calls (program order).
//!
//! Direct oracle (the property itself, on the implementation): for every crash instant
//! (= every call boundary), every write whose ack was resolved `Ok` before that instant is
//! returned, bit-identical, by the real `WalRotator::recover_all_entries` on the crashed
//! image (every file cut to its synced length).
//!
//! Model tie: the schedule (order in which the actor handled the writes, where it flushed)
//! and the recorded log are printed as a Coq case; the model replays the schedule against
//! the recorded outcomes and must produce the same log (calls, outcomes, acks in order) and
//! the same recoverable list and acked set at a sample of crash instants.
use rand::Rng as _;
use redis_sim::redis::SDS;
use redis_sim::replication::lattice::{LamportClock, ReplicaId};
use redis_sim::replication::state::{ReplicatedValue, ReplicationDelta};
use redis_sim::streaming::wal::{WalEntry, WalRotator, WAL_HEADER_SIZE};
use redis_sim::streaming::wal_actor::spawn_wal_actor;
use redis_sim::streaming::wal_config::{FsyncPolicy, WalConfig};
use redis_sim::streaming::wal_store::{InMemoryWalStore, WalError, WalFileReader, WalFileWriter, WalStore};
use serde_json::{json, Value};
use std::collections::{BTreeMap, BTreeSet};
use std::future::Future;
use std::pin::Pin;
use std::sync::{Arc, Mutex};
use std::task::{Context, Poll, Wake, Waker};
use std::time::Duration;
use vharness::util::*;

pub const HEADER: &str = "From RV Require Import Corr.C09.\nLocal Open Scope N_scope.\nLocal Open Scope list_scope.";

// ------------------------------------------------------------------ the scripted store

#[derive(Clone, Copy, Debug, PartialEq, Eq)]
enum Eff {
    None,
    Torn,
    Full,
}
#[derive(Clone, Copy, Debug, PartialEq, Eq)]
enum Outc {
    Ok,
    Err(Eff),
}
#[derive(Clone, Copy, Debug, PartialEq, Eq)]
enum Call {
    Sync(u64),
    Create(u64),
    Hdr(u64),
    Ent(u64, u64, u64), // file sequence, write id, encoded size
    Del(u64),
}
#[derive(Clone, Debug)]
enum Raw {
    Sent(u64),
    Io(Call, Outc),
    Wake(u64),
    /// a task called handle.write_fire_and_forget for this write
    SentFF(u64),
    /// a task called handle.truncate(t)
    TruncSent(u64),
    /// the actor started truncate_before (it lists the store)
    TruncStart,
}
#[derive(Clone, Copy, Debug)]
struct Fault {
    kind: u8,
    frac: u32,
}
#[derive(Default, Clone)]
struct FileImg {
    data: Vec<u8>,
    synced: usize,
    /// end offsets of the items (header / entry / torn piece) appended so far
    ends: Vec<usize>,
    /// per item: the write whose COMPLETE entry it is (None: header, torn piece)
    item_ids: Vec<Option<u64>>,
    /// files are never modified in place: a create() over an existing name or a delete()
    /// retires the old generation, so a snapshot (which names generations) stays valid
    gen: usize,
}
/// What is on disk when an incarnation starts: name -> (bytes, item end offsets).
type Image = BTreeMap<String, (Vec<u8>, Vec<usize>, Vec<Option<u64>>)>;
#[derive(Default)]
struct World {
    files: BTreeMap<String, FileImg>,
    raw: Vec<Raw>,
    /// virtual time (ns since the run started) of every raw item
    raw_t: Vec<u64>,
    t0: Option<tokio::time::Instant>,
    ncalls: usize,
    faults: BTreeMap<usize, Fault>,
    /// snaps[j] = (generation, synced length, length) of every existing file after j mutating calls
    snaps: Vec<Vec<(String, usize, usize, usize)>>,
    clobbered: Vec<String>,
    dead: Vec<FileImg>,
    next_gen: usize,
    /// set once spawn_wal_actor has returned: a later list() is the actor's truncate_before
    running: bool,
    trunc_sent: Vec<u64>,
    vanished: Vec<String>,
    /// the encoded entry of every planned write (whole content: key, value, stamp, replica)
    bytes_of: BTreeMap<u64, Vec<u8>>,
    /// writes sent and not yet seen by the store, per content, in send (= channel) order
    unappended: BTreeMap<Vec<u8>, std::collections::VecDeque<u64>>,
    unknown_appends: usize,
    results: BTreeMap<u64, Result<(), String>>,
}
impl World {
    fn log(&mut self, r: Raw) {
        let now = tokio::time::Instant::now();
        let t0 = *self.t0.get_or_insert(now);
        self.raw_t.push(now.duration_since(t0).as_nanos() as u64);
        self.raw.push(r);
    }
    fn snap(&mut self) {
        let s = self.files.iter().map(|(n, f)| (n.clone(), f.gen, f.synced, f.data.len())).collect();
        self.snaps.push(s);
    }
    fn install(&mut self, name: &str, mut f: FileImg) {
        f.gen = self.next_gen;
        self.next_gen += 1;
        if let Some(old) = self.files.insert(name.to_string(), f) {
            self.dead.push(old);
        }
    }
    fn fault(&mut self) -> Option<Fault> {
        let f = self.faults.get(&self.ncalls).copied();
        self.ncalls += 1;
        f
    }
}
#[derive(Clone)]
struct ScriptStore(Arc<Mutex<World>>);
struct ScriptWriter {
    name: String,
    seq: u64,
    world: Arc<Mutex<World>>,
    size: u64,
    gen: usize,
}
struct ScriptReader(Vec<u8>);

fn seq_of(name: &str) -> u64 {
    name.strip_prefix("wal-").and_then(|s| s.strip_suffix(".wal")).and_then(|s| u64::from_str_radix(s, 16).ok()).unwrap_or(u64::MAX)
}
fn io_err(idx: usize) -> WalError {
    WalError::Io(std::io::Error::new(std::io::ErrorKind::Other, format!("scripted fault at call {}", idx)))
}

impl WalFileWriter for ScriptWriter {
    fn append(&mut self, data: &[u8]) -> Result<u64, WalError> {
        let mut w = self.world.lock().unwrap();
        let idx = w.ncalls;
        let call = if data.len() == WAL_HEADER_SIZE && &data[0..4] == b"RWAL" {
            Call::Hdr(self.seq)
        } else {
            // which write is this?  Decided by the whole encoded content, never by the stamp;
            // writes of identical content are served in the order they were sent
            let id = match w.unappended.get_mut(data).and_then(|q| q.pop_front()) {
                Some(id) => id,
                None => {
                    w.unknown_appends += 1;
                    u64::MAX
                }
            };
            Call::Ent(self.seq, id, data.len() as u64)
        };
        let fault = w.fault();
        let (written, res): (usize, Result<(), WalError>) = match fault {
            None => (data.len(), Ok(())),
            Some(f) => match f.kind % 4 {
                0 => (0, Err(io_err(idx))),
                1 => (0, Err(WalError::DiskFull)),
                2 if data.len() > 1 => {
                    let n = 1 + (f.frac as usize) % (data.len() - 1);
                    (n, Err(WalError::PartialWrite { expected: data.len(), actual: n }))
                }
                _ => (data.len(), Err(io_err(idx))), // everything written, error reported anyway
            },
        };
        let gen = self.gen;
        match w.files.get_mut(&self.name).filter(|f| f.gen == gen) {
            Some(file) => {
                file.data.extend_from_slice(&data[..written]);
                if written > 0 {
                    let e = file.data.len();
                    file.ends.push(e);
                    file.item_ids.push(match call {
                        Call::Ent(_, id, _) if written == data.len() => Some(id),
                        _ => None,
                    });
                }
            }
            None => {
                // the file was deleted or replaced under a live writer
                let n = self.name.clone();
                w.vanished.push(n);
            }
        }
        let outc = match &res {
            Ok(()) => Outc::Ok,
            Err(_) => Outc::Err(if written == 0 { Eff::None } else if written < data.len() { Eff::Torn } else { Eff::Full }),
        };
        if res.is_ok() {
            self.size += data.len() as u64;
        }
        w.log(Raw::Io(call, outc));
        w.snap();
        res.map(|_| self.size)
    }
    fn sync(&mut self) -> Result<(), WalError> {
        let mut w = self.world.lock().unwrap();
        let idx = w.ncalls;
        let fault = w.fault();
        let res = match fault {
            None => {
                let gen = self.gen;
                if let Some(f) = w.files.get_mut(&self.name).filter(|f| f.gen == gen) {
                    f.synced = f.data.len();
                }
                Ok(())
            }
            Some(_) => Err(WalError::FsyncFailed(format!("scripted fault at call {}", idx))),
        };
        let outc = if res.is_ok() { Outc::Ok } else { Outc::Err(Eff::None) };
        w.log(Raw::Io(Call::Sync(self.seq), outc));
        w.snap();
        res
    }
    fn size(&self) -> u64 {
        self.size
    }
}
impl WalFileReader for ScriptReader {
    fn read_all(&mut self) -> Result<Vec<u8>, WalError> {
        Ok(self.0.clone())
    }
}
impl WalStore for ScriptStore {
    type Writer = ScriptWriter;
    type Reader = ScriptReader;
    fn create(&self, name: &str) -> Result<ScriptWriter, WalError> {
        let mut w = self.0.lock().unwrap();
        let idx = w.ncalls;
        let seq = seq_of(name);
        let fault = w.fault();
        let (made, res) = match fault {
            None => (true, Ok(())),
            Some(f) => (f.kind % 2 == 1, Err(io_err(idx))),
        };
        if made {
            if w.files.contains_key(name) {
                w.clobbered.push(name.to_string());
            }
            w.install(name, FileImg::default());
        }
        let gen = w.files.get(name).map(|f| f.gen).unwrap_or(usize::MAX);
        let outc = match (&res, made) {
            (Ok(()), _) => Outc::Ok,
            (Err(_), false) => Outc::Err(Eff::None),
            (Err(_), true) => Outc::Err(Eff::Full),
        };
        w.log(Raw::Io(Call::Create(seq), outc));
        w.snap();
        res.map(|_| ScriptWriter { name: name.to_string(), seq, world: Arc::clone(&self.0), size: 0, gen })
    }
    fn open_read(&self, name: &str) -> Result<ScriptReader, WalError> {
        let w = self.0.lock().unwrap();
        w.files.get(name).map(|f| ScriptReader(f.data.clone())).ok_or_else(|| WalError::NotFound(name.to_string()))
    }
    fn list(&self) -> Result<Vec<String>, WalError> {
        let mut w = self.0.lock().unwrap();
        if w.running {
            w.log(Raw::TruncStart);
        }
        Ok(w.files.keys().cloned().collect())
    }
    fn delete(&self, name: &str) -> Result<(), WalError> {
        let mut w = self.0.lock().unwrap();
        let idx = w.ncalls;
        let fault = w.fault();
        let (gone, res) = match fault {
            None => (true, Ok(())),
            Some(f) => (f.kind % 2 == 1, Err(io_err(idx))),
        };
        if gone {
            if let Some(old) = w.files.remove(name) {
                w.dead.push(old);
            }
        }
        let outc = match (&res, gone) {
            (Ok(()), _) => Outc::Ok,
            (Err(_), false) => Outc::Err(Eff::None),
            (Err(_), true) => Outc::Err(Eff::Full),
        };
        w.log(Raw::Io(Call::Del(seq_of(name)), outc));
        w.snap();
        res
    }
    fn exists(&self, name: &str) -> Result<bool, WalError> {
        Ok(self.0.lock().unwrap().files.contains_key(name))
    }
}

// ------------------------------------------------------------------ tracing waker

struct TraceWake {
    inner: Waker,
    id: u64,
    world: Arc<Mutex<World>>,
}
impl Wake for TraceWake {
    fn wake(self: Arc<Self>) {
        self.wake_by_ref()
    }
    fn wake_by_ref(self: &Arc<Self>) {
        self.world.lock().unwrap().log(Raw::Wake(self.id));
        self.inner.wake_by_ref();
    }
}
/// Polls `fut` with a waker that logs every wake-up (the ack's `oneshot::Sender::send`
/// wakes the waiting writer synchronously, inside the actor's flush).
const SHUT_ID: u64 = u64::MAX; // the traced future is a shutdown(), not a write
struct Traced<'a, T> {
    fut: Pin<Box<dyn Future<Output = T> + Send + 'a>>,
    id: u64,
    world: Arc<Mutex<World>>,
    started: bool,
}
impl<'a, T> Future for Traced<'a, T> {
    type Output = T;
    fn poll(mut self: Pin<&mut Self>, cx: &mut Context<'_>) -> Poll<Self::Output> {
        if !self.started {
            self.started = true;
            let id = self.id;
            let mut w = self.world.lock().unwrap();
            w.log(Raw::Sent(id));
            if let Some(b) = w.bytes_of.get(&id).cloned() {
                w.unappended.entry(b).or_default().push_back(id);
            }
        }
        let tw = Arc::new(TraceWake { inner: cx.waker().clone(), id: self.id, world: Arc::clone(&self.world) });
        let waker = Waker::from(tw);
        let mut cx2 = Context::from_waker(&waker);
        self.fut.as_mut().poll(&mut cx2)
    }
}

// ------------------------------------------------------------------ plans and runs

#[derive(Clone, Debug)]
struct WriteSpec {
    /// name of the write: stamp * 1024 + serial (unique in a history)
    id: u64,
    /// the timestamp passed to write_durable and stored in the entry: may repeat
    ts: u64,
    /// serial used in the key (the write's own serial, or that of the write it duplicates)
    key: u64,
    vlen: usize,
    replica: u64,
    sleep_us: u64,
    /// added to the stamp on the wire (stamps near 2^32, 2^63, u64::MAX)
    ts_off: u64,
    /// sent with write_fire_and_forget (no ack channel)
    ff: bool,
}
fn spec(ts: u64, serial: u64, vlen: usize, sleep_us: u64) -> WriteSpec {
    WriteSpec { id: ts * 1024 + serial, ts, key: serial, vlen, replica: 1 + serial % 3, sleep_us, ts_off: 0, ff: false }
}
fn stamp_of(id: u64) -> u64 {
    id / 1024
}
#[derive(Clone, Debug)]
struct Plan {
    max_file_size: usize,
    max_entries: usize,
    max_wait_us: u64,
    tasks: Vec<Vec<WriteSpec>>,
    faults: BTreeMap<usize, Fault>,
    /// a separate task sends Shutdown at this virtual time, while writers may be in flight
    shutdown_at_us: Option<u64>,
    /// separate tasks call handle.truncate(t) at these virtual times: (at_us, t)
    truncs: Vec<(u64, u64)>,
    ts_off: u64,
}

fn make_delta(s: &WriteSpec) -> ReplicationDelta {
    let replica_id = ReplicaId::new(s.replica);
    let clock = LamportClock { time: s.ts_off + s.ts, replica_id };
    let value: String = (0..s.vlen).map(|j| (b'a' + ((s.key as usize + j) % 26) as u8) as char).collect();
    let replicated = ReplicatedValue::with_value(SDS::from_str(&value), clock);
    ReplicationDelta::new(format!("k{:03}", s.key), replicated, replica_id)
}
fn entry_bytes(s: &WriteSpec) -> Vec<u8> {
    WalEntry::from_delta(&make_delta(s), s.ts_off + s.ts).unwrap().encode()
}

#[derive(Clone, Debug, PartialEq, Eq)]
enum Item {
    Io(Call, Outc),
    Ack(u64, bool),
    Down, // the response to the mid-run Shutdown was sent
    Trunc(u64), // the actor started truncate_before(t)
}
#[derive(Clone, Debug, PartialEq, Eq)]
enum Sched {
    Write(u64, u64),
    WriteFF(u64, u64),
    Flush,
    Shutdown,
    Trunc(u64),
}
struct Run {
    items: Vec<Item>,
    /// the mid-run Shutdown found pending acks (its final flush resolved them)
    shutdown_with_pending: bool,
    silent: Vec<u64>,
    sched: Vec<Sched>,
    sent: Vec<u64>,
    results: BTreeMap<u64, Result<(), String>>,
    /// ids whose ack was resolved Ok before call j+1 started (this incarnation only)
    acked_at: Vec<Vec<u64>>,
    /// ids whose write_durable had returned Ok (observed by the writer task) per instant
    returned_at: Vec<Vec<u64>>,
    ncalls: usize,
    problems: Vec<String>,
    actor_panicked: bool,
    /// final content of every file generation, with item boundaries
    files: BTreeMap<usize, FileImg>,
    snaps: Vec<Vec<(String, usize, usize, usize)>>,
}

/// The real recovery on a given disk image.  `truth` = for every file of the image (in
/// sequence order) the writes whose complete entry lies inside the image, in file order
/// (known from the appends the store saw).  Every recovered entry is matched, by its whole
/// encoded content, with the next not yet matched write of that content in `truth`; an
/// entry that matches nothing (not a written entry, or more copies than were written) is
/// reported in the second component.
fn recover_image(img: &[(String, &[u8])], truth: &[u64], max_file_size: usize, all_bytes: &BTreeMap<u64, Vec<u8>>) -> (Vec<u64>, Vec<String>) {
    let crashed = InMemoryWalStore::new();
    for (name, data) in img {
        let mut wr = crashed.create(name).unwrap();
        if !data.is_empty() {
            wr.append(data).unwrap();
        }
    }
    let rot = WalRotator::new(crashed, max_file_size).unwrap();
    let entries = rot.recover_all_entries().unwrap();
    let mut queues: BTreeMap<&[u8], std::collections::VecDeque<u64>> = BTreeMap::new();
    for id in truth {
        if let Some(b) = all_bytes.get(id) {
            queues.entry(b.as_slice()).or_default().push_back(*id);
        }
    }
    let mut ids = Vec::new();
    let mut bad = Vec::new();
    // the other recovery entry point (the one production uses): recover_entries_after(t) must be
    // recover_all_entries filtered by stamp >= t, as whole deltas, in order
    if !entries.is_empty() {
        let mut stamps: Vec<u64> = entries.iter().map(|e| e.timestamp).collect();
        stamps.sort();
        let t = match entries.len() % 3 {
            0 => 0,
            1 => stamps[stamps.len() / 2],
            _ => *stamps.last().unwrap(),
        };
        let want: Vec<&WalEntry> = entries.iter().filter(|e| e.timestamp >= t).collect();
        match rot.recover_entries_after(t) {
            Ok(ds) => {
                let same = ds.len() == want.len() && ds.iter().zip(want.iter()).all(|(d, e)| WalEntry::from_delta(d, e.timestamp).map(|x| x.data == e.data).unwrap_or(false));
                if !same {
                    bad.push(format!("recover_entries_after({}) returned {} deltas, recover_all_entries has {} entries stamped >= {} (or they differ)", t, ds.len(), want.len(), t));
                }
            }
            Err(e) => bad.push(format!("recover_entries_after({}) failed: {}", t, e)),
        }
    }
    for e in entries {
        let enc = e.encode();
        match queues.get_mut(enc.as_slice()).and_then(|q| q.pop_front()) {
            Some(id) => ids.push(id),
            None => {
                bad.push(format!("stamp {} key {:?}", e.timestamp, e.to_delta().map(|d| d.key).ok()));
                ids.push(u64::MAX);
            }
        }
    }
    (ids, bad)
}

impl Run {
    /// the image a crash at instant j leaves when `cut(synced, len)` bytes of every file
    /// survive, and the writes whose complete entries it holds
    fn image_at(&self, j: usize, mut cut: impl FnMut(usize, usize) -> usize) -> (Vec<(String, &[u8])>, Vec<u64>) {
        let mut files: Vec<(u64, String, &[u8], Vec<u64>)> = Vec::new();
        for (n, g, synced, len) in &self.snaps[j] {
            let f = &self.files[g];
            let c = cut(*synced, *len);
            let ids = f.ends.iter().zip(f.item_ids.iter()).filter(|(e, _)| **e <= c).filter_map(|(_, i)| *i).collect();
            files.push((seq_of(n), n.clone(), &f.data[..c], ids));
        }
        files.sort_by_key(|x| x.0);
        let truth = files.iter().flat_map(|x| x.3.iter().copied()).collect();
        (files.into_iter().map(|x| (x.1, x.2)).collect(), truth)
    }
}

fn run_plan(plan: &Plan, init: &Image) -> Run {
    let world = Arc::new(Mutex::new(World::default()));
    {
        let mut w = world.lock().unwrap();
        w.faults = plan.faults.clone();
        for s in plan.tasks.iter().flatten() {
            w.bytes_of.insert(s.id, entry_bytes(s));
        }
        for (n, (data, ends, item_ids)) in init {
            w.install(n, FileImg { data: data.clone(), synced: data.len(), ends: ends.clone(), item_ids: item_ids.clone(), gen: 0 });
        }
        w.snap();
    }
    let store = ScriptStore(Arc::clone(&world));
    let cfg = WalConfig {
        enabled: true,
        wal_dir: std::path::PathBuf::from("/nonexistent/c09"),
        fsync_policy: FsyncPolicy::Always,
        max_file_size: plan.max_file_size,
        group_commit_max_entries: plan.max_entries,
        group_commit_max_wait: Duration::from_micros(plan.max_wait_us),
        truncation_check_interval: Duration::from_secs(3600),
    };
    let rt = tokio::runtime::Builder::new_current_thread().enable_time().start_paused(true).build().unwrap();
    // (id, number of completed calls when the writer task saw the result)
    let returned: Arc<Mutex<Vec<(u64, usize, bool)>>> = Arc::new(Mutex::new(Vec::new()));
    let mut actor_panicked = false;
    let mut problems = Vec::new();
    rt.block_on(async {
        let (handle, task) = match spawn_wal_actor(store.clone(), cfg) {
            Ok(x) => x,
            Err(e) => {
                problems.push(format!("spawn_wal_actor failed: {}", e));
                return;
            }
        };
        world.lock().unwrap().running = true;
        let mut joins = Vec::new();
        let ts_off = plan.ts_off;
        for (at, t) in plan.truncs.clone() {
            let h = handle.clone();
            let world = Arc::clone(&world);
            joins.push(tokio::spawn(async move {
                if at > 0 {
                    tokio::time::sleep(Duration::from_micros(at)).await;
                }
                {
                    let mut w = world.lock().unwrap();
                    w.log(Raw::TruncSent(t));
                    w.trunc_sent.push(t);
                }
                if t % 2 == 0 {
                    h.sync_tick(); // a no-op under the Always policy
                }
                h.truncate(ts_off.saturating_add(t));
            }));
        }
        for t in &plan.tasks {
            let h = handle.clone();
            let specs = t.clone();
            let world = Arc::clone(&world);
            let returned = Arc::clone(&returned);
            joins.push(tokio::spawn(async move {
                for s in specs {
                    if s.sleep_us > 0 {
                        tokio::time::sleep(Duration::from_micros(s.sleep_us)).await;
                    }
                    let delta = Arc::new(make_delta(&s));
                    if s.ff {
                        {
                            let mut w = world.lock().unwrap();
                            w.log(Raw::SentFF(s.id));
                            if let Some(b) = w.bytes_of.get(&s.id).cloned() {
                                w.unappended.entry(b).or_default().push_back(s.id);
                            }
                        }
                        h.write_fire_and_forget(delta, s.ts_off + s.ts);
                        continue;
                    }
                    let fut = Traced { fut: Box::pin(h.write_durable(delta, s.ts_off + s.ts)), id: s.id, world: Arc::clone(&world), started: false };
                    let r = fut.await;
                    let mut w = world.lock().unwrap();
                    let n = w.ncalls;
                    returned.lock().unwrap().push((s.id, n, r.is_ok()));
                    w.results.insert(s.id, r.map_err(|e| e.to_string()));
                }
            }));
        }
        if let Some(at) = plan.shutdown_at_us {
            let h = handle.clone();
            let world = Arc::clone(&world);
            joins.push(tokio::spawn(async move {
                if at > 0 {
                    tokio::time::sleep(Duration::from_micros(at)).await;
                }
                let fut = Traced { fut: Box::pin(h.shutdown()), id: SHUT_ID, world, started: false };
                fut.await;
            }));
        }
        for j in joins {
            if j.await.is_err() {
                problems.push("a writer task panicked".to_string());
            }
        }
        handle.shutdown().await;
        drop(handle);
        if task.await.is_err() {
            actor_panicked = true;
        }
    });
    drop(rt);
    let mut w = world.lock().unwrap();
    // ---- the log: I/O calls and ack instants (last wake of each writer before it completed)
    let mut last_wake: BTreeMap<u64, usize> = BTreeMap::new();
    let mut sent = Vec::new();
    for (p, r) in w.raw.iter().enumerate() {
        match r {
            Raw::Wake(id) => {
                last_wake.insert(*id, p);
            }
            Raw::Sent(id) if *id != SHUT_ID => sent.push(*id),
            _ => {}
        }
    }
    // writes that never reached the actor: sent after it had stopped ("unavailable"), or
    // still queued when it stopped ("dropped ack channel"); only possible after a Shutdown
    let unhandled: BTreeSet<u64> = w
        .results
        .iter()
        .filter(|(_, r)| matches!(r, Err(e) if e.contains("WAL actor unavailable") || e.contains("WAL actor dropped ack channel")))
        .map(|(id, _)| *id)
        .collect();
    if !unhandled.is_empty() && plan.shutdown_at_us.is_none() {
        problems.push(format!("writes {:?} found the actor gone although no Shutdown was sent", unhandled));
    }
    for r in w.raw.iter() {
        if let Raw::Io(Call::Ent(_, id, _), _) = r {
            if unhandled.contains(id) {
                problems.push(format!("write {} was appended by the actor but its ack channel was dropped", id));
            }
        }
    }
    sent.retain(|id| !unhandled.contains(id));
    // writes whose write_durable gave up after its 5 s timeout: handled by the actor as usual,
    // but the ack it resolves later reaches nobody
    let silent: BTreeSet<u64> = w.results.iter().filter(|(_, r)| matches!(r, Err(e) if e.contains("timed out"))).map(|(id, _)| *id).collect();
    let ff_ids: BTreeSet<u64> = plan.tasks.iter().flatten().filter(|s| s.ff).map(|s| s.id).collect();
    let mut items = Vec::new();
    let mut items_t: Vec<u64> = Vec::new();
    let mut n_trunc = 0usize;
    let mut sizes = BTreeMap::new();
    for (p, r) in w.raw.iter().enumerate() {
        match r {
            Raw::Io(c, o) => {
                if let Call::Ent(_, id, sz) = c {
                    sizes.insert(*id, *sz);
                }
                items.push(Item::Io(*c, *o));
                items_t.push(w.raw_t[p]);
            }
            Raw::TruncStart => {
                match w.trunc_sent.get(n_trunc) {
                    Some(t) => {
                        items.push(Item::Trunc(*t));
                        items_t.push(w.raw_t[p]);
                    }
                    None => problems.push("the store was listed although no truncate request was outstanding".to_string()),
                }
                n_trunc += 1;
            }
            Raw::Wake(id) if *id == SHUT_ID => {
                if last_wake.get(id) == Some(&p) {
                    items.push(Item::Down);
                    items_t.push(w.raw_t[p]);
                }
            }
            Raw::Wake(id) if unhandled.contains(id) || silent.contains(id) => {}
            Raw::Sent(id) if *id == SHUT_ID || unhandled.contains(id) => {}
            Raw::Wake(id) if last_wake.get(id) == Some(&p) => {
                let ok = matches!(w.results.get(id), Some(Ok(())));
                items.push(Item::Ack(*id, ok));
                items_t.push(w.raw_t[p]);
            }
            Raw::Sent(id) if !last_wake.contains_key(id) => {
                // completed without ever being woken (actor unavailable): resolved at send time
                problems.push(format!("write {} completed without an ack wake-up: {:?}", id, w.results.get(id)));
                items.push(Item::Ack(*id, matches!(w.results.get(id), Some(Ok(())))));
                items_t.push(w.raw_t[p]);
            }
            _ => {}
        }
    }
    for id in &sent {
        if !w.results.contains_key(id) {
            problems.push(format!("write {} never completed", id));
        }
        sizes.entry(*id).or_insert_with(|| w.bytes_of[id].len() as u64);
    }
    // ---- the schedule: order in which the actor handled the writes, and where it flushed
    let mut sched = Vec::new();
    let mut mentioned = BTreeSet::new();
    let mut pending = BTreeSet::new();
    let mut in_burst = false;
    let mut burst_t = 0u64;
    let mut shutdown_with_pending = false;
    for (ix, it) in items.iter().enumerate() {
        match it {
            Item::Io(Call::Ent(_, id, sz), o) => {
                if mentioned.insert(*id) {
                    sched.push(if ff_ids.contains(id) { Sched::WriteFF(*id, *sz) } else { Sched::Write(*id, *sz) });
                }
                if *o == Outc::Ok && !ff_ids.contains(id) && !silent.contains(id) {
                    pending.insert(*id);
                }
                in_burst = false;
            }
            Item::Io(Call::Sync(_), Outc::Ok) if !matches!(items.get(ix + 1), Some(Item::Io(Call::Create(_), _)) | Some(Item::Ack(..))) => {
                // an fsync that is neither the one rotate() issues (a create follows) nor
                // followed by acks: a flush of a batch in which nobody waits for an ack
                // (fire-and-forget entries, writers that timed out)
                sched.push(Sched::Flush);
                burst_t = items_t[ix];
                in_burst = true;
            }
            Item::Io(_, _) => in_burst = false,
            Item::Ack(id, _) => {
                if pending.remove(id) {
                    if !in_burst {
                        sched.push(Sched::Flush);
                        burst_t = items_t[ix];
                        in_burst = true;
                    }
                } else {
                    if mentioned.insert(*id) {
                        sched.push(Sched::Write(*id, sizes[id]));
                    }
                    in_burst = false;
                }
            }
            Item::Trunc(t) => {
                sched.push(Sched::Trunc(*t));
                in_burst = false;
            }
            Item::Down => {
                // the acks just before the response are the Shutdown's own final flush
                // (same virtual instant; a batch flushed earlier is a flush of its own)
                if in_burst && sched.last() == Some(&Sched::Flush) && burst_t == items_t[ix] {
                    sched.pop();
                    shutdown_with_pending = true;
                }
                sched.push(Sched::Shutdown);
                in_burst = false;
            }
        }
    }
    let handled: Vec<u64> = sched.iter().filter_map(|s| if let Sched::Write(id, _) = s { Some(*id) } else { None }).collect();
    if handled != sent {
        problems.push(format!("writes handled in order {:?} but sent in order {:?}", handled, sent));
    }
    if !w.clobbered.is_empty() {
        problems.push(format!("create() replaced (truncated) existing WAL file(s) {:?}", w.clobbered));
    }
    if w.unknown_appends > 0 {
        problems.push(format!("{} appended entries are not the encoding of any write that was sent", w.unknown_appends));
    }
    if !w.vanished.is_empty() {
        problems.push(format!("file(s) {:?} were deleted or replaced while a writer was still appending to them", w.vanished));
    }
    let ncalls = w.ncalls;
    // ---- who was acked before call j+1 started
    let mut acked_at = Vec::new();
    {
        let mut cur: Vec<u64> = Vec::new();
        let mut calls = 0usize;
        for it in &items {
            match it {
                Item::Io(_, _) => {
                    if calls == acked_at.len() {
                        let mut c = cur.clone();
                        c.sort();
                        acked_at.push(c);
                    }
                    calls += 1;
                }
                Item::Ack(id, true) => cur.push(*id),
                _ => {}
            }
        }
        while acked_at.len() <= ncalls {
            let mut c = cur.clone();
            c.sort();
            acked_at.push(c);
        }
    }
    let ret = returned.lock().unwrap();
    let returned_at: Vec<Vec<u64>> = (0..=ncalls)
        .map(|j| {
            let mut v: Vec<u64> = ret.iter().filter(|(_, n, ok)| *ok && *n <= j).map(|(id, _, _)| *id).collect();
            v.sort();
            v
        })
        .collect();
    Run {
        items,
        shutdown_with_pending,
        silent: silent.iter().copied().collect(),
        sched,
        sent,
        results: w.results.clone(),
        acked_at,
        returned_at,
        ncalls,
        problems,
        actor_panicked,
        files: {
            let dead = std::mem::take(&mut w.dead);
            std::mem::take(&mut w.files).into_values().chain(dead).map(|f| (f.gen, f)).collect()
        },
        snaps: std::mem::take(&mut w.snaps),
    }
}

// ------------------------------------------------------------------ the repo's own stores

/// The same writers on one of the repo's own stores (no faults, no tracing): every write
/// reported durable must be read back - from the InMemoryWalStore after its own
/// simulate_crash(), from the LocalWalStore (real files, sync_all) by a fresh store object
/// on the same directory.  Returns a description of what is missing, if anything.
fn run_on_repo_store(plan: &Plan, local_dir: Option<&std::path::Path>) -> Option<String> {
    use redis_sim::streaming::wal_store::LocalWalStore;
    let cfg = WalConfig {
        enabled: true,
        wal_dir: std::path::PathBuf::from("/nonexistent/c09"),
        fsync_policy: FsyncPolicy::Always,
        max_file_size: plan.max_file_size,
        group_commit_max_entries: plan.max_entries,
        group_commit_max_wait: Duration::from_micros(plan.max_wait_us.min(4000)),
        truncation_check_interval: Duration::from_secs(3600),
    };
    let rt = tokio::runtime::Builder::new_current_thread().enable_time().start_paused(true).build().unwrap();
    let mem = InMemoryWalStore::new();
    let acked: Arc<Mutex<Vec<Vec<u8>>>> = Arc::new(Mutex::new(Vec::new()));
    let mut err = None;
    rt.block_on(async {
        let spawned = match local_dir {
            Some(d) => LocalWalStore::new(d.to_path_buf()).and_then(|s| spawn_wal_actor(s, cfg)),
            None => spawn_wal_actor(mem.clone(), cfg),
        };
        let (handle, task) = match spawned {
            Ok(x) => x,
            Err(e) => {
                err = Some(format!("spawn_wal_actor failed: {}", e));
                return;
            }
        };
        let mut joins = Vec::new();
        for t in &plan.tasks {
            let h = handle.clone();
            let specs = t.clone();
            let acked = Arc::clone(&acked);
            joins.push(tokio::spawn(async move {
                for s in specs {
                    if s.sleep_us > 0 {
                        tokio::time::sleep(Duration::from_micros(s.sleep_us)).await;
                    }
                    let delta = Arc::new(make_delta(&s));
                    if s.ff {
                        h.write_fire_and_forget(delta, s.ts_off + s.ts);
                    } else if h.write_durable(delta, s.ts_off + s.ts).await.is_ok() {
                        acked.lock().unwrap().push(entry_bytes(&s));
                    }
                }
            }));
        }
        for j in joins {
            let _ = j.await;
        }
        handle.shutdown().await;
        drop(handle);
        if task.await.is_err() {
            err = Some("the WAL actor task panicked".to_string());
        }
    });
    drop(rt);
    if err.is_some() {
        return err;
    }
    let entries = match local_dir {
        Some(d) => LocalWalStore::new(d.to_path_buf()).and_then(|s| WalRotator::new(s, plan.max_file_size)).and_then(|r| r.recover_all_entries()),
        None => {
            mem.simulate_crash();
            WalRotator::new(mem.clone(), plan.max_file_size).and_then(|r| r.recover_all_entries())
        }
    };
    let entries = match entries {
        Ok(e) => e,
        Err(e) => return Some(format!("recovery failed: {}", e)),
    };
    let mut have: BTreeMap<Vec<u8>, usize> = BTreeMap::new();
    for e in &entries {
        *have.entry(e.encode()).or_insert(0) += 1;
    }
    let mut missing = 0usize;
    for b in acked.lock().unwrap().iter() {
        match have.get_mut(b) {
            Some(n) if *n > 0 => *n -= 1,
            _ => missing += 1,
        }
    }
    if missing > 0 {
        Some(format!("{} of {} writes reported durable are not read back ({} entries recovered)", missing, acked.lock().unwrap().len(), entries.len()))
    } else {
        None
    }
}

// ------------------------------------------------------------------ generators

fn entry_size(s: &WriteSpec) -> usize {
    entry_bytes(s).len()
}

/// Fixed regression scenarios (independent of the seed): the probe of DESIGN §4 row 8
/// and the append-error variants.
fn fixed_plan(i: u64) -> Option<Plan> {
    let six = |sleep: u64| -> Vec<Vec<WriteSpec>> { (1..=6).map(|id| vec![spec(id, id, 2, sleep)]).collect() };
    match i {
        // 6 concurrent durable writes, max_file_size 200: the batch straddles rotations
        0 => Some(Plan { max_file_size: 200, max_entries: 8, max_wait_us: 50, tasks: six(0), faults: BTreeMap::new(), shutdown_at_us: None, truncs: Vec::new(), ts_off: 0 }),
        // one file; the append of the 4th entry of the batch fails with nothing written
        1 => Some(Plan { max_file_size: 1 << 20, max_entries: 8, max_wait_us: 50, tasks: six(0), faults: [(5usize, Fault { kind: 0, frac: 0 })].into_iter().collect(), shutdown_at_us: None, truncs: Vec::new(), ts_off: 0 }),
        // partial append in the middle of the batch
        2 => Some(Plan { max_file_size: 1 << 20, max_entries: 8, max_wait_us: 50, tasks: six(0), faults: [(4usize, Fault { kind: 2, frac: 40 })].into_iter().collect(), shutdown_at_us: None, truncs: Vec::new(), ts_off: 0 }),
        // rotation in the batch and the new file cannot be created
        3 => Some(Plan { max_file_size: 200, max_entries: 8, max_wait_us: 50, tasks: six(0), faults: [(4usize, Fault { kind: 0, frac: 0 })].into_iter().collect(), shutdown_at_us: None, truncs: Vec::new(), ts_off: 0 }),
        // Shutdown arrives inside the group-commit wait window of an open batch and the final fsync fails
        4 => Some(Plan { max_file_size: 1 << 20, max_entries: 8, max_wait_us: 50, tasks: six(0), faults: [(8usize, Fault { kind: 0, frac: 0 })].into_iter().collect(), shutdown_at_us: Some(10), truncs: Vec::new(), ts_off: 0 }),
        // the same, the final fsync succeeds
        5 => Some(Plan { max_file_size: 1 << 20, max_entries: 8, max_wait_us: 50, tasks: six(0), faults: BTreeMap::new(), shutdown_at_us: Some(10), truncs: Vec::new(), ts_off: 0 }),
        // Shutdown queued behind a batch that straddles a rotation; the final fsync fails
        6 => Some(Plan { max_file_size: 200, max_entries: 64, max_wait_us: 200, tasks: six(0), faults: [(11usize, Fault { kind: 0, frac: 0 })].into_iter().collect(), shutdown_at_us: Some(0), truncs: Vec::new(), ts_off: 0 }),
        _ => None,
    }
}

/// Fixed regression histories: a list of (plan, instant at which that incarnation is crashed).
fn fixed_history(i: u64) -> Option<Vec<(Plan, Option<usize>)>> {
    if let Some(p) = fixed_plan(i) {
        return Some(vec![(p, None)]);
    }
    let one = |id: u64, sleep_us: u64| vec![spec(id, id, 2, sleep_us)];
    match i {
        // rotation, crash between the creation of the new file and its first fsync, restart,
        // more writes: the new incarnation must not reuse (truncate) wal-00000001.wal
        7 => {
            let a = Plan { max_file_size: 200, max_entries: 3, max_wait_us: 50, tasks: (1..=6).map(|id| one(id, 0)).collect(), faults: BTreeMap::new(), shutdown_at_us: None, truncs: Vec::new(), ts_off: 0 };
            let b = Plan { max_file_size: 200, max_entries: 3, max_wait_us: 50, tasks: (7..=8).map(|id| one(id, 0)).collect(), faults: BTreeMap::new(), shutdown_at_us: None, truncs: Vec::new(), ts_off: 0 };
            Some(vec![(a, Some(8)), (b, None)])
        }
        // a closed file holds the stamps 5, 1, 3 (in that order); TruncateUpTo(3) must keep it
        8 => Some(vec![(
            Plan { max_file_size: 200, max_entries: 8, max_wait_us: 50, tasks: vec![one(5, 0), one(1, 0), one(3, 0), one(9, 2000)], faults: BTreeMap::new(), shutdown_at_us: None, truncs: vec![(5000, 3)], ts_off: 0 },
            None,
        )]),
        // the same with TruncateUpTo(5): the file may go, 9 must stay
        9 => Some(vec![(
            Plan { max_file_size: 200, max_entries: 8, max_wait_us: 50, tasks: vec![one(5, 0), one(1, 0), one(3, 0), one(9, 2000)], faults: BTreeMap::new(), shutdown_at_us: None, truncs: vec![(5000, 5)], ts_off: 0 },
            None,
        )]),
        // stamps 1,1,2,2,3,3 sent sequentially, one entry per file: a rotation between every pair
        10 => Some(vec![(
            Plan { max_file_size: 17, max_entries: 8, max_wait_us: 50, tasks: vec![(1..=6u64).map(|k| spec((k + 1) / 2, k, 2, 0)).collect()], faults: BTreeMap::new(), shutdown_at_us: None, truncs: Vec::new(), ts_off: 0 },
            None,
        )]),
        // the same stamps as one concurrent batch, three entries per file: the rotation falls between the two 2s
        11 => Some(vec![(
            Plan { max_file_size: 200, max_entries: 8, max_wait_us: 50, tasks: (1..=6u64).map(|k| vec![spec((k + 1) / 2, k, 2, 0)]).collect(), faults: BTreeMap::new(), shutdown_at_us: None, truncs: Vec::new(), ts_off: 0 },
            None,
        )]),
        // identical content written three times (same key, value, stamp), one entry per file
        12 => Some(vec![(
            Plan { max_file_size: 17, max_entries: 8, max_wait_us: 50, tasks: vec![(1..=3u64).map(|k| WriteSpec { id: 7 * 1024 + k, ts: 7, key: 1, vlen: 2, replica: 1, sleep_us: 0, ts_off: 0, ff: false }).collect()], faults: BTreeMap::new(), shutdown_at_us: None, truncs: Vec::new(), ts_off: 0 },
            None,
        )]),
        _ => None,
    }
}

struct Shape {
    max_file_size: usize,
    max_entries: usize,
    max_wait_us: u64,
}

/// History-level choices of the generator.
#[derive(Clone, Copy)]
struct Flavour {
    /// all entries have the same encoded size (so `max_file_size` can put the rotation
    /// point exactly after every k-th entry)
    eq_vlen: Option<usize>,
    /// some writes repeat the whole content (key, value, stamp, replica) of an earlier one
    dup_content: bool,
    /// added to every stamp on the wire: 0, near 2^32, near 2^63, near u64::MAX
    ts_off: u64,
    /// some writes go through write_fire_and_forget (fault-free histories)
    ff: bool,
    /// group_commit_max_wait = 6 s with batches that never fill: write_durable's 5 s timeout fires
    timeout: bool,
    /// the store holds leftovers when the first incarnation starts
    leftovers: bool,
    /// 0 = usual sizes; 1 = a batch of 66..130 concurrent writers; 2 = 257..300 (channel capacity 256); 3 = a few KiB..1 MiB values
    big: u8,
    thorough: bool,
}
impl Flavour {
    fn fault_free(&self) -> bool {
        self.dup_content || self.ff || self.timeout
    }
}

/// Stamps of n writes, in the order in which they reach the actor when the writes are
/// sent sequentially or as one concurrent batch.
fn gen_stamps(rng: &mut Rng, n: usize, base: u64) -> (Vec<u64>, &'static str) {
    let r = rng.gen_range(0..100u32);
    if r < 30 {
        let mut v: Vec<u64> = (0..n as u64).map(|i| base + 1 + i).collect();
        if rng.gen_bool(0.65) {
            use rand::seq::SliceRandom;
            v.shuffle(rng);
            (v, "stamps:distinct-shuffled")
        } else {
            (v, "stamps:distinct-increasing")
        }
    } else if r < 48 {
        ((0..n as u64).map(|i| base + 1 + i / 2).collect(), "stamps:pairs(1,1,2,2,3,3)")
    } else if r < 58 {
        (vec![base + 1; n], "stamps:all-equal")
    } else if r < 72 {
        let mut v = Vec::new();
        let mut t = base + 1;
        while v.len() < n {
            for _ in 0..rng.gen_range(1..=4usize) {
                v.push(t);
            }
            t += 1;
        }
        v.truncate(n);
        (v, "stamps:runs-of-equal")
    } else if r < 82 {
        ((0..n as u64).map(|i| base + n as u64 - i).collect(), "stamps:decreasing")
    } else if r < 90 {
        // decreasing with repeats
        ((0..n as u64).map(|i| base + 1 + (n as u64 - 1 - i) / 2).collect(), "stamps:decreasing-pairs")
    } else {
        ((0..n).map(|_| base + rng.gen_range(1..=3u64)).collect(), "stamps:random-from-3-values")
    }
}

fn gen_tasks(rng: &mut Rng, first_serial: u64, fl: Flavour, labels: &mut Vec<String>) -> Vec<Vec<WriteSpec>> {
    let sleeps = [0u64, 0, 10, 1000, 1000, 2000, 2000, 3000, 5000];
    let mode = rng.gen_range(0..100u32);
    // shape: (number of tasks, writes per task, concurrent?)
    let counts: Vec<usize> = if fl.big == 1 {
        labels.push("writers:one-concurrent-batch-of-66..130".into());
        vec![1; *[66usize, 127, 128, 129, 130].get(rng.gen_range(0..5)).unwrap()]
    } else if fl.big == 2 {
        labels.push("writers:one-concurrent-batch-of-255..300(channel-capacity-256)".into());
        vec![1; *[255usize, 256, 257, 300].get(rng.gen_range(0..4)).unwrap()]
    } else if fl.timeout {
        labels.push("writers:few(5s-timeout-fires)".into());
        vec![1; rng.gen_range(1..=4usize)]
    } else if mode < 22 {
        labels.push("writers:one-task-sequential".into());
        vec![rng.gen_range(2..=10usize)]
    } else if mode < 44 {
        labels.push("writers:one-concurrent-batch".into());
        vec![1; rng.gen_range(2..=10usize)]
    } else {
        labels.push("writers:mixed".into());
        (0..rng.gen_range(1..=6usize)).map(|_| rng.gen_range(1..=4usize)).collect()
    };
    let concurrent = fl.big == 1 || fl.big == 2 || fl.timeout || mode < 44 || rng.gen_bool(0.6);
    let n: usize = counts.iter().sum();
    // stamps may also repeat across incarnations: restart low now and then
    let base = if rng.gen_bool(0.5) { 0 } else { first_serial };
    let (stamps, label) = gen_stamps(rng, n, base);
    labels.push(label.into());
    let mut serial = first_serial;
    let mut k = 0usize;
    let mut tasks: Vec<Vec<WriteSpec>> = counts
        .iter()
        .map(|c| {
            (0..*c)
                .map(|_| {
                    serial += 1;
                    let vlen = if fl.big == 3 && rng.gen_bool(0.4) {
                        let sizes: &[usize] = if fl.thorough { &[4095, 4096, 8192, 65535, 65536, 65537, 1 << 20] } else { &[4095, 4096, 8192, 65536] };
                        sizes[rng.gen_range(0..sizes.len())]
                    } else {
                        fl.eq_vlen.unwrap_or_else(|| *[0usize, 1, 2, 2, 5, 17, 40].get(rng.gen_range(0..7)).unwrap())
                    };
                    let sleep_us = if concurrent { 0 } else { sleeps[rng.gen_range(0..sleeps.len())] };
                    let mut s = spec(stamps[k], serial, vlen, sleep_us);
                    s.ts_off = fl.ts_off;
                    s.ff = fl.ff && rng.gen_bool(0.4);
                    k += 1;
                    s
                })
                .collect()
        })
        .collect();
    if fl.dup_content {
        // a later write repeats the whole content of an earlier one (same key, value, stamp, replica)
        let flat: Vec<WriteSpec> = tasks.iter().flatten().cloned().collect();
        let mut first = true;
        for s in tasks.iter_mut().flatten() {
            if !first && rng.gen_bool(0.4) {
                let src = &flat[rng.gen_range(0..flat.len())];
                if src.id != s.id {
                    let serial = s.id % 1024;
                    *s = WriteSpec { id: src.ts * 1024 + serial, ts: src.ts, key: src.key, vlen: src.vlen, replica: src.replica, sleep_us: s.sleep_us, ts_off: src.ts_off, ff: false };
                }
            }
            first = false;
        }
    }
    tasks
}

fn gen_shape(rng: &mut Rng, tasks: &[Vec<WriteSpec>], fl: Flavour) -> Shape {
    let all: Vec<&WriteSpec> = tasks.iter().flatten().collect();
    let avg: usize = all.iter().map(|s| entry_size(s)).sum::<usize>() / all.len();
    // rotation threshold: sweep from "every entry rotates" to "never rotates"
    let per_file = rng.gen_range(0..=5usize);
    let max_file_size = if fl.eq_vlen.is_some() && rng.gen_bool(0.7) {
        // exactly k entries per file: over the cases the rotation point falls between every adjacent pair
        // ... and one byte below / above the exact multiple
        WAL_HEADER_SIZE + rng.gen_range(1..=4usize) * avg + *[0usize, 0, 1].get(rng.gen_range(0..3)).unwrap() - *[0usize, 0, 1].get(rng.gen_range(0..3)).unwrap()
    } else if per_file == 5 {
        1 << 20
    } else {
        WAL_HEADER_SIZE + 1 + per_file * avg + rng.gen_range(0..avg)
    };
    let max_entries = if fl.big == 1 || fl.big == 2 {
        *[63usize, 64, 65, 128, 256, 1000].get(rng.gen_range(0..6)).unwrap()
    } else if fl.timeout {
        64
    } else {
        *[1usize, 2, 3, 4, 8, 8, 64, 63, 65].get(rng.gen_range(0..9)).unwrap()
    };
    let max_wait_us = if fl.timeout { 6_000_000 } else { *[0u64, 50, 50, 200, 2000, 4000].get(rng.gen_range(0..6)).unwrap() };
    Shape { max_file_size, max_entries, max_wait_us }
}

/// Plant faults on the I/O calls of `plan` (a dry run tells how many calls there are).
fn plant_faults(rng: &mut Rng, plan: &mut Plan, init: &Image, multi: u64) -> String {
    let dry = run_plan(plan, init);
    let n0 = dry.ncalls.max(1);
    if plan.shutdown_at_us.is_some() {
        // the fsync of the Shutdown's final flush, if it resolved pending acks in the dry run
        let mut calls = 0usize;
        let mut last: Option<(usize, bool)> = None;
        let mut acks_since = 0usize;
        let mut target = None;
        for it in &dry.items {
            match it {
                Item::Io(c, _) => {
                    last = Some((calls, matches!(c, Call::Sync(_))));
                    calls += 1;
                    acks_since = 0;
                }
                Item::Ack(..) => acks_since += 1,
                Item::Trunc(_) => acks_since = 0,
                Item::Down => {
                    if let Some((idx, true)) = last {
                        if acks_since > 0 && dry.shutdown_with_pending {
                            target = Some(idx);
                        }
                    }
                }
            }
        }
        if let Some(idx) = target {
            if rng.gen_bool(0.5) {
                plan.faults.insert(idx, Fault { kind: rng.gen_range(0..4), frac: rng.gen() });
                if multi == 0 || rng.gen_bool(0.5) {
                    return "faults:on-shutdown-fsync".to_string();
                }
            }
        }
    }
    let mode = rng.gen_range(0..100u32);
    let nf = if multi == 0 {
        if mode < 10 { 0 } else { 1 }
    } else if mode < 5 {
        0
    } else if mode < 30 {
        1
    } else if mode < 75 {
        2
    } else {
        3 + rng.gen_range(0..4usize)
    };
    if nf == 2 && rng.gen_bool(0.5) {
        // two faults close together (e.g. append fails, then the fsync of that file fails)
        let a = rng.gen_range(0..n0 + 2);
        let b = a + rng.gen_range(1..=3usize);
        for p in [a, b] {
            plan.faults.insert(p, Fault { kind: rng.gen_range(0..4), frac: rng.gen() });
        }
        "faults:2-adjacent".to_string()
    } else {
        for _ in 0..nf {
            let p = rng.gen_range(0..n0 + 2 * nf + 1);
            plan.faults.insert(p, Fault { kind: rng.gen_range(0..4), frac: rng.gen() });
        }
        format!("faults:{}", plan.faults.len().min(3))
    }
}

// ------------------------------------------------------------------ printing

fn c_outc(o: &Outc) -> &'static str {
    match o {
        Outc::Ok => "OK",
        Outc::Err(Eff::None) => "EN",
        Outc::Err(Eff::Torn) => "ET",
        Outc::Err(Eff::Full) => "EF",
    }
}
fn c_call(c: &Call) -> String {
    match c {
        Call::Sync(s) => format!("(CS {})", s),
        Call::Create(s) => format!("(CC {})", s),
        Call::Hdr(s) => format!("(CH {})", s),
        Call::Ent(s, id, _) => format!("(CE {} {})", s, id),
        Call::Del(s) => format!("(CD {})", s),
    }
}
fn c_item(i: &Item) -> String {
    match i {
        Item::Io(c, o) => format!("IO {} {}", c_call(c), c_outc(o)),
        Item::Ack(id, ok) => format!("AK {} {}", id, cbool(*ok)),
        Item::Down => "DN".to_string(),
        Item::Trunc(t) => format!("TR {}", t),
    }
}
fn c_sched(s: &Sched) -> String {
    match s {
        Sched::Write(id, sz) => format!("SW {} {}", id, sz),
        Sched::WriteFF(id, sz) => format!("SWF {} {}", id, sz),
        Sched::Flush => "SF".to_string(),
        Sched::Shutdown => "SD".to_string(),
        Sched::Trunc(t) => format!("ST {}", t),
    }
}
fn c_ids(v: &[u64]) -> String {
    clist(v.iter(), |x| x.to_string())
}
/// the log up to (not including) the (j+1)-th I/O call
fn log_before_call(items: &[Item], j: usize) -> Vec<Item> {
    let mut calls = 0usize;
    let mut out = Vec::new();
    for it in items {
        if let Item::Io(..) = it {
            if calls == j {
                break;
            }
            calls += 1;
        }
        out.push(it.clone());
    }
    out
}

struct Incarnation {
    plan: Plan,
    keep: Vec<(u64, usize)>, // (file sequence, items kept) of the crash that preceded it
    run: Run,
    crash_at: usize, // the instant at which this incarnation is crashed (last one: ncalls)
    prior_acked: Vec<u64>,
}

fn main() {
    let a: Vec<String> = std::env::args().collect();
    let args = &Args::parse(&a[1..]);
    let multi = args.get("multi", 0);
    let mut out = Out::new(&args.out, "C09", args.shards, HEADER);
    out.nontrivial_rule = "a history of 1-3 incarnations of the real spawn_wal_actor (Always), each with 1-6 writer tasks x 1-4 writes on a scripted WalStore, separated by crashes at a random I/O-call boundary (unsynced tails dropped, or kept up to a random item boundary); rotation threshold swept from 'every entry rotates' to 'never', group_commit_max_entries in {1,2,3,4,8,64}, faults planted on the I/O calls (quick: 0-1 per incarnation, thorough: 0-6, incl. adjacent pairs); non-trivial = some flush resolved >= 2 acks and the history contains a rotation or a fault; distinct by the canonical text of (config, schedules, logs)".into();
    let range: Vec<u64> = match args.only {
        Some(i) => vec![i],
        None => (0..args.n).collect(),
    };
    for i in range {
        let mut rng = case_rng(args.seed, i);
        // ---------------- the history
        let mut all_bytes: BTreeMap<u64, Vec<u8>> = BTreeMap::new();
        let mut specs: BTreeMap<u64, WriteSpec> = BTreeMap::new();
        let mut incs: Vec<Incarnation> = Vec::new();
        let mut flabels: Vec<String> = Vec::new();
        let fixed = fixed_history(i);
        let fl = {
            let mut r = case_rng(args.seed ^ 0xF1A7, i);
            let eq_vlen = if r.gen_bool(0.5) { Some(*[0usize, 2, 5, 17].get(r.gen_range(0..4)).unwrap()) } else { None };
            let dup_content = r.gen_range(0..100u32) < 8;
            let ts_off = *[0u64, 0, 0, 0, (1 << 32) - 20, (1u64 << 63) - 20, u64::MAX - 2000].get(r.gen_range(0..7)).unwrap();
            let x = r.gen_range(0..1000u32);
            let thorough = multi != 0;
            Flavour {
                eq_vlen,
                dup_content,
                ts_off,
                ff: !dup_content && x < 100,
                timeout: !dup_content && (100..115).contains(&x),
                leftovers: r.gen_range(0..100u32) < 10,
                big: if (200..206).contains(&x) { 1 } else if (212..214).contains(&x) { 2 } else if (300..315).contains(&x) { 3 } else { 0 },
                thorough,
            }
        };
        if fixed.is_none() {
            if fl.eq_vlen.is_some() {
                flabels.push("entries:all-the-same-size".into());
            }
            if fl.dup_content {
                flabels.push("writes-with-identical-content(no-faults)".into());
            }
            if fl.ts_off != 0 {
                flabels.push(format!("stamps-offset-by:{}", if fl.ts_off < 1 << 33 { "2^32-20" } else if fl.ts_off < 1 << 63 { "2^63-20" } else { "u64::MAX-2000" }));
            }
            if fl.ff {
                flabels.push("some-writes-fire-and-forget(no-faults)".into());
            }
            if fl.leftovers {
                flabels.push("store-starts-with-leftovers(empty-wal-9,torn-header-wal-3,foreign-files)".into());
            }
            if fl.big == 3 {
                flabels.push("values-of-4KiB..1MiB".into());
            }
        }
        let (shape, n_inc) = match &fixed {
            Some(h) => (Shape { max_file_size: h[0].0.max_file_size, max_entries: h[0].0.max_entries, max_wait_us: h[0].0.max_wait_us }, h.len()),
            None => {
                let probe = gen_tasks(&mut rng.clone(), 0, fl, &mut Vec::new());
                let r = rng.gen_range(0..100u32);
                (gen_shape(&mut rng, &probe, fl), if r < 70 { 1 } else if r < 94 { 2 } else { 3 })
            }
        };
        let mut image: Image = BTreeMap::new();
        if fixed.is_none() && fl.leftovers {
            // what earlier processes may have left behind: a WAL file whose header was torn, an empty
            // WAL file with a high sequence number, files that are not WAL files at all
            image.insert("wal-00000003.wal".into(), (b"RWA".to_vec(), vec![3], vec![None]));
            image.insert("wal-00000009.wal".into(), (Vec::new(), Vec::new(), Vec::new()));
            image.insert("manifest.json.tmp".into(), (b"{\"segments\":[".to_vec(), vec![13], vec![None]));
            image.insert("wal-zz.wal".into(), (vec![0u8; 40], vec![40], vec![None]));
        }
        let init_term = if fixed.is_none() && fl.leftovers { "[(3, [TN]); (9, [])]" } else { "[]" };
        let mut keep: Vec<(u64, usize)> = Vec::new();
        let mut prior_acked: Vec<u64> = Vec::new();
        let mut next_id = 0u64;
        let mut all_ids: Vec<u64> = Vec::new();
        for k in 0..n_inc {
            let plan = match &fixed {
                Some(h) => {
                    flabels.push("fixed-scenario".into());
                    h[k].0.clone()
                }
                None => {
                    let tasks = gen_tasks(&mut rng, next_id, fl, &mut flabels);
                    let shutdown_at_us = if rng.gen_range(0..100u32) < 30 { Some(*[0u64, 0, 10, 50, 1000, 1000, 2000, 2000, 3000, 4000, 6000].get(rng.gen_range(0..11)).unwrap()) } else { None };
                    let times = [0u64, 0, 10, 1000, 1000, 2000, 2000, 3000, 4000, 6000, 8000];
                    let mut truncs = Vec::new();
                    if rng.gen_range(0..100u32) < 35 {
                        // watermarks are stamps
                        let mut pool: Vec<u64> = all_ids.iter().map(|x| stamp_of(*x)).collect();
                        pool.extend(tasks.iter().flatten().map(|s| s.ts));
                        for _ in 0..rng.gen_range(1..=2usize) {
                            let base = pool[rng.gen_range(0..pool.len())];
                            let t = match rng.gen_range(0..10u32) {
                                0 => 0,
                                1 => pool.iter().max().unwrap() + 10,
                                2 | 3 => base.saturating_sub(1),
                                _ => base,
                            };
                            truncs.push((times[rng.gen_range(0..times.len())], t));
                        }
                    }
                    let mut plan = Plan { max_file_size: shape.max_file_size, max_entries: shape.max_entries, max_wait_us: shape.max_wait_us, tasks, faults: BTreeMap::new(), shutdown_at_us, truncs, ts_off: fl.ts_off };
                    if fl.fault_free() {
                        flabels.push("faults:0".into());
                    } else {
                        flabels.push(plant_faults(&mut rng, &mut plan, &image, multi));
                    }
                    plan
                }
            };
            for s in plan.tasks.iter().flatten() {
                all_bytes.insert(s.id, entry_bytes(s));
                specs.insert(s.id, s.clone());
                next_id = next_id.max(s.id % 1024);
                all_ids.push(s.id);
            }
            let run = run_plan(&plan, &image);
            let last = k + 1 == n_inc;
            // instants at which the newest file exists but nothing of it is synced yet
            // (just after a rotation), with at least one older file
            let fresh: Vec<usize> = (0..=run.ncalls)
                .filter(|j| {
                    let sn = &run.snaps[*j];
                    let wal: Vec<_> = sn.iter().filter(|x| seq_of(&x.0) != u64::MAX).collect();
                    wal.len() >= 2 && wal.iter().max_by_key(|x| seq_of(&x.0)).map(|x| x.2 == 0).unwrap_or(false)
                })
                .collect();
            let crash_at = match &fixed {
                Some(h) => h[k].1.unwrap_or(run.ncalls),
                None if last => run.ncalls,
                None if !fresh.is_empty() && rng.gen_bool(0.4) => fresh[rng.gen_range(0..fresh.len())],
                None => rng.gen_range(0..=run.ncalls),
            };
            if !last && fresh.contains(&crash_at) {
                flabels.push("crash-right-after-rotation(new-file-unsynced)".into());
            }
            // what the crash leaves for the next incarnation
            let mut next_image: Image = BTreeMap::new();
            let mut next_keep = Vec::new();
            let spare = rng.gen_bool(0.3);
            if !last {
                for (name, g, synced, len) in &run.snaps[crash_at] {
                    let f = &run.files[g];
                    let have = f.ends.iter().filter(|e| **e <= *len).count();
                    let sure = f.ends.iter().filter(|e| **e <= *synced).count();
                    let kept = if spare { rng.gen_range(sure..=have) } else { sure };
                    let cut = if kept == 0 { 0 } else { f.ends[kept - 1] };
                    next_image.insert(name.clone(), (f.data[..cut].to_vec(), f.ends[..kept].to_vec(), f.item_ids[..kept].to_vec()));
                    if seq_of(name) != u64::MAX {
                        next_keep.push((seq_of(name), kept));
                    }
                }
            }
            let acked_here = run.acked_at[crash_at].clone();
            incs.push(Incarnation { plan, keep: keep.clone(), run, crash_at, prior_acked: prior_acked.clone() });
            prior_acked.extend(acked_here);
            prior_acked.sort();
            image = next_image;
            keep = next_keep;
        }
        // ---------------- the same writers on the repo's own stores
        if i % 4 == 1 || i % 16 == 2 {
            let p0 = &incs[0].plan;
            out.impl_checks += 1;
            if i % 16 == 2 {
                let dir = std::env::temp_dir().join(format!("c09-local-{}-{}", std::process::id(), i));
                let _ = std::fs::remove_dir_all(&dir);
                let r = run_on_repo_store(p0, Some(&dir));
                let _ = std::fs::remove_dir_all(&dir);
                out.count("also-run-on:LocalWalStore(real-files)");
                if let Some(m) = r {
                    out.violation(i, &format!("on LocalWalStore: {}", m), json!({"max_file_size": p0.max_file_size, "max_entries": p0.max_entries}));
                }
            } else {
                out.count("also-run-on:InMemoryWalStore+simulate_crash");
                if let Some(m) = run_on_repo_store(p0, None) {
                    out.violation(i, &format!("on InMemoryWalStore after simulate_crash(): {}", m), json!({"max_file_size": p0.max_file_size, "max_entries": p0.max_entries}));
                }
            }
        }
        // ---------------- direct oracle on the implementation, every incarnation, every instant
        let describe = |inc: &Incarnation| -> Value {
            let run = &inc.run;
            let plan = &inc.plan;
            json!({
                "max_file_size": plan.max_file_size, "group_commit_max_entries": plan.max_entries, "group_commit_max_wait_us": plan.max_wait_us,
                "writer_tasks": plan.tasks.iter().map(|t| t.iter().map(|s| json!({"name": s.id, "stamp": s.ts, "key": format!("k{:03}", s.key), "value_len": s.vlen, "replica": s.replica, "sleep_us": s.sleep_us})).collect::<Vec<_>>()).collect::<Vec<_>>(),
                "shutdown_sent_at_us": plan.shutdown_at_us,
                "truncate_requests_at_us_and_watermark": plan.truncs,
                "faults": plan.faults.iter().map(|(k, f)| json!({"call": k, "kind": f.kind, "frac": f.frac})).collect::<Vec<_>>(),
                "items_kept_per_file_by_the_preceding_crash": inc.keep,
                "acked_ok_by_earlier_incarnations": inc.prior_acked,
                "log": run.items.iter().map(c_item).collect::<Vec<_>>(),
                "results": run.results.iter().map(|(k, r)| json!({"id": k, "result": match r { Ok(()) => "Ok".to_string(), Err(e) => format!("Err({})", e) }})).collect::<Vec<_>>(),
                "crashed_after_calls": inc.crash_at,
            })
        };
        let mut recovered_last: Vec<Vec<u64>> = Vec::new();
        // acked writes of earlier incarnations that a truncation has released (stamp <= watermark)
        let mut exempt_prior: BTreeSet<u64> = BTreeSet::new();
        let mut n_exempt_checks = 0u64;
        for (k, inc) in incs.iter().enumerate() {
            let run = &inc.run;
            // truncations the actor started: (I/O calls completed before, position in the log, watermark)
            let mut truncs_here: Vec<(usize, usize, u64)> = Vec::new();
            let mut handled_pos: BTreeMap<u64, usize> = BTreeMap::new();
            {
                let mut calls = 0usize;
                for (p, it) in run.items.iter().enumerate() {
                    match it {
                        Item::Io(c, _) => {
                            if let Call::Ent(_, id, _) = c {
                                handled_pos.entry(*id).or_insert(p);
                            }
                            calls += 1;
                        }
                        Item::Trunc(t) => truncs_here.push((calls, p, *t)),
                        _ => {}
                    }
                }
            }
            // an entry stamped <= t may legitimately disappear once truncate_before(t) has
            // started after the entry was appended (entries of earlier incarnations: always)
            let exempt = |w: u64, j: usize, prior: bool, exempt_prior: &BTreeSet<u64>| -> bool {
                (prior && exempt_prior.contains(&w))
                    || truncs_here.iter().any(|(c, p, t)| stamp_of(w) <= *t && j >= c + 1 && (prior || handled_pos.get(&w).map(|hp| hp < p).unwrap_or(false)))
            };
            let mut first_bad: Option<Value> = None;
            let mut first_bad_returned: Option<usize> = None;
            let mut bad_payload: Vec<(usize, String)> = Vec::new();
            let show = |ids: &[u64]| -> Vec<Value> { ids.iter().map(|id| specs.get(id).map(|s| json!({"name": s.id, "stamp": s.ts, "key": format!("k{:03}", s.key), "value_len": s.vlen, "replica": s.replica})).unwrap_or(json!(id))).collect() };
            let mut cache: BTreeMap<Vec<(String, usize, usize)>, Vec<u64>> = BTreeMap::new(); // keyed by (file, generation, synced length)
            // long runs (batches of hundreds of writers): the instants right after an fsync or a
            // delete, every 8th other one, and the last
            let mut after: BTreeSet<usize> = BTreeSet::new();
            {
                let mut calls = 0usize;
                for it in &run.items {
                    if let Item::Io(c, _) = it {
                        calls += 1;
                        if matches!(c, Call::Sync(_) | Call::Del(_)) {
                            after.insert(calls);
                        }
                    }
                }
            }
            let is_last_inc = k + 1 == incs.len();
            for j in 0..=run.ncalls {
                if run.ncalls > 120 && !is_last_inc && !(after.contains(&j) || j % 8 == 0 || j == run.ncalls) {
                    continue;
                }
                let skip_spared = run.ncalls > 120 && !(after.contains(&j) || j % 8 == 0 || j == run.ncalls);
                out.impl_checks += 2;
                let ckey: Vec<(String, usize, usize)> = run.snaps[j].iter().map(|x| (x.0.clone(), x.1, x.2)).collect();
                let rec_ids = match cache.get(&ckey) {
                    Some(r) => r.clone(),
                    None => {
                        let (img, truth) = run.image_at(j, |synced, _| synced);
                        let (ids, bad) = recover_image(&img, &truth, inc.plan.max_file_size, &all_bytes);
                        bad_payload.extend(bad.into_iter().map(|b| (j, b)));
                        cache.insert(ckey, ids.clone());
                        ids
                    }
                };
                let rec: BTreeSet<u64> = rec_ids.iter().copied().collect();
                let mut acked: Vec<u64> = inc.prior_acked.iter().copied().filter(|w| !exempt(*w, j, true, &exempt_prior)).collect();
                let all_acked = inc.prior_acked.len() + run.acked_at[j].len();
                acked.extend(run.acked_at[j].iter().copied().filter(|w| !exempt(*w, j, false, &exempt_prior)));
                acked.sort();
                n_exempt_checks += (all_acked - acked.len()) as u64;
                let lost: Vec<u64> = acked.iter().copied().filter(|x| !rec.contains(x)).collect();
                if !lost.is_empty() && first_bad.is_none() {
                    let from_earlier: Vec<u64> = lost.iter().copied().filter(|x| inc.prior_acked.contains(x)).collect();
                    first_bad = Some(json!({"incarnation": k, "crash_after_calls": j, "acked_ok_and_not_released_by_a_truncation": acked, "recovered": rec_ids, "lost": lost, "lost_writes": show(&lost),
                        "lost_entries_acked_by_an_earlier_incarnation": from_earlier, "truncations_started_so_far(calls_before,watermark)": truncs_here.iter().filter(|(c, _, _)| j >= c + 1).map(|(c, _, t)| (*c, *t)).collect::<Vec<_>>()}));
                }
                if inc.prior_acked.iter().chain(run.returned_at[j].iter()).any(|x| !rec.contains(x) && acked.contains(x)) && first_bad_returned.is_none() {
                    first_bad_returned = Some(j);
                }
                // a crash that spares a random part (byte granularity) of the unsynced tails
                let (cuts, truth2) = if skip_spared { run.image_at(j, |synced, _| synced) } else { run.image_at(j, |synced, len| rng.gen_range(synced..=len)) };
                let (ids2, bad2) = if skip_spared { (rec_ids.clone(), Vec::new()) } else { recover_image(&cuts, &truth2, inc.plan.max_file_size, &all_bytes) };
                bad_payload.extend(bad2.into_iter().map(|b| (j, b)));
                let rec2: BTreeSet<u64> = ids2.iter().copied().collect();
                let lost2: Vec<u64> = acked.iter().copied().filter(|x| !rec2.contains(x)).collect();
                if !lost2.is_empty() && first_bad.is_none() {
                    let from_earlier: Vec<u64> = lost2.iter().copied().filter(|x| inc.prior_acked.contains(x)).collect();
                    first_bad = Some(json!({"incarnation": k, "crash_after_calls": j, "unsynced_bytes_kept": cuts.iter().map(|(n, d)| (n.clone(), d.len())).collect::<Vec<_>>(), "acked_ok_and_not_released_by_a_truncation": acked, "recovered": ids2, "lost": lost2, "lost_writes": show(&lost2),
                        "lost_entries_acked_by_an_earlier_incarnation": from_earlier}));
                }
                if k + 1 == incs.len() {
                    recovered_last.push(rec_ids);
                }
            }
            if let Some(b) = first_bad {
                let b_has_earlier = b["lost_entries_acked_by_an_earlier_incarnation"].as_array().map(|a| !a.is_empty()).unwrap_or(false);
                let mut d = describe(inc);
                d["first_failing_crash_instant"] = b;
                d["also_fails_counting_only_returned_calls_at_instant"] = json!(first_bad_returned);
                d["history"] = json!(incs.iter().map(|x| describe(x)).collect::<Vec<_>>());
                let earlier = b_has_earlier;
                let what = if earlier {
                    "a write acked Ok by an EARLIER incarnation is missing from recover_all_entries after a later incarnation's I/O (acked not a subset of recovered)"
                } else if !truncs_here.is_empty() {
                    "a write acked Ok by write_durable, stamped above every truncation watermark, is not returned by recover_all_entries after a crash (acked not a subset of recovered)"
                } else {
                    "a write acked Ok by write_durable is not returned by recover_all_entries after a crash (acked not a subset of recovered)"
                };
                out.violation(i, what, d);
            }
            // what this incarnation's truncations released, for the incarnations that follow
            let at = inc.crash_at;
            let newly: Vec<u64> = inc.prior_acked.iter().copied().filter(|w| exempt(*w, at, true, &exempt_prior)).chain(run.acked_at[at].iter().copied().filter(|w| exempt(*w, at, false, &exempt_prior))).collect();
            exempt_prior.extend(newly);
            if !bad_payload.is_empty() {
                out.violation(i, "recovery returned an entry that is not (bit for bit) an entry written to that image, or more copies of one than were written, or recover_entries_after disagrees with recover_all_entries", json!({"instants_and_entries": bad_payload, "run": describe(inc)}));
            }
            if run.actor_panicked {
                out.violation(i, "the WAL actor task panicked", describe(inc));
            }
            for p in &run.problems {
                out.violation(i, &format!("unexpected behaviour of the actor/harness: {}", p), describe(inc));
            }
        }
        // ---------------- the Coq case
        let lastinc = incs.last().unwrap();
        let run = &lastinc.run;
        let last = run.ncalls;
        let mut pts: BTreeSet<usize> = BTreeSet::new();
        pts.insert(last);
        pts.insert(0);
        for _ in 0..5 {
            pts.insert(rng.gen_range(0..=last));
        }
        // instants right after a sync are the interesting ones
        let mut calls = 0usize;
        let mut after_sync = Vec::new();
        for it in &run.items {
            if let Item::Io(c, _) = it {
                calls += 1;
                if matches!(c, Call::Sync(_)) {
                    after_sync.push(calls);
                }
            }
        }
        for _ in 0..3 {
            if !after_sync.is_empty() {
                pts.insert(after_sync[rng.gen_range(0..after_sync.len())]);
            }
        }
        let samples = clist(pts.iter(), |j| {
            let mut acked = lastinc.prior_acked.clone();
            acked.extend(run.acked_at[*j].iter().copied());
            acked.sort();
            format!("({}, {}, {})", j, c_ids(&recovered_last[*j]), c_ids(&acked))
        });
        let inc_terms = clist(incs.iter(), |inc| {
            let log = log_before_call(&inc.run.items, inc.crash_at);
            format!("I {} {} {}", clist(inc.keep.iter(), |(s, k)| format!("({}, {})", s, k)), clist(inc.run.sched.iter(), c_sched), clist(log.iter(), c_item))
        });
        let silent_all: Vec<u64> = incs.iter().flat_map(|x| x.run.silent.iter().copied()).collect();
        let term = format!("(K {} {} {} {} {} {})", shape.max_file_size, shape.max_entries, init_term, c_ids(&silent_all), inc_terms, samples);
        // ---------------- statistics
        let mut rotations = 0usize;
        let mut nfault = 0usize;
        let mut maxburst = 0usize;
        let mut rot_in_batch = false;
        let mut fault_in_batch = false;
        for inc in &incs {
            let run = &inc.run;
            rotations += run.items.iter().filter(|x| matches!(x, Item::Io(Call::Create(_), _))).count();
            nfault += run.items.iter().filter(|x| matches!(x, Item::Io(_, Outc::Err(_)))).count();
            let mut burst = 0usize;
            let mut open = 0usize; // entries appended Ok and not yet acked
            for it in &run.items {
                match it {
                    Item::Ack(_, _) => {
                        burst += 1;
                        maxburst = maxburst.max(burst);
                        if open > 0 {
                            open -= 1;
                        }
                    }
                    Item::Down | Item::Trunc(_) => burst = 0,
                    Item::Io(c, o) => {
                        burst = 0;
                        if open > 0 && matches!(c, Call::Create(_)) {
                            rot_in_batch = true;
                        }
                        if open > 0 && matches!(o, Outc::Err(_)) {
                            fault_in_batch = true;
                        }
                        if let (Call::Ent(..), Outc::Ok) = (c, o) {
                            open += 1;
                        }
                    }
                }
            }
            for it in &run.items {
                if let Item::Io(c, Outc::Err(e)) = it {
                    out.count(&format!(
                        "fault:{}:{}",
                        match c { Call::Sync(_) => "sync", Call::Create(_) => "create", Call::Hdr(_) => "header", Call::Ent(..) => "append", Call::Del(_) => "delete" },
                        match e { Eff::None => "nothing-written", Eff::Torn => "partial", Eff::Full => "done-but-error" }
                    ));
                }
            }
            // truncation statistics
            {
                let mut per_file: BTreeMap<u64, Vec<u64>> = BTreeMap::new();
                let mut newest = 0u64;
                for it in &run.items {
                    match it {
                        Item::Io(Call::Ent(sq, id, _), o) if !matches!(o, Outc::Err(Eff::None) | Outc::Err(Eff::Torn)) => per_file.entry(*sq).or_default().push(*id),
                        Item::Io(Call::Hdr(sq), Outc::Ok) => newest = *sq,
                        Item::Io(Call::Del(sq), o) => {
                            out.count(if *o == Outc::Ok { "truncate:file-deleted" } else { "truncate:delete-failed" });
                            per_file.remove(sq);
                        }
                        Item::Trunc(t) => {
                            out.count("truncate:requests-handled");
                            if per_file.iter().any(|(sq, l)| *sq != newest && l.last().map(|x| stamp_of(*x) <= *t).unwrap_or(false) && l.iter().any(|x| stamp_of(*x) > *t)) {
                                out.count("truncate:closed-file-with-last-stamp<=T<max-stamp(must-survive)");
                            }
                        }
                        _ => {}
                    }
                }
            }
            if let Some(p) = run.items.iter().position(|x| *x == Item::Down) {
                let with_pending = run.shutdown_with_pending;
                let sync_failed = with_pending && run.items[..p].iter().rev().find(|x| matches!(x, Item::Io(..))).map(|x| matches!(x, Item::Io(Call::Sync(_), Outc::Err(_)))).unwrap_or(false);
                let goes_on = run.items[p + 1..].iter().any(|x| matches!(x, Item::Io(..)));
                out.count(if !with_pending { "shutdown:nothing-pending" } else if sync_failed { "shutdown:pending-acks,final-fsync-FAILED" } else { "shutdown:pending-acks,final-fsync-ok-or-no-writer" });
                if goes_on {
                    out.count("shutdown:actor-kept-running(taken-inside-wait-window)");
                }
            } else if inc.plan.shutdown_at_us.is_some() {
                out.count("shutdown:sent-after-all-writes-or-not-traced");
            }
            let dropped = run.results.values().filter(|r| matches!(r, Err(e) if e.contains("WAL actor unavailable") || e.contains("WAL actor dropped ack channel"))).count();
            if dropped > 0 {
                out.count("writes-that-found-the-actor-stopped");
            }
            let nerr = run.results.values().filter(|r| r.is_err()).count();
            out.count(if nerr == 0 { "acks:all-ok" } else if nerr == run.results.len() { "acks:all-err" } else { "acks:mixed" });
        }
        for l in &flabels {
            out.count(l);
        }
        out.count(&format!("incarnations:{}", incs.len()));
        if n_exempt_checks > 0 {
            out.count("histories-where-a-truncation-released-acked-entries");
        }
        if incs.iter().skip(1).any(|x| x.keep.iter().any(|_| true)) && incs.len() > 1 {
            out.count("restart_on_nonempty_store");
        }
        out.count(&format!("faults_hit:{}", nfault.min(4)));
        out.count(&format!("rotations:{}", if rotations <= 1 { rotations.to_string() } else if rotations <= 4 { "2-4".into() } else { "5+".into() }));
        out.count(&format!("largest_ack_burst:{}", if maxburst <= 3 { maxburst.to_string() } else { "4+".into() }));
        if rot_in_batch {
            out.count("rotation_inside_batch");
        }
        if fault_in_batch {
            out.count("fault_with_unsynced_entries_pending");
        }
        let failed_but_survived = run.results.iter().filter(|(id, r)| r.is_err() && recovered_last[last].contains(id)).count();
        if failed_but_survived > 0 {
            out.count("reported-failed-yet-recovered");
        }
        let nontrivial = maxburst >= 2 && (rotations >= 2 || nfault > 0);
        let canon = term.clone();
        let mut acked_final = lastinc.prior_acked.clone();
        acked_final.extend(run.acked_at[last].iter().copied());
        acked_final.sort();
        out.sample(json!({"max_file_size": shape.max_file_size, "max_entries": shape.max_entries, "incarnations": incs.len(), "last_schedule": run.sched.iter().map(c_sched).collect::<Vec<_>>(), "last_log": run.items.iter().map(c_item).collect::<Vec<_>>(), "acked_ok": acked_final, "recovered_after_final_crash": recovered_last[last]}));
        if args.only.is_some() {
            for (k, inc) in incs.iter().enumerate() {
                println!("case {} incarnation {}: {}", i, k, serde_json::to_string_pretty(&describe(inc)).unwrap());
                println!("sent order: {:?}", inc.run.sent);
                println!("schedule: {}", clist(inc.run.sched.iter(), c_sched));
            }
            for j in 0..=run.ncalls {
                println!("  last incarnation, crash after {:3} calls: acked_ok(+earlier) {:?} + {:?}  recovered {:?}", j, lastinc.prior_acked, run.acked_at[j], recovered_last[j]);
            }
            println!("coq case: {}", term);
        }
        out.case(i, term, nontrivial, &canon);
    }
    out.finish(args.seed);
}

//! C07: ReplicatedValue::merge — correspondence cases for the Coq model and the
//! three laws evaluated directly on the implementation.
use vharness::rv::*;
use vharness::util::*;
use rand::Rng as _;
use redis_sim::redis::SDS;
use redis_sim::replication::lattice::{GCounter, GSet, ORSet, PNCounter, ReplicaId, VectorClock};
use redis_sim::replication::state::{CrdtValue, ReplicatedValue, ReplicationDelta, ShardReplicaState};
use redis_sim::replication::ConsistencyLevel;
use serde_json::json;

pub const HEADER: &str = "From RV Require Import Corr.C07.\nLocal Open Scope string_scope.\nLocal Open Scope N_scope.\nLocal Open Scope list_scope.";

const VALS: [&[u8]; 6] = [b"", b"a", b"bb", b"\x00\xff", b"10", b"a"];
const FIELDS: [&str; 3] = ["f1", "f2", "\u{e9}"];
const ELEMS: [&str; 3] = ["x", "y", ""];
const KEY: &str = "k";

/// Three replicas of one key, driven through the real ShardReplicaState API (LWW and
/// hash kinds) or by direct CRDT operations stamped with the replica's ticking clock
/// (counter and set kinds); deltas are delivered between replicas in random order.
/// Every value in the returned pool is a value a replica held at some point.
thread_local! { static SPREAD: std::cell::Cell<Option<[u64; 3]>> = std::cell::Cell::new(None); }
/// clock values far apart on the u64 range (stamps are plain u64 fields accepted from peers)
const FAR: [u64; 12] = [0, 1, 1 << 31, (1 << 32) + 1, 1 << 62, (1 << 63) - 1, 1 << 63, (1 << 63) + 1,
    1 + 3 * (1u64 << 61), 1 + 3 * (1u64 << 62), u64::MAX - 100_000, u64::MAX - 50_000];

pub fn gen_pool(rng: &mut Rng, same: bool) -> Vec<ReplicatedValue> {
    let level = if rng.gen_bool(0.3) { ConsistencyLevel::Causal } else { ConsistencyLevel::Eventual };
    let mut st: Vec<ShardReplicaState> = (1..=3u64).map(|r| ShardReplicaState::new(ReplicaId(r), level)).collect();
    for s in st.iter_mut() {
        s.lamport_clock.time = rng.gen_range(0..3);
    }
    if let Some(t) = SPREAD.with(|x| x.get()) {
        for (s, t) in st.iter_mut().zip(t.iter()) { s.lamport_clock.time = *t; }
    }
    let kinds = [0u32, 0, 5, 5, 1, 2, 3, 4];
    let k0 = kinds[rng.gen_range(0..kinds.len())];
    let mut pool = Vec::new();
    let steps = rng.gen_range(4..11);
    for _ in 0..steps {
        let r = rng.gen_range(0..3usize);
        if rng.gen_bool(0.35) {
            let s = (r + rng.gen_range(1..3usize)) % 3;
            if let Some(v) = st[s].get_replicated(KEY).cloned() {
                st[r].apply_remote_delta(ReplicationDelta::new(KEY.to_string(), v, ReplicaId(s as u64 + 1)));
            }
        } else {
            let kind = if same { k0 } else { kinds[rng.gen_range(0..kinds.len())] };
            local_op(rng, &mut st[r], kind);
        }
        if rng.gen_bool(0.1) {
            if let Some(v) = st[r].replicated_keys.get_mut(KEY) {
                v.replication_factor = Some(rng.gen_range(1..5));
            }
        }
        if let Some(v) = st[r].get_replicated(KEY) {
            pool.push(v.clone());
        }
    }
    pool
}

fn local_op(rng: &mut Rng, s: &mut ShardReplicaState, kind: u32) {
    let rid = s.replica_id;
    match kind {
        0 => {
            if rng.gen_bool(0.75) {
                let val = VALS[rng.gen_range(0..VALS.len())];
                let exp = if rng.gen_bool(0.3) { Some(rng.gen_range(0..5u64) * 1000) } else { None };
                s.record_write(KEY.to_string(), SDS::new(val.to_vec()), exp);
            } else {
                s.record_delete(KEY.to_string());
            }
        }
        5 => {
            if rng.gen_bool(0.75) {
                let n = rng.gen_range(1..3);
                let fields: Vec<(String, SDS)> = (0..n)
                    .map(|_| (FIELDS[rng.gen_range(0..FIELDS.len())].to_string(), SDS::new(VALS[rng.gen_range(0..VALS.len())].to_vec())))
                    .collect();
                s.record_hash_write(KEY.to_string(), fields);
            } else {
                s.record_hash_delete(KEY.to_string(), vec![FIELDS[rng.gen_range(0..FIELDS.len())].to_string()]);
            }
        }
        _ => {
            let mut v = s.replicated_keys.remove(KEY).unwrap_or_else(|| ReplicatedValue::new(rid));
            let nops = rng.gen_range(1..3);
            let crdt = match kind {
                1 => {
                    let mut g = match &v.crdt { CrdtValue::GCounter(g) => g.clone(), _ => GCounter::new() };
                    for _ in 0..nops {
                        g.increment_by(rid, rng.gen_range(0..4));
                    }
                    CrdtValue::GCounter(g)
                }
                2 => {
                    let mut p = match &v.crdt { CrdtValue::PNCounter(g) => g.clone(), _ => PNCounter::new() };
                    for _ in 0..nops {
                        if rng.gen_bool(0.5) { p.increment_by(rid, rng.gen_range(0..4)); } else { p.decrement_by(rid, rng.gen_range(0..4)); }
                    }
                    CrdtValue::PNCounter(p)
                }
                3 => {
                    let mut g = match &v.crdt { CrdtValue::GSet(g) => g.clone(), _ => GSet::new() };
                    for _ in 0..nops {
                        g.add(ELEMS[rng.gen_range(0..ELEMS.len())].to_string());
                    }
                    CrdtValue::GSet(g)
                }
                _ => {
                    let mut o = match &v.crdt { CrdtValue::ORSet(g) => g.clone(), _ => ORSet::new() };
                    for _ in 0..nops {
                        let e = ELEMS[rng.gen_range(0..ELEMS.len())].to_string();
                        if rng.gen_bool(0.7) { o.add(e, rid); } else { o.remove(&e); }
                    }
                    CrdtValue::ORSet(o)
                }
            };
            v.crdt = crdt;
            v.timestamp = s.lamport_clock.tick();
            if rng.gen_bool(0.2) {
                let mut vc = v.vector_clock.clone().unwrap_or_else(VectorClock::new);
                vc.increment(rid);
                v.vector_clock = Some(vc);
            }
            s.replicated_keys.insert(KEY.to_string(), v);
        }
    }
}

pub fn gen_triple(rng: &mut Rng) -> (ReplicatedValue, ReplicatedValue, ReplicatedValue) {
    let same = rng.gen_bool(0.7);
    loop {
        let pool = gen_pool(rng, same);
        if pool.len() < 3 {
            continue;
        }
        let i = rng.gen_range(0..pool.len());
        let j = rng.gen_range(0..pool.len());
        let k = rng.gen_range(0..pool.len());
        return (pool[i].clone(), pool[j].clone(), pool[k].clone());
    }
}

fn main() {
    let a: Vec<String> = std::env::args().collect();
    let args = &Args::parse(&a[1..]);
    let mut out = Out::new(&args.out, "C07", args.shards, HEADER);
    out.nontrivial_rule = "triples (a,b,c) drawn from the values three replicas of one key hold while performing local operations (real ShardReplicaState API for LWW/hash, direct CRDT ops for counters/sets) and delivering deltas to each other in random order (time ties across replicas included; in a fifth of the cases the three clocks start far apart on the u64 range: 0, 2^31, 2^62, 2^63-1, 2^63, 2^63+1, 1+3*2^61, 1+3*2^62, near 2^64); non-trivial = a,b,c pairwise different in obs; distinct by canonical text of the triple".into();
    let range: Vec<u64> = match args.only { Some(i) => vec![i], None => (0..args.n).collect() };
    for i in range {
        let mut rng = case_rng(args.seed, i);
        // a fifth of the cases start the three replicas' clocks far apart (own stream: the other
        // cases keep their shape)
        let mut rng2 = case_rng(args.seed ^ 0x0c07_fa4, i);
        let spread = if rng2.gen_bool(0.2) { Some([FAR[rng2.gen_range(0..FAR.len())], FAR[rng2.gen_range(0..FAR.len())], FAR[rng2.gen_range(0..FAR.len())]]) } else { None };
        SPREAD.with(|x| x.set(spread));
        if spread.is_some() { out.count("clocks:far-apart"); }
        let (a, b, c) = gen_triple(&mut rng);
        let ab = a.merge(&b);
        let ba = b.merge(&a);
        let bc = b.merge(&c);
        let a_bc = a.merge(&bc);
        let ab_c = ab.merge(&c);
        let aa = a.merge(&a);
        let term = format!(
            "(K {} {} {} {} {} {} {} {} {})",
            rv_term(&a, false), rv_term(&b, false), rv_term(&c, false),
            rv_term(&ab, false), rv_term(&ba, false), rv_term(&bc, false),
            rv_term(&a_bc, false), rv_term(&ab_c, false), rv_term(&aa, false)
        );
        let (oa, ob, oc) = (obs(&a), obs(&b), obs(&c));
        let nontrivial = oa != ob && ob != oc && oa != oc;
        let canon = format!("{}|{}|{}", oa, ob, oc);
        let samekind = kind(&a) == kind(&b) && kind(&b) == kind(&c);
        out.count(&format!("kinds:{}", if samekind { kind(&a).to_string() } else { "mixed".into() }));
        if a.timestamp.time == b.timestamp.time && a.timestamp.replica_id != b.timestamp.replica_id {
            out.count("tie_time_ab");
        }
        let show = json!({"a": oa, "b": ob, "c": oc});
        out.sample(show.clone());
        // the laws, on the implementation
        out.impl_checks += 6;
        for (n, x) in [("a", &a), ("b", &b), ("c", &c)] {
            if obs(&x.merge(x)) != obs(x) {
                out.violation(i, &format!("idempotence fails for {}", n), json!({"x": obs(x), "xx": obs(&x.merge(x))}));
            }
        }
        for (n, x, y) in [("a,b", &a, &b), ("b,c", &b, &c), ("a,c", &a, &c)] {
            let (xy, yx) = (obs(&x.merge(y)), obs(&y.merge(x)));
            if xy != yx {
                out.violation(i, &format!("commutativity fails for ({})", n), json!({"x": obs(x), "y": obs(y), "xy": xy, "yx": yx}));
            }
        }
        if obs(&a_bc) != obs(&ab_c) {
            let d = json!({"a": oa, "b": ob, "c": oc, "a(bc)": obs(&a_bc), "(ab)c": obs(&ab_c)});
            if samekind {
                out.violation(i, "associativity fails on a same-kind triple", d);
            } else {
                out.known("C07-mixed-assoc", i, d);
            }
        }
        if args.only.is_some() {
            println!("case {}:\n a = {}\n b = {}\n c = {}\n ab = {}\n ba = {}\n a(bc) = {}\n (ab)c = {}", i, oa, ob, oc, obs(&ab), obs(&ba), obs(&a_bc), obs(&ab_c));
        }
        out.case(i, term, nontrivial, &canon);
    }
    out.finish(args.seed);
}

//! C19: HashRing / GossipRouter / GossipState::queue_deltas — correspondence cases for
//! coq/Corr/C19.v and the property evaluated directly on the implementation:
//! placement is a function of the membership set (join order and add/remove history do
//! not matter), replica lists have min(rf, n) distinct members, a membership change only
//! moves keys that gain or lose the changed node, selective routing hands each delta to
//! exactly owners minus sender, from_config names every other member.
use rand::seq::SliceRandom;
use rand::Rng as _;
use redis_sim::production::{AdaptiveConfig, AdaptiveReplicationManager, HotKeyConfig};
use redis_sim::redis::SDS;
use redis_sim::replication::gossip::{GossipMessage, GossipState};
use redis_sim::replication::gossip_router::GossipRouter;
use redis_sim::replication::hash_ring::HashRing;
use redis_sim::replication::lattice::{LamportClock, ReplicaId};
use redis_sim::replication::state::{ReplicatedValue, ReplicationDelta};
use redis_sim::replication::ReplicationConfig;
use serde_json::{json, Value};
use std::collections::{BTreeMap, BTreeSet, HashMap};
use std::sync::{Arc, RwLock};
use vharness::util::*;

pub const HEADER: &str = "From RV Require Import Corr.C19.\nLocal Open Scope string_scope.\nLocal Open Scope N_scope.\nLocal Open Scope list_scope.";

#[derive(Clone, Debug)]
enum Op {
    Add(u64),
    Rem(u64),
}

fn ids(v: &[ReplicaId]) -> Vec<u64> {
    v.iter().map(|r| r.0).collect()
}
fn pl(v: &[(u64, u64)]) -> String {
    clist(v.iter(), |(a, b)| format!("({},{})", a, b))
}
fn nl(v: &[u64]) -> String {
    clist(v.iter(), |x| x.to_string())
}

/// The private `ring` vector, read from the Debug rendering of HashRing:
/// (position, physical node, virtual index) per entry.
fn ring_vec(r: &HashRing) -> Vec<(u64, u64, u64)> {
    let s = format!("{:?}", r);
    let a = s.find("ring: [").expect("Debug format of HashRing") + 7;
    let b = s.find("], virtual_nodes_per_physical").expect("Debug format of HashRing");
    let mut nums: Vec<u64> = Vec::new();
    let mut cur = String::new();
    for ch in s[a..b].chars() {
        if ch.is_ascii_digit() {
            cur.push(ch);
        } else if !cur.is_empty() {
            nums.push(cur.parse().unwrap());
            cur.clear();
        }
    }
    if !cur.is_empty() {
        nums.push(cur.parse().unwrap());
    }
    assert!(nums.len() % 3 == 0, "Debug format of HashRing");
    nums.chunks(3).map(|c| (c[0], c[1], c[2])).collect()
}

fn gen_key(rng: &mut Rng) -> String {
    match rng.gen_range(0..100) {
        0..=54 => format!("k{}", rng.gen_range(0..1000)),
        55..=59 => String::new(),
        60..=77 => {
            let len = rng.gen_range(1..=20);
            (0..len).map(|_| (b'a' + rng.gen_range(0..4u8)) as char).collect()
        }
        78..=87 => format!("user:{}:profile", rng.gen::<u32>()),
        88..=93 => ["é", "日本語キー", "🔑key", "a\u{0}b", "\u{7f}\u{80}", "ÿÿÿÿÿÿÿÿ"][rng.gen_range(0..6)].to_string(),
        _ => format!("key_{}", rng.gen_range(0..100)),
    }
}

/// A delta on `key` with payload tag `tag` that ORIGINATED on replica `origin`
/// (`source_replica`), which is independent of the node that routes it.
fn mk_delta(key: &str, tag: u64, origin: u64) -> ReplicationDelta {
    let ts = LamportClock { time: tag, replica_id: ReplicaId::new(origin) };
    ReplicationDelta::new(key.to_string(), ReplicatedValue::with_value(SDS::from_str("v"), ts), ReplicaId::new(origin))
}
type GDelta = (String, u64, u64); // key, tag, origin
/// origin of a routed delta: the sender itself, another owner of the key, a member that
/// does not own it, or a node outside the ring
fn pick_origin(rng: &mut Rng, out: &mut Out, key: &str, me: u64, ring: &HashRing, members: &BTreeSet<u64>) -> u64 {
    let owners: Vec<u64> = ids(&ring.get_replicas(key)).into_iter().filter(|x| *x != me).collect();
    let others: Vec<u64> = members.iter().cloned().filter(|x| *x != me && !owners.contains(x)).collect();
    let c = rng.gen_range(0..100);
    if c < 35 {
        out.count("delta origin:sender");
        me
    } else if c < 65 && !owners.is_empty() {
        out.count("delta origin:another owner of the key");
        *owners.choose(rng).unwrap()
    } else if c < 82 && !others.is_empty() {
        out.count("delta origin:member, not an owner");
        *others.choose(rng).unwrap()
    } else {
        out.count("delta origin:not a member");
        loop {
            let x = rng.gen_range(0..40 + 2 * members.len() as u64);
            if !members.contains(&x) && x != me {
                break x;
            }
        }
    }
}
fn tag_of(d: &ReplicationDelta) -> (u64, u64) {
    (d.value.timestamp.time, d.source_replica.0)
}
fn delta_term(d: &GDelta) -> String {
    format!("(D {} {} {})", chex(d.0.as_bytes()), d.1, d.2)
}

struct Stage {
    nodes: Vec<u64>,
    version: u64,
    ring: Option<Vec<(u64, u64, u64)>>,
    reps: Vec<Vec<u64>>,
    reps_rf: Vec<Vec<u64>>,
}
fn observe(r: &HashRing, keys: &[(String, u64)]) -> Stage {
    let rv = ring_vec(r);
    Stage {
        nodes: ids(r.nodes()),
        version: r.version(),
        ring: if rv.len() <= 64 { Some(rv) } else { None },
        reps: keys.iter().map(|(k, _)| ids(&r.get_replicas(k))).collect(),
        reps_rf: keys.iter().map(|(k, rf)| ids(&r.get_replicas_with_rf(k, *rf as usize))).collect(),
    }
}
fn stage_term(s: &Stage) -> String {
    format!(
        "(ST {} {} {} {} {})",
        nl(&s.nodes),
        s.version,
        copt(&s.ring, |v| clist(v.iter(), |(p, n, i)| format!("({},({},{}))", p, n, i))),
        clist(s.reps.iter(), |l| nl(l)),
        clist(s.reps_rf.iter(), |l| nl(l))
    )
}

#[derive(Clone, Debug)]
enum RMake {
    New { me: u64, peers: Vec<u64>, selective: bool },
    Cfg { rid: u64, npeers: u64, selective: bool, partitioned: bool, enabled: bool },
}

fn build_router(ring: &Arc<RwLock<HashRing>>, m: &RMake) -> (GossipRouter, ReplicationConfig) {
    match m {
        RMake::New { me, peers, selective } => {
            let pa: HashMap<ReplicaId, String> =
                peers.iter().enumerate().map(|(i, p)| (ReplicaId::new(*p), format!("p{}", i))).collect();
            let mut cfg = ReplicationConfig::default();
            cfg.enabled = true;
            cfg.replica_id = *me;
            (GossipRouter::new(ring.clone(), ReplicaId::new(*me), pa, *selective), cfg)
        }
        RMake::Cfg { rid, npeers, selective, partitioned, enabled } => {
            let mut cfg = ReplicationConfig::default();
            cfg.enabled = *enabled;
            cfg.replica_id = *rid;
            cfg.peers = (0..*npeers).map(|i| format!("p{}", i)).collect();
            cfg.partitioned_mode = *partitioned;
            cfg.selective_gossip = *selective;
            (GossipRouter::from_config(&cfg, ring.clone()), cfg)
        }
    }
}

/// peer_addresses as (id, index of the configured address), sorted by id
fn peer_table(r: &GossipRouter) -> Vec<(u64, u64)> {
    let mut v: Vec<(u64, u64)> = r
        .peer_ids()
        .map(|id| {
            let a = r.get_peer_address(*id).unwrap();
            (id.0, a[1..].parse::<u64>().unwrap())
        })
        .collect();
    v.sort();
    v
}

type CanonMsg = (Option<u64>, u64, u64, u64, Vec<(u64, u64)>, u64);
fn canon_msg(t: Option<ReplicaId>, m: &GossipMessage) -> CanonMsg {
    match m {
        GossipMessage::DeltaBatch { source_replica, deltas, epoch } => {
            (t.map(|x| x.0), 0, source_replica.0, 0, deltas.iter().map(tag_of).collect(), *epoch)
        }
        GossipMessage::TargetedDelta { source_replica, target_replica, deltas, epoch } => {
            (t.map(|x| x.0), 1, source_replica.0, target_replica.0, deltas.iter().map(tag_of).collect(), *epoch)
        }
        GossipMessage::Heartbeat { source_replica, epoch } => (t.map(|x| x.0), 2, source_replica.0, 0, vec![], *epoch),
        _ => (t.map(|x| x.0), 9, 0, 0, vec![], 0),
    }
}

fn main() {
    let a: Vec<String> = std::env::args().collect();
    let args = &Args::parse(&a[1..]);
    let nkeys = args.get("keys", 24);
    let mut out = Out::new(&args.out, "C19", args.shards, HEADER);
    out.nontrivial_rule = "one case = a HashRing built by new(join order) and changed by up to 4 add_node/remove_node calls (node ids sequential, 0-based, congruent mod 64/2^32/2^63, arbitrary u64, or wide clusters of 63-200 nodes; vnodes 0-150 incl. with_defaults; rf 0-6 or around the cluster size; per-key rf up to u64::MAX; keys up to 4 KiB, 8 KiB in thorough), observed after every step on a batch of keys (physical_nodes, version, ring vector incl. positions, get_replicas, get_replicas_with_rf), plus 2 routers (new / from_config, built before or after the membership changes on the shared ring, peers edited by update_peer/remove_peer) with their routing tables and the output of a GossipState script (advance_epoch, queue_deltas, queue_deltas_broadcast, queue_heartbeat, drain_outbound, set_router), and in 1 case of 16 large queue_deltas batches (1..4000 updates, queue pre-filled up to its capacity); non-trivial = final ring has >= 2 nodes, >= 1 vnode each, and >= 1 key; distinct by canonical text of (vnodes, rf, join order, ops, keys)".into();
    let range: Vec<u64> = match args.only {
        Some(i) => vec![i],
        None => (0..args.n).collect(),
    };
    for i in range {
        let mut rng = case_rng(args.seed, i);
        // ---------------- generate
        let vn: u32 = match rng.gen_range(0..100) {
            0..=2 => 0,
            3..=72 => rng.gen_range(1..=8),
            73..=94 => rng.gen_range(9..=40),
            _ => rng.gen_range(100..=150),
        };
        let rf: u64 = rng.gen_range(0..=6);
        let pool_kind = rng.gen_range(0..100);
        let pool: Vec<u64> = if pool_kind < 55 {
            (1..=7).collect()
        } else if pool_kind < 66 {
            (0..=6).collect()
        } else if pool_kind < 74 {
            // ids congruent modulo 64 / 2^32 / 2^63 (hash-set / bit-mask shortcuts would confuse them)
            let b = rng.gen_range(0..64u64);
            vec![b, b + 64, b + 128, b + 64 * rng.gen_range(3..1000u64), b + (1u64 << 32), b + (1u64 << 63), b + (1u64 << 63) + 64]
        } else {
            let mut s = BTreeSet::new();
            while s.len() < 7 {
                s.insert(match rng.gen_range(0..4) {
                    0 => rng.gen::<u64>(),
                    1 => u64::MAX - rng.gen_range(0..3),
                    2 => rng.gen_range(0..1u64 << 33),
                    _ => rng.gen_range(0..300),
                });
            }
            s.into_iter().collect()
        };
        let big = vn > 40;
        let max_nodes = if big { 4 } else { 6 };
        // sequential cluster 1..=n (the shape from_config is documented for) in part of the cases
        let sequential = pool_kind < 55 && rng.gen_bool(0.5);
        let mut init: Vec<u64> = if sequential {
            let n = rng.gen_range(1..=max_nodes);
            (1..=n as u64).collect()
        } else {
            let n = rng.gen_range(0..=max_nodes);
            pool.choose_multiple(&mut rng, n).cloned().collect()
        };
        init.shuffle(&mut rng);
        if !init.is_empty() && rng.gen_bool(0.1) {
            let d = *init.choose(&mut rng).unwrap();
            init.push(d); // joining twice is a no-op
        }
        let nops = if sequential && rng.gen_bool(0.6) { 0 } else if big { rng.gen_range(0..=2) } else { rng.gen_range(0..=4) };
        let mut ops: Vec<Op> = Vec::new();
        for _ in 0..nops {
            let x = *pool.choose(&mut rng).unwrap();
            ops.push(if rng.gen_bool(0.5) { Op::Add(x) } else { Op::Rem(x) });
        }
        // about 1 case in 16 drives LARGE batches through queue_deltas: a small cluster 1..=n
        // (so that one owner receives most of a batch), no membership changes
        let bigb = rng.gen_bool(1.0 / 16.0);
        // about 1 case in 25: a WIDE cluster (around 64 / 128 / 200 nodes, 1-2 vnodes each)
        let wide = !bigb && rng.gen_bool(0.04);
        // about 1 case in 40: HashRing::with_defaults (150 vnodes, rf 3)
        let defaults = !bigb && !wide && rng.gen_bool(0.025);
        let (vn, rf, init, ops) = if bigb {
            let n = rng.gen_range(2..=4u64);
            let mut init: Vec<u64> = (1..=n).collect();
            init.shuffle(&mut rng);
            (rng.gen_range(1..=8u32), rng.gen_range(1..=3u64), init, Vec::<Op>::new())
        } else if wide {
            let n = *[63u64, 64, 65, 127, 128, 129, 200].choose(&mut rng).unwrap();
            let mut init: Vec<u64> = (1..=n).collect();
            init.shuffle(&mut rng);
            let mut ops = Vec::new();
            for _ in 0..rng.gen_range(0..=2) {
                let x = rng.gen_range(1..=n + 2);
                ops.push(if rng.gen_bool(0.5) { Op::Add(x) } else { Op::Rem(x) });
            }
            let rf = *[0u64, 1, 3, 5, 63, 64, 65, n - 1, n, n + 1].choose(&mut rng).unwrap();
            (rng.gen_range(1..=2u32), rf, init, ops)
        } else if defaults {
            let mut init = init;
            init.truncate(3);
            (150u32, 3u64, init, ops.into_iter().take(1).collect())
        } else {
            (vn, rf, init, ops)
        };
        let nkeys = if wide { nkeys.min(6) } else { nkeys };
        let longkey = args.get("longkey", 4097);
        let mut keys: Vec<(String, u64)> = (0..nkeys).map(|_| (gen_key(&mut rng), rng.gen_range(0..=7))).collect();
        for k in keys.iter_mut() {
            // key lengths around the SipHash block size and common buffer sizes, and far beyond
            if rng.gen_bool(0.015) {
                let mut len = *[63usize, 64, 65, 255, 256, 257, 1023, 1024, 1025, 4096, 4097].choose(&mut rng).unwrap();
                if longkey > 4097 && rng.gen_bool(0.02) {
                    len = longkey as usize - rng.gen_range(0..=2);
                }
                k.0 = (0..len).map(|j| (b'a' + ((j * 7 + len) % 26) as u8) as char).collect();
                out.count("key:long (63..4097 bytes or more)");
            }
            // replication factors far above any cluster size
            if rng.gen_bool(0.04) {
                k.1 = *[64u64, 65, 255, 256, 1 << 32, u64::MAX - 1, u64::MAX].choose(&mut rng).unwrap();
            } else if wide && rng.gen_bool(0.5) {
                k.1 = *[63u64, 64, 65, 127, 128, 129, 199, 200, 201].choose(&mut rng).unwrap();
            }
        }
        // in part of the cases the per-key rf is the one AdaptiveReplicationManager chooses
        // (base_rf, or hot_key_rf for keys it saw accessed often)
        let adaptive = rng.gen_bool(0.35);
        if adaptive {
            let base = rng.gen_range(0..=4u8);
            let hot = rng.gen_range(base..=7u8);
            let mut mgr = AdaptiveReplicationManager::new(AdaptiveConfig {
                base_rf: base,
                hot_key_rf: hot,
                recalc_interval_ms: 100,
                hotkey_config: HotKeyConfig { window_ms: 1000, hot_threshold: 10.0, cleanup_interval_ms: 500, max_tracked_keys: 100 },
            });
            let nhot = rng.gen_range(0..=keys.len().min(4));
            for t in 0..20u64 {
                for k in keys.iter().take(nhot) {
                    mgr.observe(&k.0, t % 2 == 0, t * 50);
                }
            }
            mgr.force_recalculate(1000);
            for k in keys.iter_mut().filter(|k| k.1 <= 7) {
                let r = mgr.get_rf_for_key(&k.0);
                out.impl_checks += 1;
                if r != base && r != hot {
                    out.violation(i, "adaptive replication chose an rf that is neither base_rf nor hot_key_rf", json!({"key": k.0, "rf": r, "base": base, "hot": hot}));
                }
                out.count(if r == hot && hot != base { "adaptive rf:hot" } else { "adaptive rf:base" });
                k.1 = r as u64;
            }
        }
        let keys = keys;

        // ---------------- run the implementation: ring stages
        let mut ring = if defaults {
            out.count("constructor:with_defaults");
            HashRing::with_defaults(init.iter().map(|x| ReplicaId::new(*x)).collect())
        } else {
            HashRing::new(init.iter().map(|x| ReplicaId::new(*x)).collect(), vn, rf as usize)
        };
        // the ring every router shares (Arc<RwLock>): created now, changed through the lock by the
        // same membership changes; routers built before the changes must see them
        let shared = Arc::new(RwLock::new(ring.clone()));
        let early = rng.gen_bool(0.5);
        // ---------------- two routers (new / from_config), chosen from the initial membership;
        // in half of the cases they are built now, BEFORE the membership changes
        let fin_members: BTreeSet<u64> = ring.nodes().iter().map(|r| r.0).collect(); // initial members here
        let mut rmakes: Vec<RMake> = Vec::new();
        {
            let me = if !fin_members.is_empty() && rng.gen_bool(0.85) {
                *fin_members.iter().collect::<Vec<_>>().choose(&mut rng).unwrap().clone()
            } else {
                *pool.choose(&mut rng).unwrap()
            };
            let mut peers: Vec<u64> = match rng.gen_range(0..100) {
                0..=64 => fin_members.iter().cloned().filter(|x| *x != me).collect(),
                65..=79 => fin_members.iter().cloned().collect(), // knows itself too
                80..=89 => pool.iter().cloned().filter(|x| *x != me).collect(), // knows non-members
                _ => {
                    let k = rng.gen_range(0..=pool.len());
                    pool.choose_multiple(&mut rng, k).cloned().collect()
                }
            };
            peers.shuffle(&mut rng);
            rmakes.push(RMake::New { me, peers, selective: rng.gen_bool(0.75) });
            let n = fin_members.len() as u64;
            let seq_ring = n >= 1 && fin_members.iter().cloned().eq(1..=n);
            let (rid, npeers) = if seq_ring && rng.gen_bool(0.8) {
                (rng.gen_range(1..=n), n - 1)
            } else {
                (rng.gen_range(0..=7), rng.gen_range(0..=6))
            };
            let flags = rng.gen_range(0..100);
            rmakes.push(RMake::Cfg { rid, npeers, selective: flags < 85, partitioned: flags < 90 || flags >= 95, enabled: flags < 95 || flags >= 98 });
        }
        let mut built: Vec<(GossipRouter, ReplicationConfig, GossipRouter)> = Vec::new();
        if early {
            built = rmakes.iter().map(|m| { let (r, c) = build_router(&shared, m); (r, c, build_router(&shared, m).0) }).collect();
        }
        drop(fin_members);
        let mut stages = vec![observe(&ring, &keys)];
        let mut members: Vec<BTreeSet<u64>> = vec![stages[0].nodes.iter().cloned().collect()];
        for o in &ops {
            match o {
                Op::Add(x) => {
                    ring.add_node(ReplicaId::new(*x));
                    shared.write().unwrap().add_node(ReplicaId::new(*x));
                }
                Op::Rem(x) => {
                    ring.remove_node(ReplicaId::new(*x));
                    shared.write().unwrap().remove_node(ReplicaId::new(*x));
                }
            }
            let st = observe(&ring, &keys);
            members.push(st.nodes.iter().cloned().collect());
            stages.push(st);
        }

        // the ring vector is printed for the final stage only (keeps case files small)
        let nst = stages.len();
        for st in stages.iter_mut().take(nst - 1) {
            st.ring = None;
        }

        // ---------------- property oracles on the implementation
        // (1) placement is a function of the membership set
        {
            let mut p = init.clone();
            p.shuffle(&mut rng);
            let r2 = HashRing::new(p.iter().map(|x| ReplicaId::new(*x)).collect(), vn, rf as usize);
            let r1 = HashRing::new(init.iter().map(|x| ReplicaId::new(*x)).collect(), vn, rf as usize);
            out.impl_checks += 1;
            if ring_vec(&r1) != ring_vec(&r2) {
                out.violation(i, "ring differs between two join orders of the same membership", json!({"order1": init, "order2": p, "vnodes": vn}));
            }
            let o2 = observe(&r2, &keys);
            if o2.reps != stages[0].reps || o2.reps_rf != stages[0].reps_rf {
                out.violation(i, "replica lists differ between two join orders of the same membership", json!({"order1": init, "order2": p, "vnodes": vn, "rf": rf}));
            }
            // history independence: the ring after add/remove = a fresh ring of the final members
            let fin: Vec<u64> = members.last().unwrap().iter().cloned().collect();
            let r3 = HashRing::new(fin.iter().map(|x| ReplicaId::new(*x)).collect(), vn, rf as usize);
            let o3 = observe(&r3, &keys);
            let last = stages.last().unwrap();
            out.impl_checks += 1;
            if ring_vec(&r3) != ring_vec(&ring) || o3.reps != last.reps || o3.reps_rf != last.reps_rf {
                out.violation(i, "placement after add/remove history differs from a fresh ring of the same members", json!({"init": init, "ops": format!("{:?}", ops), "members": fin, "vnodes": vn, "rf": rf}));
            }
        }
        // (2) shape of every replica list
        for (si, st) in stages.iter().enumerate() {
            let n = members[si].len() as u64;
            for (ki, (k, krf)) in keys.iter().enumerate() {
                for (which, l, want_rf) in [("get_replicas", &st.reps[ki], rf), ("get_replicas_with_rf", &st.reps_rf[ki], *krf)] {
                    out.impl_checks += 1;
                    let want = if vn == 0 { 0 } else { want_rf.min(n) };
                    let set: BTreeSet<u64> = l.iter().cloned().collect();
                    if l.len() as u64 != want || set.len() != l.len() || !set.is_subset(&members[si]) {
                        out.violation(i, &format!("{}: replica list is not min(rf, n) distinct members", which),
                            json!({"stage": si, "key": k, "rf": want_rf, "members": members[si], "vnodes": vn, "replicas": l}));
                    }
                }
            }
        }
        // (2b) the derived queries agree with get_replicas on the final ring
        for (ki, (k, krf)) in keys.iter().enumerate() {
            let last = stages.last().unwrap();
            let reps = &last.reps[ki];
            out.impl_checks += 1;
            let prim = ring.get_primary(k).map(|r| r.0);
            let cand: Vec<u64> = members.last().unwrap().iter().cloned().chain(pool.iter().cloned()).collect();
            let resp_ok = cand.iter().all(|n| ring.is_responsible(k, ReplicaId::new(*n)) == reps.contains(n)
                && ring.is_responsible_with_rf(k, ReplicaId::new(*n), *krf as usize) == last.reps_rf[ki].contains(n));
            let tg_ok = cand.iter().all(|n| ids(&ring.get_gossip_targets(k, ReplicaId::new(*n))) == reps.iter().cloned().filter(|x| x != n).collect::<Vec<_>>());
            if prim != reps.first().cloned() || !resp_ok || !tg_ok {
                out.violation(i, "get_primary / is_responsible / get_gossip_targets disagree with get_replicas", json!({"key": k, "replicas": reps, "primary": prim}));
            }
        }
        // (2c) the plain accessors
        {
            let fin = members.last().unwrap();
            out.impl_checks += 1;
            if ring.node_count() != fin.len() || ring.replication_factor() != rf as usize
                || !pool.iter().chain(fin.iter()).all(|n| ring.contains_node(ReplicaId::new(*n)) == fin.contains(n)) {
                out.violation(i, "node_count / replication_factor / contains_node disagree with nodes()", json!({"members": fin, "node_count": ring.node_count(), "rf": ring.replication_factor()}));
            }
        }
        // (3) minimal disruption
        for (si, o) in ops.iter().enumerate() {
            let (before, after) = (&stages[si], &stages[si + 1]);
            let (x, larger) = match o {
                Op::Add(x) => (*x, after),
                Op::Rem(x) => (*x, before),
            };
            let effective = members[si] != members[si + 1];
            for ki in 0..keys.len() {
                for (b, a, l) in [(&before.reps[ki], &after.reps[ki], &larger.reps[ki]), (&before.reps_rf[ki], &after.reps_rf[ki], &larger.reps_rf[ki])] {
                    out.impl_checks += 1;
                    if b != a && (!effective || !l.contains(&x)) {
                        out.violation(i, "membership change moved a key that neither gains nor loses the changed node",
                            json!({"op": format!("{:?}", o), "key": keys[ki].0, "before": b, "after": a, "members_before": members[si], "vnodes": vn}));
                    }
                }
            }
            if effective {
                out.count("op:effective");
            } else {
                out.count("op:noop");
            }
        }

        // ---------------- routers over the (shared, final) ring
        let fin_members: BTreeSet<u64> = members.last().unwrap().clone();
        if !early {
            built = rmakes.iter().map(|m| { let (r, c) = build_router(&shared, m); (r, c, build_router(&shared, m).0) }).collect();
        }
        out.impl_checks += 1;
        if ring_vec(&shared.read().unwrap()) != ring_vec(&ring) {
            out.violation(i, "ring changed through the shared lock differs from the same changes on a private copy", json!({"init": init, "ops": format!("{:?}", ops)}));
        }
        let ring_rf = rf;
        let mut rterms: Vec<String> = Vec::new();
        let mut rshow: Vec<Value> = Vec::new();
        for (m, (mut router, cfg, mut router2)) in rmakes.iter().zip(built.into_iter()) {
            let me = router.my_replica().0;
            // update_peer / remove_peer after construction (dynamic membership of the router)
            let mut pops: Vec<(bool, u64, u64)> = Vec::new();
            if rng.gen_bool(0.25) {
                for j in 0..rng.gen_range(1..=3u64) {
                    let id = if rng.gen_bool(0.6) && !fin_members.is_empty() {
                        *fin_members.iter().collect::<Vec<_>>().choose(&mut rng).unwrap().clone()
                    } else {
                        *pool.choose(&mut rng).unwrap()
                    };
                    if rng.gen_bool(0.5) {
                        pops.push((true, id, 50 + j));
                        router.update_peer(ReplicaId::new(id), format!("p{}", 50 + j));
                        router2.update_peer(ReplicaId::new(id), format!("p{}", 50 + j));
                    } else {
                        pops.push((false, id, 0));
                        router.remove_peer(ReplicaId::new(id));
                        router2.remove_peer(ReplicaId::new(id));
                    }
                }
                out.count("router:update_peer/remove_peer after construction");
            }
            let mut originals: HashMap<u64, Value> = HashMap::new(); // tag -> the whole delta as queued
            fn mkd(originals: &mut HashMap<u64, Value>, k: &str, t: u64, o: u64) -> ReplicationDelta {
                let d = mk_delta(k, t, o);
                originals.insert(t, serde_json::to_value(&d).unwrap());
                d
            }
            let nd = rng.gen_range(0..=10);
            let mut deltas: Vec<GDelta> = Vec::new();
            for j in 0..nd {
                if j > 0 && rng.gen_bool(0.08) {
                    let c = deltas.choose(&mut rng).unwrap().clone(); // the identical update queued twice
                    deltas.push(c);
                    continue;
                }
                let k = keys.choose(&mut rng).map(|k| k.0.clone()).unwrap_or_default();
                let o = pick_origin(&mut rng, &mut out, &k, me, &ring, &fin_members);
                deltas.push((k, 100 + j as u64, o));
            }
            let peers = peer_table(&router);
            let selective = router.is_selective();
            let sent: Vec<ReplicationDelta> = deltas.iter().map(|(k, t, o)| mkd(&mut originals, k, *t, *o)).collect();
            let table = router.route_deltas(sent.clone());
            let mut whole_ok = table.values().flatten().all(|d| serde_json::to_value(d).unwrap() == originals[&d.value.timestamp.time]);
            let mut ctable: Vec<(u64, Vec<(u64, u64)>)> = table.iter().map(|(t, ds)| (t.0, ds.iter().map(tag_of).collect())).collect();
            ctable.sort();
            // route_with_stats: same table, consistent statistics
            {
                let (t2, st) = router.route_with_stats(sent.clone());
                let mut c2: Vec<(u64, Vec<(u64, u64)>)> = t2.iter().map(|(t, ds)| (t.0, ds.iter().map(tag_of).collect())).collect();
                c2.sort();
                let assignments: usize = c2.iter().map(|e| e.1.len()).sum();
                out.impl_checks += 1;
                if c2 != ctable || st.total_deltas != sent.len() || st.total_assignments != assignments || st.unique_targets != c2.len()
                    || st.assignments_saved != (sent.len() * peers.len()).saturating_sub(assignments) {
                    out.violation(i, "route_with_stats disagrees with route_deltas / its own table", json!({"table": ctable, "table_with_stats": c2, "stats": format!("{:?}", st)}));
                }
            }
            // ---- the GossipState script
            let router0 = rng.gen_bool(0.85);
            let epoch0: u64 = if rng.gen_bool(0.9) { 0 } else { u64::MAX - rng.gen_range(0..=2) };
            #[derive(Clone, Debug)]
            enum Ev { Adv, D(Vec<GDelta>), B(Vec<GDelta>), H, Drain, Set }
            let mut script: Vec<Ev> = Vec::new();
            let mut tag = 200u64;
            let mut have_router = router0;
            for _ in 0..rng.gen_range(0..=7) {
                let c = rng.gen_range(0..100);
                if c < 25 {
                    script.push(Ev::Adv);
                } else if c < 70 || c >= 95 {
                    let cnt = rng.gen_range(0..=4);
                    let mut b: Vec<GDelta> = Vec::new();
                    for _ in 0..cnt {
                        if !b.is_empty() && rng.gen_bool(0.1) {
                            let c = b.last().unwrap().clone();
                            b.push(c);
                            continue;
                        }
                        tag += 1;
                        let k = keys.choose(&mut rng).map(|k| k.0.clone()).unwrap_or_default();
                        let o = pick_origin(&mut rng, &mut out, &k, me, &ring, &fin_members);
                        b.push((k, tag, o));
                    }
                    script.push(if c >= 95 { Ev::B(b) } else { Ev::D(b) });
                } else if c < 80 {
                    script.push(Ev::H);
                } else if c < 88 {
                    script.push(Ev::Drain);
                } else if !have_router {
                    script.push(Ev::Set);
                    have_router = true;
                } else {
                    script.push(Ev::Adv);
                }
            }
            let mut gs = if router0 { GossipState::with_router(cfg.clone(), router2) } else { GossipState::new(cfg.clone()) };
            let mut spare = if router0 { None } else { Some(build_router(&shared, m).0) };
            if let Some(sp) = spare.as_mut() {
                for (up, id, a) in &pops {
                    if *up { sp.update_peer(ReplicaId::new(*id), format!("p{}", a)) } else { sp.remove_peer(ReplicaId::new(*id)) }
                }
            }
            gs.epoch = epoch0;
            let owners = |k: &str| -> Vec<u64> { ids(&ring.get_replicas(k)).into_iter().filter(|x| *x != me).collect() };
            let mut queue: Vec<CanonMsg> = Vec::new(); // everything drained, then the final queue
            let mut wantq: Vec<CanonMsg> = Vec::new(); // what the property says must be there
            let (mut cur_epoch, mut cur_router) = (epoch0, router0);
            for ev in &script {
                let before = gs.outbound_queue.len();
                match ev {
                    Ev::Adv => {
                        gs.advance_epoch();
                        cur_epoch = cur_epoch.saturating_add(1);
                    }
                    Ev::D(b) => {
                        let ds: Vec<ReplicationDelta> = b.iter().map(|(k, t, o)| mkd(&mut originals, k, *t, *o)).collect();
                        gs.queue_deltas(ds);
                        if cur_router && selective {
                            let mut w: BTreeMap<u64, Vec<(u64, u64)>> = BTreeMap::new();
                            for (k, t, og) in b {
                                for o in owners(k) {
                                    w.entry(o).or_default().push((*t, *og));
                                }
                            }
                            for (t, ds) in w {
                                wantq.push((Some(t), 1, me, t, ds, cur_epoch));
                            }
                        } else if !b.is_empty() {
                            wantq.push((None, 0, me, 0, b.iter().map(|d| (d.1, d.2)).collect(), cur_epoch));
                        }
                    }
                    Ev::B(b) => {
                        gs.queue_deltas_broadcast(b.iter().map(|(k, t, o)| mkd(&mut originals, k, *t, *o)).collect());
                        if !b.is_empty() {
                            wantq.push((None, 0, me, 0, b.iter().map(|d| (d.1, d.2)).collect(), cur_epoch));
                        }
                    }
                    Ev::H => {
                        gs.queue_heartbeat();
                        wantq.push((None, 2, me, 0, vec![], cur_epoch));
                    }
                    Ev::Drain => {
                        let dr = gs.drain_outbound();
                        whole_ok &= dr.iter().filter_map(|rm| rm.message.clone().into_deltas()).flatten().all(|d| serde_json::to_value(&d).unwrap() == originals[&d.value.timestamp.time]);
                        queue.extend(dr.iter().map(|rm| canon_msg(rm.target, &rm.message)));
                        continue;
                    }
                    Ev::Set => {
                        gs.set_router(spare.take().unwrap());
                        cur_router = true;
                    }
                }
                // the messages one call appended: HashMap order -> by target
                if gs.outbound_queue.len() >= before {
                    gs.outbound_queue[before..].sort_by_key(|rm| rm.target.map(|t| t.0).unwrap_or(0));
                }
            }
            whole_ok &= gs.outbound_queue.iter().filter_map(|rm| rm.message.clone().into_deltas()).flatten().all(|d| serde_json::to_value(&d).unwrap() == originals[&d.value.timestamp.time]);
            queue.extend(gs.outbound_queue.iter().map(|rm| canon_msg(rm.target, &rm.message)));
            out.impl_checks += 1;
            if !whole_ok {
                out.violation(i, "a routed / queued delta is not the delta that was handed in (key, value, stamps, source compared as a whole)", json!({"router": format!("{:?}", m)}));
            }
            if gs.is_selective() != (cur_router && selective) || gs.router().is_some() != cur_router {
                out.violation(i, "GossipState::is_selective / router() disagree with the router that was installed", json!({"router": format!("{:?}", m)}));
            }

            // ---- oracles
            let peer_ids: BTreeSet<u64> = peers.iter().map(|p| p.0).collect();
            if let RMake::Cfg { rid, npeers, .. } = m {
                if *rid >= 1 && *rid <= npeers + 1 && pops.is_empty() {
                    out.count("from_config:1-based member");
                    out.impl_checks += 1;
                    let want: Vec<(u64, u64)> = (1..=npeers + 1).filter(|x| x != rid).enumerate().map(|(j, id)| (id, j as u64)).collect();
                    if peers != want {
                        out.violation(i, "from_config: peer ids are not the other members 1..n in configuration order",
                            json!({"replica_id": rid, "cluster_size": npeers + 1, "peer_ids_with_address_index": peers, "expected": want}));
                    }
                } else {
                    out.count("from_config:id outside 1..n / peers edited");
                }
            }
            let knows_all = fin_members.iter().all(|x| *x == me || peer_ids.contains(x));
            let intended = match m {
                RMake::New { .. } => knows_all,
                // a from_config router of member rid in the cluster 1..n is meant to know everybody
                RMake::Cfg { rid, npeers, .. } if pops.is_empty() => {
                    let n = fin_members.len() as u64;
                    n >= 1 && fin_members.iter().cloned().eq(1..=n) && *rid >= 1 && *rid <= n && *npeers == n - 1
                }
                _ => knows_all,
            };
            if selective && intended {
                out.count("router:selective, knows every member");
                // the property: every owner of the key other than the SENDER (whatever replica
                // the delta originated on), order and multiplicity kept
                let mut want: BTreeMap<u64, Vec<(u64, u64)>> = BTreeMap::new();
                for (k, t, og) in &deltas {
                    for o in owners(k) {
                        want.entry(o).or_default().push((*t, *og));
                    }
                }
                let want: Vec<(u64, Vec<(u64, u64)>)> = want.into_iter().collect();
                out.impl_checks += 1;
                if want != ctable {
                    out.violation(i, "selective routing table is not owners-minus-sender",
                        json!({"router": format!("{:?}", m), "members": fin_members, "rf": ring_rf, "vnodes": vn, "peers": peers,
                               "deltas": deltas, "table": ctable, "expected": want}));
                }
                // everything that left the GossipState: per queue_deltas call every owner other than the
                // sender gets one targeted message with exactly its deltas; broadcasts and heartbeats as queued
                out.impl_checks += 1;
                if wantq != queue {
                    out.violation(i, "queue_deltas does not hand each delta to exactly owners-minus-sender",
                        json!({"router": format!("{:?}", m), "members": fin_members, "script": format!("{:?}", script), "queue": format!("{:?}", queue), "expected": format!("{:?}", wantq)}));
                }
            } else if selective {
                out.count("router:selective, partial knowledge");
                // still: nothing goes to a non-owner, to the sender, or to an unknown peer
                for (t, ds) in &ctable {
                    for tg in ds {
                        let k = &deltas.iter().find(|d| d.1 == tg.0).unwrap().0;
                        out.impl_checks += 1;
                        if !owners(k).contains(t) || !peer_ids.contains(t) {
                            out.violation(i, "selective routing sent a delta to a non-owner / unknown peer", json!({"target": t, "key": k, "router": format!("{:?}", m)}));
                        }
                    }
                }
            } else {
                out.count("router:broadcast");
                let want: Vec<(u64, Vec<(u64, u64)>)> = peer_ids.iter().filter(|p| **p != me).map(|p| (*p, deltas.iter().map(|d| (d.1, d.2)).collect())).collect();
                out.impl_checks += 1;
                if want != ctable {
                    out.violation(i, "broadcast routing table is not every known peer other than self", json!({"router": format!("{:?}", m), "table": ctable, "expected": want}));
                }
                out.impl_checks += 1;
                if wantq != queue {
                    out.violation(i, "GossipState queue differs from what was queued (broadcast mode)",
                        json!({"router": format!("{:?}", m), "script": format!("{:?}", script), "queue": format!("{:?}", queue), "expected": format!("{:?}", wantq)}));
                }
            }

            let mterm = match m {
                RMake::New { me, peers, selective } => format!("(RNew {} {} {})", me, nl(peers), cbool(*selective)),
                RMake::Cfg { rid, npeers, selective, partitioned, enabled } => {
                    format!("(RCfg {} {} {} {} {})", rid, npeers, cbool(*selective), cbool(*partitioned), cbool(*enabled))
                }
            };
            rterms.push(format!(
                "(RC {} {} {} {} {} {} {} {} {} {})",
                mterm,
                clist(pops.iter(), |(up, id, a)| if *up { format!("PUpd {} {}", id, a) } else { format!("PDel {}", id) }),
                clist(deltas.iter(), delta_term),
                clist(peers.iter(), |(a, b)| format!("({},{})", a, b)),
                cbool(selective),
                clist(ctable.iter(), |(t, ds)| format!("({},{})", t, pl(ds))),
                cbool(router0),
                epoch0,
                clist(script.iter(), |e| match e {
                    Ev::Adv => "QAdv".to_string(),
                    Ev::D(b) => format!("QD {}", clist(b.iter(), delta_term)),
                    Ev::B(b) => format!("QB {}", clist(b.iter(), delta_term)),
                    Ev::H => "QH".to_string(),
                    Ev::Drain => "QDrain".to_string(),
                    Ev::Set => "QSet".to_string(),
                }),
                clist(queue.iter(), |q| format!("({},({},({},({},({},{})))))", copt(&q.0, |x| x.to_string()), q.1, q.2, q.3, pl(&q.4), q.5))
            ));
            rshow.push(json!({"router": format!("{:?}", m), "peer_ops": format!("{:?}", pops), "peers": peers, "selective": selective, "deltas": deltas, "table": ctable,
                              "with_router": router0, "epoch0": epoch0, "script": format!("{:?}", script), "queue": format!("{:?}", queue)}));
        }

        // ---------------- large batches through queue_deltas, observed at drain_outbound
        let mut bterms: Vec<String> = Vec::new();
        if bigb {
            let n = fin_members.len() as u64;
            let me = rng.gen_range(1..=n);
            let m = if rng.gen_bool(0.5) {
                let mut peers: Vec<u64> = (1..=n).filter(|x| *x != me).collect();
                peers.shuffle(&mut rng);
                RMake::New { me, peers, selective: true }
            } else {
                RMake::Cfg { rid: me, npeers: n - 1, selective: true, partitioned: true, enabled: true }
            };
            const SIZES: [u64; 9] = [1, 2, 255, 256, 257, 511, 512, 513, 1000];
            let ncalls = rng.gen_range(1..=2);
            let sizes: Vec<u64> = (0..ncalls)
                .map(|_| if rng.gen_bool(0.12) { rng.gen_range(2000..=4000) } else { *SIZES.choose(&mut rng).unwrap() })
                .collect();
            let few = rng.gen_bool(0.5);
            let bkeys: Vec<String> = if few {
                (0..rng.gen_range(1..=3)).map(|_| gen_key(&mut rng)).collect()
            } else {
                let k = (*sizes.iter().max().unwrap()).min(300);
                (0..k).map(|j| format!("big:{}:{}", i, j)).collect()
            };
            let mut origins: Vec<u64> = vec![me];
            for _ in 0..rng.gen_range(0..=2) {
                origins.push(rng.gen_range(1..=n + 2));
            }
            out.count(if few { "big batch:few keys" } else { "big batch:many keys" });
            let (router, cfg) = build_router(&shared, &m);
            let mut gs = GossipState::with_router(cfg, router);
            // in part of the cases the outbound queue is already (almost) full of heartbeats, so the
            // calls cross MAX_OUTBOUND_QUEUE = 10 000 (10 000 - k, exactly full, overflow by a few)
            let pre: u64 = if rng.gen_bool(0.2) { 10_000 - rng.gen_range(0..=10) } else { 0 };
            for _ in 0..pre {
                gs.queue_heartbeat();
            }
            if pre > 0 {
                out.count("big batch:queue pre-filled to 9990..10000");
            }
            let mut base = 0u64;
            let mut sent: Vec<Vec<(String, u64)>> = Vec::new(); // per call: (key, tag)
            for sz in &sizes {
                out.count(&format!("big batch size:{}", if *sz >= 2000 { "2000-4000".to_string() } else { sz.to_string() }));
                let batch: Vec<ReplicationDelta> = (0..*sz)
                    .map(|j| mk_delta(&bkeys[(j % bkeys.len() as u64) as usize], base + j, origins[(j % origins.len() as u64) as usize]))
                    .collect();
                sent.push((0..*sz).map(|j| (bkeys[(j % bkeys.len() as u64) as usize].clone(), base + j)).collect());
                base += sz;
                gs.advance_epoch();
                gs.queue_deltas(batch);
            }
            let drained = gs.drain_outbound();
            // the property, on what actually leaves the node: per call, every owner other
            // than the sender is handed every update exactly as often as it was queued
            // (multiset per target), nobody else is handed anything
            let mut owners_of: HashMap<String, Vec<u64>> = HashMap::new();
            for k in &bkeys {
                owners_of.insert(k.clone(), ids(&ring.get_replicas(k)).into_iter().filter(|x| *x != me).collect());
            }
            let mut got: BTreeMap<(u64, u64), Vec<u64>> = BTreeMap::new(); // (epoch, target) -> tags
            let hb = drained.iter().take_while(|rm| matches!(rm.message, GossipMessage::Heartbeat { .. })).count() as u64;
            {
                let others = drained.len() as u64 - hb;
                out.impl_checks += 1;
                if drained.len() > 10_000 || hb != pre.min(10_000u64.saturating_sub(others)) {
                    out.violation(i, "outbound queue capacity: not exactly the newest 10 000 messages were kept",
                        json!({"prefilled_heartbeats": pre, "queue_len": drained.len(), "heartbeats_left": hb, "batch_sizes": sizes}));
                }
            }
            for rm in drained.iter().skip(hb as usize) {
                out.impl_checks += 1;
                match &rm.message {
                    GossipMessage::TargetedDelta { source_replica, target_replica, deltas, epoch } => {
                        if rm.target != Some(*target_replica) || source_replica.0 != me {
                            out.violation(i, "queue_deltas: targeted message with inconsistent target / source", json!({"message": format!("{:?}", canon_msg(rm.target, &rm.message))}));
                        }
                        got.entry((*epoch, target_replica.0)).or_default().extend(deltas.iter().map(|d| d.value.timestamp.time));
                    }
                    _ => out.violation(i, "queue_deltas (selective): a non-targeted message was queued", json!({"router": format!("{:?}", m)})),
                }
            }
            let mut want: BTreeMap<(u64, u64), Vec<u64>> = BTreeMap::new();
            for (ci, call) in sent.iter().enumerate() {
                for (k, t) in call {
                    for o in &owners_of[k] {
                        want.entry((ci as u64 + 1, *o)).or_default().push(*t);
                    }
                }
            }
            let all_keys: BTreeSet<(u64, u64)> = got.keys().chain(want.keys()).cloned().collect();
            for key in all_keys {
                out.impl_checks += 1;
                let mut g = got.get(&key).cloned().unwrap_or_default();
                let mut w = want.get(&key).cloned().unwrap_or_default();
                g.sort();
                w.sort();
                if g != w {
                    let missing: Vec<u64> = w.iter().filter(|t| g.binary_search(t).is_err()).take(5).cloned().collect();
                    let extra: Vec<u64> = g.iter().filter(|t| w.binary_search(t).is_err()).take(5).cloned().collect();
                    out.violation(i, &format!("queue_deltas: in call {} (batch of {} updates) node {} was handed {} updates, it owns {} of them", key.0, sizes[(key.0 - 1) as usize], key.1, g.len(), w.len()),
                        json!({"router": format!("{:?}", m), "members": fin_members, "rf": rf, "vnodes": vn, "batch_sizes": sizes, "distinct_keys": bkeys.len(),
                               "first_missing_tags": missing, "first_unexpected_tags": extra}));
                }
            }
            if !gs.outbound_queue.is_empty() {
                out.violation(i, "drain_outbound left messages behind", json!({}));
            }
            // digest per message for the model
            let mut dq: Vec<(Option<u64>, u64, u64, u64, u64, u64, u64, u64)> = drained
                .iter()
                .skip(hb as usize)
                .map(|rm| {
                    let c = canon_msg(rm.target, &rm.message);
                    let cnt = c.4.len() as u64;
                    let sm: u64 = c.4.iter().map(|x| x.0).sum();
                    let ws: u64 = c.4.iter().enumerate().map(|(p, x)| (p as u64 + 1) * x.0).sum();
                    (c.0, c.1, c.2, c.3, c.5, cnt, sm, ws)
                })
                .collect();
            dq.sort_by_key(|q| (q.4, q.0.unwrap_or(0)));
            let mterm = match &m {
                RMake::New { me, peers, selective } => format!("(RNew {} {} {})", me, nl(peers), cbool(*selective)),
                RMake::Cfg { rid, npeers, selective, partitioned, enabled } => {
                    format!("(RCfg {} {} {} {} {})", rid, npeers, cbool(*selective), cbool(*partitioned), cbool(*enabled))
                }
            };
            bterms.push(format!(
                "(BG {} {} {} {} {} {} {})",
                mterm,
                clist(bkeys.iter(), |k| chex(k.as_bytes())),
                nl(&origins),
                nl(&sizes),
                pre,
                hb,
                clist(dq.iter(), |q| format!("({},({},({},({},({},({},({},{})))))))", copt(&q.0, |x| x.to_string()), q.1, q.2, q.3, q.4, q.5, q.6, q.7))
            ));
            rshow.push(json!({"big_batches": {"router": format!("{:?}", m), "sizes": sizes, "distinct_keys": bkeys.len(), "origins": origins,
                              "messages (target, kind, src, tgt, epoch, deltas, sum, wsum)": format!("{:?}", dq)}}));
        }

        // ---------------- the case for the model
        let mut universe: BTreeSet<u64> = init.iter().cloned().collect();
        for o in &ops {
            match o {
                Op::Add(x) | Op::Rem(x) => {
                    universe.insert(*x);
                }
            }
        }
        let term = format!(
            "(K {} {} {} {} {} {} {} {} {})",
            vn,
            rf,
            nl(&init),
            clist(ops.iter(), |o| match o {
                Op::Add(x) => format!("OpAdd {}", x),
                Op::Rem(x) => format!("OpRem {}", x),
            }),
            clist(keys.iter(), |(k, r)| format!("({},{})", chex(k.as_bytes()), r)),
            clist(stages.iter(), stage_term),
            nl(&universe.iter().cloned().collect::<Vec<_>>()),
            clist(rterms.iter(), |s| s.clone()),
            clist(bterms.iter(), |s| s.clone())
        );
        let canon = format!("{}|{}|{:?}|{:?}|{:?}", vn, rf, init, ops, keys);
        let nontrivial = fin_members.len() >= 2 && vn >= 1 && !keys.is_empty();
        out.count(&format!("vnodes:{}", match vn { 0 => "0", 1..=8 => "1-8", 9..=40 => "9-40", _ => "100-150" }));
        out.count(&format!("rf:{}", rf));
        out.count(&format!("members_final:{}", fin_members.len()));
        out.count(&format!("ids:{}", if bigb { "big-batch cluster 1..n" } else if wide { "wide cluster (63..200 nodes)" } else if pool_kind < 55 { if sequential { "cluster 1..n" } else { "subset of 1..7" } } else if pool_kind < 66 { "0-based" } else if pool_kind < 74 { "congruent mod 64 / 2^32 / 2^63" } else { "arbitrary u64" }));
        out.count(&format!("ops:{}", ops.len()));
        out.sample(json!({"vnodes": vn, "rf": rf, "init": init, "ops": format!("{:?}", ops), "keys": keys.iter().take(4).collect::<Vec<_>>(),
                          "replicas_final": stages.last().unwrap().reps.iter().take(4).collect::<Vec<_>>()}));
        if args.only.is_some() {
            println!("case {}: vnodes={} rf={} new({:?}) ops={:?}", i, vn, rf, init, ops);
            for (si, st) in stages.iter().enumerate() {
                println!(" stage {}: nodes={:?} version={} ring_len={}", si, st.nodes, st.version, st.ring.as_ref().map(|r| r.len() as i64).unwrap_or(-1));
                for (ki, (k, krf)) in keys.iter().enumerate().take(8) {
                    println!("   key {:?}: get_replicas={:?} with_rf({})={:?}", k, st.reps[ki], krf, st.reps_rf[ki]);
                }
            }
            for r in &rshow {
                println!(" router: {}", r);
            }
        }
        out.case(i, term, nontrivial, &canon);
    }
    out.finish(args.seed);
}

//! C13: compaction never changes what recovery returns.
//!
//! One case = one generated layout: 2-6 segments (real `SegmentWriter`) plus an optional
//! checkpoint (real `CheckpointWriter`) and the manifest `StreamingPersistence::flush` would have
//! written (real `ManifestManager::save`), holding updates issued by 2-4 real
//! `ShardReplicaState`s with independent Lamport clocks (SET with/without expiry, DEL, HSET, HDEL;
//! one kind per key), with overlapping stamp ranges, the same key in several segments, tombstones
//! whose older SET sits in another segment or in the checkpoint, and hash keys written by
//! different replicas with disjoint fields.  A `CompactionConfig` (target size so that in about
//! half of the cases one or two segments are at or above the target and are skipped) and a fixed
//! value of the compactor's time source (production-like / 0 / near the logical stamps).
//!
//! Sequential run on a healthy scripted `ObjectStore`: `RecoveryManager::recover`, then
//! `Compactor::compact`, then `recover` again.  Everything the compaction did (result, store calls,
//! manifest, object names, contents of the new segment, both recoveries) is printed as a Coq
//! `case13`; the model must reproduce it (Corr/C13.v).
//!
//! Direct oracles:
//!  (1) the state folded (real `ReplicatedValue::merge`) from what recovery returns after the
//!      compaction equals the state folded from what it returned before, key by key on `obs`
//!      (modulo dead keys when tombstones were dropped).  A difference where every differing key's
//!      merged value in the compacted inputs is a tombstone below the cutoff `now - ttl` and an
//!      older value of that key sits in a listed segment that was not compacted or in the
//!      checkpoint is the known class C13-tombstone-cutoff; every other difference is a violation;
//!  (2) after an Ok compaction the manifest lists the created segment and none of the removed
//!      ones, every listed segment exists and reads back, and recovery is Ok;
//!  (3) interleavings: for cases whose sequential compaction created a segment, one extra flush
//!      (1-3 new deltas, real `StreamingPersistence`) runs concurrently with the compaction on a
//!      fresh copy of the layout.  Both operations use handles of ONE scripted store that differ
//!      in an actor id; the store admits their calls in a scripted order (`tokio::join!` on a
//!      current-thread runtime; a call waits with `yield_now` until the schedule names its actor).
//!      After both completed, recovery must be Ok and return the state before merged with the
//!      flushed deltas.  A failure when the two manifest updates overlap (the flush's rename falls
//!      between the compaction's manifest load and its rename, or vice versa) is the known class
//!      C13-manifest-swap-race; a failure outside that window is a violation.
use rand::seq::SliceRandom;
use rand::Rng as _;
use redis_sim::io::TimeSource;
use redis_sim::redis::SDS;
use redis_sim::replication::lattice::ReplicaId;
use redis_sim::replication::state::{ReplicatedValue, ReplicationDelta, ShardReplicaState};
use redis_sim::replication::ConsistencyLevel;
use redis_sim::streaming::{
    CheckpointInfo, CheckpointWriter, CompactionConfig, CompactionError, CompactionResult, Compactor, Compression, ListResult, Manifest,
    ManifestManager, ObjectMeta, ObjectStore, RecoveryManager, SegmentInfo, SegmentReader, SegmentWriter, StreamingPersistence,
    WriteBufferConfig,
};
use serde_json::{json, Value};
use std::collections::{BTreeMap, BTreeSet, HashMap};
use std::future::Future;
use std::io::{Error as IoError, ErrorKind, Result as IoResult};
use std::panic::{catch_unwind, AssertUnwindSafe};
use std::pin::Pin;
use std::sync::{Arc, Mutex};
use std::time::Duration;
use vharness::rv::*;
use vharness::util::*;

const HEADER: &str = "From RV Require Import Corr.C13.\nLocal Open Scope string_scope.\nLocal Open Scope N_scope.\nLocal Open Scope list_scope.";
const PREFIX: &str = "p";
const K_CUTOFF: &str = "C13-tombstone-cutoff";
const K_RACE: &str = "C13-manifest-swap-race";
/// (key, is a hash key)
const KEYS: [(&str, bool); 5] = [("k", false), ("j", false), ("m", false), ("h", true), ("g", true)];
const STR_KEYS: [&str; 3] = ["k", "j", "m"];
const VALS: [&[u8]; 5] = [b"a", b"", b"\x00\xff", b"10", b"bb"];
const FIELDS: [&str; 3] = ["f1", "f2", "f3"];

const V_PANIC: &str = "the implementation panicked";
const V_STATE: &str = "the state recovered after compaction differs from the state recovered before it";
const V_MANIFEST: &str = "after an Ok compaction the manifest does not describe the store";
const V_RECOVER: &str = "recovery fails on an intact layout";
const V_COMPERR: &str = "compaction failed on a healthy store";
const V_DROPPED: &str = "compaction retired a segment it could not read (dropped it from the manifest or deleted it) although none of its deltas were merged";
const V_STEP: &str = "the state recovered at a crash instant inside the compaction differs from the state recovered before it";
const V_UNDET: &str = "a damaged segment image passes SegmentReader::open and validate and decodes to different deltas";
const V_INTER: &str = "a flush interleaved with a compaction outside the manifest race window changed the recovered state";

type KV = BTreeMap<String, ReplicatedValue>;
type Map = BTreeMap<String, Arc<Vec<u8>>>;

// ------------------------------------------------------------------ the scripted store

#[derive(Clone, Debug, PartialEq, Eq)]
enum Name {
    Man,
    Tmp,
    Seg(u64),
    Ck(u64),
    Other(String),
}
impl Name {
    fn of(key: &str) -> Name {
        let seg = format!("{}/segments/segment-", PREFIX);
        let ck = format!("{}/checkpoints/chk-", PREFIX);
        if key == format!("{}/manifest.json", PREFIX) {
            Name::Man
        } else if key == format!("{}/manifest.json.tmp", PREFIX) {
            Name::Tmp
        } else if let Some(n) = key.strip_prefix(&seg).and_then(|s| s.strip_suffix(".seg")).and_then(|s| s.parse::<u64>().ok()) {
            Name::Seg(n)
        } else if let Some(n) = key.strip_prefix(&ck).and_then(|s| s.strip_suffix(".chk")).and_then(|s| s.parse::<u64>().ok()) {
            Name::Ck(n)
        } else {
            Name::Other(key.to_string())
        }
    }
    fn term(&self) -> String {
        match self {
            Name::Man => "NMan".into(),
            Name::Tmp => "NTmp".into(),
            Name::Seg(n) => format!("(NSeg {})", n),
            Name::Ck(n) => format!("(NCk {})", n),
            Name::Other(_) => "(NCk 0)".into(),
        }
    }
}
#[derive(Clone, Debug)]
enum CallDesc {
    Put(Name),
    Get(Name),
    Rename(Name, Name),
    Delete(Name),
    Exists(Name),
    List,
}
impl CallDesc {
    fn term(&self) -> String {
        match self {
            CallDesc::Put(n) => format!("(CPut {})", n.term()),
            CallDesc::Get(n) => format!("(CGet {})", n.term()),
            CallDesc::Rename(a, b) => format!("(CRename {} {})", a.term(), b.term()),
            CallDesc::Delete(n) => format!("(CDelete {})", n.term()),
            CallDesc::Exists(n) => format!("(CExists {})", n.term()),
            CallDesc::List => "CList".into(),
        }
    }
    fn is_rename(&self) -> bool {
        matches!(self, CallDesc::Rename(..))
    }
    fn unknown_name(&self) -> bool {
        let o = |n: &Name| matches!(n, Name::Other(_));
        match self {
            CallDesc::Put(n) | CallDesc::Get(n) | CallDesc::Delete(n) | CallDesc::Exists(n) => o(n),
            CallDesc::Rename(a, b) => o(a) || o(b),
            CallDesc::List => false,
        }
    }
}

#[derive(Default)]
struct Inner {
    map: Map,
    logging: bool,
    /// (actor, call) in the order the calls were admitted
    log: Vec<(u8, CallDesc)>,
    /// the order in which the actors' calls are admitted; None = admit anyone
    sched: Option<Vec<u8>>,
    pos: usize,
    finished: [bool; 2],
    started: [bool; 2],
    /// the map as it was when the actor made its first call under a schedule
    snap_first: [Option<Map>; 2],
    /// outcome of every logged call ("OK", "GB" = get returned bytes damaged in transit,
    /// "EN" = the call failed without effect), parallel to `log`
    outcomes: Vec<&'static str>,
    /// the whole map after every logged call
    snaps: Vec<Map>,
    /// read fault armed for the n-th GET of a segment object (0-based, counted while logging)
    read_fault: Option<ReadFault>,
    seg_gets: usize,
    /// what the armed read fault did, once it fired
    fault_note: Option<String>,
    /// a damaged image that still decodes to DIFFERENT deltas was handed out
    undetected: Option<String>,
    /// (call index among get/put/rename since arming, kind: 0 = error without effect, 1 = put
    /// stores a strict prefix and fails): used to run a flush that fails at its manifest step
    write_fault: Option<(usize, u8)>,
    wf_calls: usize,
}
#[derive(Clone, Debug)]
enum ReadFault {
    /// the bytes returned by the get have one bit flipped (the object at rest is untouched)
    Garble { nth: usize, pos_draw: u64, bit: u8, region: u8 },
    /// the get fails with an I/O error of kind Other
    Fail { nth: usize },
}
/// one flipped bit at `pos`, and in half of the cases more, structure-aware damage: a second flip in
/// another region, a zero-filled range of 16 bytes, a structural header field (record count, min,
/// max, checksum: bytes 8..36) set to 0xFF, a header byte +1, a zero-filled footer
fn extra_damage(buf: &mut Vec<u8>, pos: usize, bit: u8, draw: u64) {
    let len = buf.len();
    buf[pos] ^= 1u8 << (bit % 8);
    match (draw >> 32) % 10 {
        0 => {
            let other = if pos < 64 && len > 90 { 64 + (draw as usize) % (len - 88) } else { (draw as usize) % 64.min(len) };
            buf[other] ^= 0x10;
        }
        1 => {
            for b in buf.iter_mut().skip(pos).take(16) {
                *b = 0;
            }
        }
        2 => {
            let f = 8 + ((draw as usize) % 7) * 4;
            for b in buf.iter_mut().skip(f).take(4) {
                *b = 0xFF;
            }
        }
        3 => {
            let h = (draw as usize) % 40.min(len);
            buf[h] = buf[h].wrapping_add(1);
        }
        4 => {
            for b in buf.iter_mut().skip(len.saturating_sub(24)) {
                *b = 0;
            }
        }
        _ => {}
    }
}
fn region_name(pos: usize, len: usize) -> &'static str {
    if pos < 64 { "header" } else if pos + 24 >= len { "footer" } else { "data" }
}
/// position of the flipped byte: region 0 = header (first 64 bytes), 1 = record data, 2 = footer (last 24)
fn flip_pos(len: usize, region: u8, draw: u64) -> usize {
    if len == 0 { return 0; }
    let (lo, hi) = match region {
        0 => (0usize, 64.min(len)),
        2 => (len.saturating_sub(24), len),
        _ => if len > 88 { (64, len - 24) } else { (0, len) },
    };
    lo + (draw as usize) % (hi - lo).max(1)
}
impl Inner {
    /// may `actor` make its next call now?  (claims the schedule slot when it may)
    fn my_turn(&mut self, actor: u8) -> bool {
        let ok = match &self.sched {
            None => true,
            Some(s) => {
                while self.pos < s.len() && self.finished[s[self.pos] as usize] {
                    self.pos += 1;
                }
                if self.pos >= s.len() {
                    true
                } else if s[self.pos] == actor {
                    self.pos += 1;
                    true
                } else {
                    false
                }
            }
        };
        if ok && self.sched.is_some() && !self.started[actor as usize] {
            self.started[actor as usize] = true;
            self.snap_first[actor as usize] = Some(self.map.clone());
        }
        ok
    }
    fn rec(&mut self, actor: u8, c: CallDesc) {
        self.rec_o(actor, c, "OK");
    }
    fn wf_tick(&mut self) -> Option<u8> {
        if let Some((idx, k)) = self.write_fault {
            let n = self.wf_calls;
            self.wf_calls += 1;
            if n == idx {
                return Some(k);
            }
        }
        None
    }
    fn rec_o(&mut self, actor: u8, c: CallDesc, o: &'static str) {
        if self.logging {
            self.log.push((actor, c));
            self.outcomes.push(o);
            let m = self.map.clone();
            self.snaps.push(m);
        }
    }
}
/// A healthy in-memory object store.  Handles share one `Inner` and differ in `actor`.
#[derive(Clone)]
struct ScriptedStore {
    inner: Arc<Mutex<Inner>>,
    actor: u8,
}
fn not_found(key: &str) -> IoError {
    IoError::new(ErrorKind::NotFound, format!("Key not found: {}", key))
}
impl ScriptedStore {
    fn new(map: Map) -> ScriptedStore {
        ScriptedStore { inner: Arc::new(Mutex::new(Inner { map, ..Default::default() })), actor: 0 }
    }
    fn handle(&self, actor: u8) -> ScriptedStore {
        ScriptedStore { inner: self.inner.clone(), actor }
    }
    fn start_log(&self) {
        let mut g = self.inner.lock().unwrap();
        g.log.clear();
        g.outcomes.clear();
        g.snaps.clear();
        g.seg_gets = 0;
        g.logging = true;
    }
    fn arm_write_fault(&self, f: Option<(usize, u8)>) {
        let mut g = self.inner.lock().unwrap();
        g.write_fault = f;
        g.wf_calls = 0;
    }
    fn arm_read_fault(&self, f: Option<ReadFault>) {
        self.inner.lock().unwrap().read_fault = f;
    }
    fn take_outcomes(&self) -> Vec<&'static str> {
        std::mem::take(&mut self.inner.lock().unwrap().outcomes)
    }
    fn take_snaps(&self) -> Vec<Map> {
        std::mem::take(&mut self.inner.lock().unwrap().snaps)
    }
    fn fault_note(&self) -> Option<String> {
        self.inner.lock().unwrap().fault_note.clone()
    }
    fn undetected(&self) -> Option<String> {
        self.inner.lock().unwrap().undetected.clone()
    }
    fn take_log(&self) -> Vec<(u8, CallDesc)> {
        let mut g = self.inner.lock().unwrap();
        g.logging = false;
        std::mem::take(&mut g.log)
    }
    fn arm(&self, schedule: Vec<u8>) {
        let mut g = self.inner.lock().unwrap();
        g.log.clear();
        g.outcomes.clear();
        g.snaps.clear();
        g.logging = true;
        g.sched = Some(schedule);
        g.pos = 0;
        g.finished = [false; 2];
        g.started = [false; 2];
        g.snap_first = [None, None];
    }
    fn disarm(&self) {
        let mut g = self.inner.lock().unwrap();
        g.sched = None;
    }
    /// this actor's operation has completed: its remaining schedule entries are skipped
    fn finish(&self) {
        let mut g = self.inner.lock().unwrap();
        g.finished[self.actor as usize] = true;
    }
    fn map(&self) -> Map {
        self.inner.lock().unwrap().map.clone()
    }
    fn snap_first(&self, actor: u8) -> Option<Map> {
        self.inner.lock().unwrap().snap_first[actor as usize].clone()
    }
    fn my_turn(&self) -> bool {
        self.inner.lock().unwrap().my_turn(self.actor)
    }
    /// every trait method first waits until the schedule admits a call of this actor
    async fn turn(&self) {
        while !self.my_turn() {
            tokio::task::yield_now().await;
        }
    }
}
impl ObjectStore for ScriptedStore {
    fn put<'a>(&'a self, key: &'a str, data: &'a [u8]) -> Pin<Box<dyn Future<Output = IoResult<()>> + Send + 'a>> {
        Box::pin(async move {
            self.turn().await;
            let mut g = self.inner.lock().unwrap();
            match g.wf_tick() {
                Some(0) => {
                    g.rec_o(self.actor, CallDesc::Put(Name::of(key)), "EN");
                    return Err(IoError::new(ErrorKind::Other, "injected"));
                }
                Some(_) => {
                    let n = data.len() / 2;
                    g.map.insert(key.to_string(), Arc::new(data[..n].to_vec()));
                    g.rec_o(self.actor, CallDesc::Put(Name::of(key)), "ET");
                    return Err(IoError::new(ErrorKind::Other, "injected"));
                }
                None => {}
            }
            g.map.insert(key.to_string(), Arc::new(data.to_vec()));
            g.rec(self.actor, CallDesc::Put(Name::of(key)));
            Ok(())
        })
    }
    fn get<'a>(&'a self, key: &'a str) -> Pin<Box<dyn Future<Output = IoResult<Vec<u8>>> + Send + 'a>> {
        Box::pin(async move {
            self.turn().await;
            let mut g = self.inner.lock().unwrap();
            let _ = g.wf_tick();
            let mut res = g.map.get(key).map(|d| d.as_ref().clone()).ok_or_else(|| not_found(key));
            let mut outcome = "OK";
            if g.logging && matches!(Name::of(key), Name::Seg(_)) {
                let n = g.seg_gets;
                g.seg_gets += 1;
                match g.read_fault.clone() {
                    Some(ReadFault::Fail { nth }) if nth == n => {
                        res = Err(IoError::new(ErrorKind::Other, "injected read failure"));
                        outcome = "EN";
                        g.fault_note = Some(format!("get #{} of a segment ({}) failed with an I/O error", n, key));
                    }
                    Some(ReadFault::Garble { nth, pos_draw, bit, region }) if nth == n => {
                        if let Ok(buf) = &mut res {
                            if !buf.is_empty() {
                                let clean = read_seg(buf);
                                let pos = flip_pos(buf.len(), region, pos_draw);
                                extra_damage(buf, pos, bit, pos_draw);
                                let seen = read_seg(buf);
                                let same = match (&clean, &seen) {
                                    (Some(a), Some(b)) => a.len() == b.len() && a.iter().zip(b.iter()).all(|(x, y)| x.key == y.key && x.source_replica == y.source_replica && obs(&x.value) == obs(&y.value)),
                                    _ => false,
                                };
                                let what = format!("get #{} of a segment ({}): bit {} of byte {} of {} flipped in the returned buffer ({}), object at rest intact", n, key, bit % 8, pos, buf.len(), region_name(pos, buf.len()));
                                if seen.is_none() {
                                    outcome = "GB";
                                    g.fault_note = Some(format!("{}: rejected by SegmentReader::open/validate/read_all", what));
                                } else if same {
                                    g.fault_note = Some(format!("{}: harmless (decodes to the same deltas)", what));
                                } else {
                                    g.undetected = Some(format!("{}: the damaged image passes open+validate and decodes to different deltas", what));
                                    g.fault_note = g.undetected.clone();
                                }
                            }
                        }
                    }
                    _ => {}
                }
            }
            g.rec_o(self.actor, CallDesc::Get(Name::of(key)), outcome);
            res
        })
    }
    fn exists<'a>(&'a self, key: &'a str) -> Pin<Box<dyn Future<Output = IoResult<bool>> + Send + 'a>> {
        Box::pin(async move {
            self.turn().await;
            let mut g = self.inner.lock().unwrap();
            let res = Ok(g.map.contains_key(key));
            g.rec(self.actor, CallDesc::Exists(Name::of(key)));
            res
        })
    }
    fn delete<'a>(&'a self, key: &'a str) -> Pin<Box<dyn Future<Output = IoResult<()>> + Send + 'a>> {
        Box::pin(async move {
            self.turn().await;
            let mut g = self.inner.lock().unwrap();
            g.map.remove(key);
            g.rec(self.actor, CallDesc::Delete(Name::of(key)));
            Ok(())
        })
    }
    fn list<'a>(&'a self, prefix: &'a str, _continuation_token: Option<&'a str>) -> Pin<Box<dyn Future<Output = IoResult<ListResult>> + Send + 'a>> {
        Box::pin(async move {
            self.turn().await;
            let mut g = self.inner.lock().unwrap();
            let objects: Vec<ObjectMeta> = g
                .map
                .iter()
                .filter(|(k, _)| k.starts_with(prefix))
                .map(|(k, v)| ObjectMeta { key: k.clone(), size_bytes: v.len() as u64, created_at_ms: 0, etag: None })
                .collect();
            g.rec(self.actor, CallDesc::List);
            Ok(ListResult { objects, continuation_token: None })
        })
    }
    fn rename<'a>(&'a self, from: &'a str, to: &'a str) -> Pin<Box<dyn Future<Output = IoResult<()>> + Send + 'a>> {
        Box::pin(async move {
            self.turn().await;
            let mut g = self.inner.lock().unwrap();
            if g.wf_tick().is_some() {
                g.rec_o(self.actor, CallDesc::Rename(Name::of(from), Name::of(to)), "EN");
                return Err(IoError::new(ErrorKind::Other, "injected"));
            }
            let res = match g.map.remove(from) {
                Some(obj) => {
                    g.map.insert(to.to_string(), obj);
                    Ok(())
                }
                None => Err(IoError::new(ErrorKind::NotFound, format!("Source key not found: {}", from))),
            };
            g.rec(self.actor, CallDesc::Rename(Name::of(from), Name::of(to)));
            res
        })
    }
    /// not in the model: logged as a get
    fn head<'a>(&'a self, key: &'a str) -> Pin<Box<dyn Future<Output = IoResult<ObjectMeta>> + Send + 'a>> {
        Box::pin(async move {
            self.turn().await;
            let mut g = self.inner.lock().unwrap();
            let res = g.map.get(key).map(|d| ObjectMeta { key: key.to_string(), size_bytes: d.len() as u64, created_at_ms: 0, etag: None }).ok_or_else(|| not_found(key));
            g.rec(self.actor, CallDesc::Get(Name::of(key)));
            res
        })
    }
}

#[derive(Clone)]
struct FixedTime(u64);
impl TimeSource for FixedTime {
    fn now_millis(&self) -> u64 {
        self.0
    }
}

// ------------------------------------------------------------------ printing (copied from c11.rs)

fn delta_term(d: &ReplicationDelta) -> String {
    format!("(D {} {} {})", chex(d.key.as_bytes()), rv_term(&d.value, false), d.source_replica.0)
}
fn delta_text(d: &ReplicationDelta) -> String {
    format!("{}@{} src={}", d.key, obs(&d.value), d.source_replica.0)
}
/// Notation style of a printed term.  `Plain` is the readable form; `Explicit` writes every
/// implicit type argument so that Coq creates no existential variables while elaborating a case.
#[derive(Clone, Copy, PartialEq, Eq)]
enum Style {
    Plain,
    Explicit,
}
const T_KV: &str = "(prod string rvalue)";
const T_OBJ: &str = "(prod name (sobj obj))";
const T_AFTER: &str = "(prod (prod N (list seginfo)) N)";
impl Style {
    fn list(self, ty: &str, items: &[String]) -> String {
        match self {
            Style::Plain => format!("[{}]", items.join("; ")),
            Style::Explicit => {
                let mut o = String::new();
                for it in items {
                    o.push_str(&format!("(@cons {} {} ", ty, it));
                }
                o.push_str(&format!("(@nil {})", ty));
                for _ in items {
                    o.push(')');
                }
                o
            }
        }
    }
    fn pair(self, ta: &str, tb: &str, a: &str, b: &str) -> String {
        match self {
            Style::Plain => format!("({}, {})", a, b),
            Style::Explicit => format!("(@pair {} {} {} {})", ta, tb, a, b),
        }
    }
    fn some(self, ty: &str, x: &str) -> String {
        match self {
            Style::Plain => format!("(Some {})", x),
            Style::Explicit => format!("(@Some {} {})", ty, x),
        }
    }
    fn none(self, ty: &str) -> String {
        match self {
            Style::Plain => "None".to_string(),
            Style::Explicit => format!("(@None {})", ty),
        }
    }
    fn opt(self, ty: &str, x: &Option<String>) -> String {
        match x {
            Some(x) => self.some(ty, x),
            None => self.none(ty),
        }
    }
}
fn lww_x(v: &Value, st: Style) -> String {
    let val = match &v["value"] {
        Value::Null => None,
        Value::Array(a) => {
            let b: Vec<u8> = a.iter().map(|x| x.as_u64().unwrap() as u8).collect();
            Some(chex(&b))
        }
        _ => panic!("lww value"),
    };
    format!(
        "(L {} {} {} {})",
        st.opt("string", &val),
        v["timestamp"]["time"].as_u64().unwrap(),
        v["timestamp"]["replica_id"].as_u64().unwrap(),
        cbool(v["tombstone"].as_bool().unwrap())
    )
}
/// `rv_term(v, false)` in either style; shapes that do not occur here fall back to rv_term
fn value_x(v: &ReplicatedValue, st: Style) -> String {
    let j = serde_json::to_value(v).unwrap();
    let (k, c) = j["crdt"].as_object().unwrap().iter().next().unwrap();
    let crdt = match k.as_str() {
        "Lww" => format!("(cl {})", lww_x(c, st)),
        "Hash" => {
            let m: BTreeMap<&String, &Value> = c.as_object().unwrap().iter().collect();
            let items: Vec<String> = m.iter().map(|(f, l)| st.pair("string", "lww", &chex(f.as_bytes()), &lww_x(l, st))).collect();
            format!("(ch {})", st.list("(prod string lww)", &items))
        }
        _ => return rv_term(v, false),
    };
    if !j["vector_clock"].is_null() {
        return rv_term(v, false);
    }
    format!(
        "(V {} {} {} {} {} {})",
        crdt,
        st.none("(list (prod N N))"),
        st.opt("N", &v.expiry_ms.map(|e| e.to_string())),
        v.timestamp.time,
        v.timestamp.replica_id.0,
        st.opt("N", &v.replication_factor.map(|e| e.to_string()))
    )
}
trait Pr {
    fn st(&self) -> Style;
    fn d(&mut self, d: &ReplicationDelta) -> String;
    fn v(&mut self, v: &ReplicatedValue) -> String;
}
struct Plain;
impl Pr for Plain {
    fn st(&self) -> Style {
        Style::Plain
    }
    fn d(&mut self, d: &ReplicationDelta) -> String {
        delta_term(d)
    }
    fn v(&mut self, v: &ReplicatedValue) -> String {
        rv_term(v, false)
    }
}
#[derive(Default)]
struct Collect {
    standalone: BTreeSet<String>,
}
impl Pr for Collect {
    fn st(&self) -> Style {
        Style::Plain
    }
    fn d(&mut self, _d: &ReplicationDelta) -> String {
        String::new()
    }
    fn v(&mut self, v: &ReplicatedValue) -> String {
        self.standalone.insert(rv_term(v, false));
        String::new()
    }
}
#[derive(Default)]
struct Intern {
    lit: HashMap<String, String>,
    names: HashMap<String, String>,
    defs: Vec<(String, String)>,
    standalone: BTreeSet<String>,
}
impl Intern {
    /// replace every string literal and every number of `text` by a let-bound name
    fn lits(&mut self, text: &str) -> String {
        let b = text.as_bytes();
        let mut o = String::with_capacity(text.len());
        let mut i = 0;
        while i < b.len() {
            let c = b[i];
            if c.is_ascii_alphabetic() || c == b'_' {
                let st = i;
                while i < b.len() && (b[i].is_ascii_alphanumeric() || b[i] == b'_' || b[i] == b'\'') {
                    i += 1;
                }
                o.push_str(&text[st..i]);
            } else if c == b'"' {
                let st = i;
                i += 1;
                while i < b.len() && b[i] != b'"' {
                    i += 1;
                }
                i += 1;
                let name = self.lit_name(&text[st..i], "s");
                o.push_str(&name);
            } else if c.is_ascii_digit() {
                let st = i;
                while i < b.len() && b[i].is_ascii_digit() {
                    i += 1;
                }
                let name = self.lit_name(&text[st..i], "n");
                o.push_str(&name);
            } else {
                o.push(c as char);
                i += 1;
            }
        }
        o
    }
    fn lit_name(&mut self, lit: &str, pre: &str) -> String {
        if let Some(n) = self.lit.get(lit) {
            return n.clone();
        }
        let n = format!("{}{}", pre, self.defs.len());
        self.lit.insert(lit.to_string(), n.clone());
        self.defs.push((n.clone(), lit.to_string()));
        n
    }
    fn def(&mut self, plain: String, pre: &str, body: String) -> String {
        let n = format!("{}{}", pre, self.defs.len());
        self.names.insert(plain, n.clone());
        self.defs.push((n.clone(), body));
        n
    }
    fn wrap(&self, body: &str) -> String {
        let mut o = String::from("(");
        for (n, b) in &self.defs {
            o.push_str(&format!("let {} := {} in ", n, b));
        }
        o.push_str(body);
        o.push(')');
        o
    }
}
impl Pr for Intern {
    fn st(&self) -> Style {
        Style::Explicit
    }
    fn v(&mut self, v: &ReplicatedValue) -> String {
        let plain = rv_term(v, false);
        if let Some(n) = self.names.get(&plain) {
            return n.clone();
        }
        assert_eq!(value_x(v, Style::Plain), plain, "harness: value_x disagrees with rv_term");
        let body = self.lits(&value_x(v, Style::Explicit));
        self.def(plain, "v", body)
    }
    fn d(&mut self, d: &ReplicationDelta) -> String {
        let plain = delta_term(d);
        if let Some(n) = self.names.get(&plain) {
            return n.clone();
        }
        let vplain = rv_term(&d.value, false);
        let vn = if self.standalone.contains(&vplain) || self.names.contains_key(&vplain) {
            self.v(&d.value)
        } else {
            assert_eq!(value_x(&d.value, Style::Plain), vplain, "harness: value_x disagrees with rv_term");
            self.lits(&value_x(&d.value, Style::Explicit))
        };
        let body = format!("D {} {} {}", self.lits(&chex(d.key.as_bytes())), vn, self.lits(&d.source_replica.0.to_string()));
        self.def(plain, "d", body)
    }
}
fn kv_term(s: &KV, p: &mut dyn Pr) -> String {
    let st = p.st();
    let v: Vec<String> = s.iter().map(|(k, v)| st.pair("string", "rvalue", &chex(k.as_bytes()), &p.v(v))).collect();
    st.list(T_KV, &v)
}
fn deltas_term<'a>(ds: impl IntoIterator<Item = &'a ReplicationDelta>, p: &mut dyn Pr) -> String {
    let v: Vec<String> = ds.into_iter().map(|d| p.d(d)).collect();
    p.st().list("delta", &v)
}
fn opt_deltas_term(ds: &Option<Vec<ReplicationDelta>>, p: &mut dyn Pr) -> String {
    let x = ds.as_ref().map(|ds| deltas_term(ds.iter(), p));
    p.st().opt("(list delta)", &x)
}

// ------------------------------------------------------------------ states

fn merge_into(s: &mut KV, k: &str, v: &ReplicatedValue) {
    let nv = match s.get(k) {
        Some(x) => x.merge(v),
        None => v.clone(),
    };
    s.insert(k.to_string(), nv);
}
/// what apply_recovered_state does, with the real merge: checkpoint entries installed, deltas merged
fn fold_recovered(ck: &Option<HashMap<String, ReplicatedValue>>, ds: &[ReplicationDelta]) -> KV {
    let mut s = KV::new();
    if let Some(c) = ck {
        for (k, v) in c {
            s.insert(k.clone(), v.clone());
        }
    }
    for d in ds {
        merge_into(&mut s, &d.key, &d.value);
    }
    s
}
fn fold_more(base: &KV, ds: &[ReplicationDelta]) -> KV {
    let mut s = base.clone();
    for d in ds {
        merge_into(&mut s, &d.key, &d.value);
    }
    s
}
fn obs_view(s: &KV, modulo_dead: bool) -> BTreeMap<String, String> {
    s.iter().filter(|(_, v)| !(modulo_dead && v.is_tombstone())).map(|(k, v)| (k.clone(), obs(v))).collect()
}
/// keys on which two states differ (absent on one side counts; a dead key counts as absent
/// when `modulo_dead`)
fn diff_keys(a: &KV, b: &KV, modulo_dead: bool) -> Vec<String> {
    let (oa, ob) = (obs_view(a, modulo_dead), obs_view(b, modulo_dead));
    let keys: BTreeSet<&String> = oa.keys().chain(ob.keys()).collect();
    keys.into_iter().filter(|k| oa.get(*k) != ob.get(*k)).cloned().collect()
}
fn show(s: &KV, k: &str) -> String {
    s.get(k).map(obs).unwrap_or_else(|| "(absent)".into())
}
fn kv_json(s: &KV) -> Value {
    json!(obs_view(s, false))
}
fn value_kind(v: &ReplicatedValue) -> &'static str {
    let j = serde_json::to_value(v).unwrap();
    let (k, c) = j["crdt"].as_object().unwrap().iter().next().unwrap();
    match k.as_str() {
        "Lww" => {
            if c["tombstone"].as_bool().unwrap_or(false) {
                "kind:lww-tombstone"
            } else if v.expiry_ms.is_some() {
                "kind:lww-with-expiry"
            } else {
                "kind:lww"
            }
        }
        "Hash" => {
            if c.as_object().unwrap().values().any(|l| l["tombstone"].as_bool().unwrap_or(false)) {
                "kind:hash-with-tombstoned-field"
            } else {
                "kind:hash"
            }
        }
        _ => "kind:other",
    }
}
fn read_seg(data: &[u8]) -> Option<Vec<ReplicationDelta>> {
    let rd = SegmentReader::open(data).ok()?;
    rd.validate().ok()?;
    rd.read_all().ok()
}
fn bump(out: &mut Out, k: &str, n: u64) {
    *out.dist.entry(k.to_string()).or_insert(0) += n;
}

// ------------------------------------------------------------------ the generated layout

struct SegSpec {
    id: u64,
    deltas: Vec<ReplicationDelta>,
    data: Vec<u8>,
    info: SegmentInfo,
}
struct CkSpec {
    ts: u64,
    last: u64,
    state: KV,
    data: Vec<u8>,
    key: String,
}
struct Layout {
    nrep: usize,
    clock_mode: u8,
    disjoint: bool,
    start_clocks: Vec<u64>,
    segs: Vec<SegSpec>,
    ck: Option<CkSpec>,
    version: u64,
    target: usize,
    min: usize,
    maxper: usize,
    ttl_ms: u64,
    now: u64,
    now_class: &'static str,
    flush_deltas: Vec<ReplicationDelta>,
}
fn seg_key(id: u64) -> String {
    format!("{}/segments/segment-{:08}.seg", PREFIX, id)
}

#[derive(Clone, Copy)]
enum Force {
    Set(&'static str),
    Del(&'static str),
}
/// one delta issued by replica `r` (a real ShardReplicaState)
fn gen_one(rng: &mut Rng, reps: &mut Vec<ShardReplicaState>, r: usize, disjoint: bool, force: Option<Force>) -> ReplicationDelta {
    let set = |rng: &mut Rng, rep: &mut ShardReplicaState, key: &str| {
        let exp = if rng.gen_bool(0.3) { Some(rng.gen_range(1..5u64) * 1000) } else { None };
        rep.record_write(key.to_string(), SDS::new(VALS[rng.gen_range(0..VALS.len())].to_vec()), exp)
    };
    let d = match force {
        Some(Force::Set(k)) => set(rng, &mut reps[r], k),
        Some(Force::Del(k)) => match reps[r].record_delete(k.to_string()) {
            Some(d) => d,
            None => set(rng, &mut reps[r], k),
        },
        None => {
            let (key, is_hash) = KEYS[rng.gen_range(0..KEYS.len())];
            if is_hash {
                let own = FIELDS[r % FIELDS.len()].to_string();
                let del = if rng.gen_bool(0.25) {
                    let f = if disjoint { own.clone() } else { FIELDS[rng.gen_range(0..FIELDS.len())].to_string() };
                    reps[r].record_hash_delete(key.to_string(), vec![f])
                } else {
                    None
                };
                match del {
                    Some(d) => d,
                    None => {
                        let fs: Vec<(String, SDS)> = if disjoint {
                            vec![(own, SDS::new(VALS[rng.gen_range(0..VALS.len())].to_vec()))]
                        } else {
                            let n = rng.gen_range(1..3);
                            (0..n).map(|_| (FIELDS[rng.gen_range(0..FIELDS.len())].to_string(), SDS::new(VALS[rng.gen_range(0..VALS.len())].to_vec()))).collect()
                        };
                        reps[r].record_hash_write(key.to_string(), fs)
                    }
                }
            } else {
                let del = if rng.gen_bool(0.3) { reps[r].record_delete(key.to_string()) } else { None };
                match del {
                    Some(d) => d,
                    None => set(rng, &mut reps[r], key),
                }
            }
        }
    };
    ReplicationDelta::new(d.key, d.value, d.source_replica)
}

fn gen_layout(rng: &mut Rng) -> Layout {
    let nrep = rng.gen_range(2..=4usize);
    let mut reps: Vec<ShardReplicaState> = (1..=nrep as u64).map(|r| ShardReplicaState::new(ReplicaId(r), ConsistencyLevel::Eventual)).collect();
    // clocks: 0 = all small (ties between replicas), 1 = interleaved (frequent cross delivery),
    // 2 = one replica far ahead
    let clock_mode = rng.gen_range(0..3u8);
    let far = rng.gen_range(0..nrep);
    let mut start_clocks = Vec::new();
    for (r, rep) in reps.iter_mut().enumerate() {
        rep.lamport_clock.time = match clock_mode {
            0 => rng.gen_range(0..4u64),
            1 => rng.gen_range(0..20u64),
            _ => {
                if r == far {
                    // a fifth of the far-ahead clocks sit at the top of the u64 range (lesson 5)
                    let v = rng.gen_range(1000..1_000_000u64);
                    match v % 10 { 0 => (1u64 << 63) + v, 1 => u64::MAX - (1u64 << 24) - v, _ => v }
                } else {
                    rng.gen_range(0..10u64)
                }
            }
        };
        start_clocks.push(rep.lamport_clock.time);
    }
    let p_cross = if clock_mode == 1 { 0.3 } else { 0.1 };
    let disjoint = rng.gen_bool(0.5);
    let nseg = rng.gen_range(2..=6usize);
    let big_old = rng.gen_bool(0.6);
    let nbig = rng.gen_range(1..=2usize);
    let cnt: Vec<usize> = (0..nseg)
        .map(|j| {
            if big_old && j < nbig {
                rng.gen_range(5..=8)
            } else if rng.gen_bool(0.15) {
                rng.gen_range(1..=8)
            } else {
                rng.gen_range(1..=4)
            }
        })
        .collect();
    let total: usize = cnt.iter().sum();
    let has_ck = rng.gen_bool(0.3);
    let n_ck = if has_ck { rng.gen_range(1..=5usize) } else { 0 };
    // planted: SET K by replica pr early (first segment or checkpoint), DEL K by pr in a later segment
    let planted = rng.gen_bool(0.55);
    let pk = STR_KEYS[rng.gen_range(0..STR_KEYS.len())];
    let pr = rng.gen_range(0..nrep);
    let set_in_ck = has_ck && rng.gen_bool(0.5);
    let set_at = if set_in_ck { rng.gen_range(0..n_ck) } else { rng.gen_range(0..cnt[0]) };
    let del_at = rng.gen_range(cnt[0]..total);

    let mut issue = |rng: &mut Rng, reps: &mut Vec<ShardReplicaState>, force: Option<(usize, Force)>| -> ReplicationDelta {
        let (r, f) = match force {
            Some((r, f)) => (r, Some(f)),
            None => (rng.gen_range(0..nrep), None),
        };
        let d = gen_one(rng, reps, r, disjoint, f);
        if rng.gen_bool(p_cross) {
            let t = rng.gen_range(0..nrep);
            if t != r {
                reps[t].apply_remote_delta(d.clone());
            }
        }
        d
    };
    // checkpoint updates first
    let mut ck_updates: Vec<ReplicationDelta> = Vec::new();
    for x in 0..n_ck {
        let f = if planted && set_in_ck && x == set_at { Some((pr, Force::Set(pk))) } else { None };
        ck_updates.push(issue(rng, &mut reps, f));
    }
    // segment updates in generation order
    let mut ups: Vec<ReplicationDelta> = Vec::new();
    for x in 0..total {
        let f = if planted && !set_in_ck && x == set_at {
            Some((pr, Force::Set(pk)))
        } else if planted && x == del_at {
            Some((pr, Force::Del(pk)))
        } else {
            None
        };
        ups.push(issue(rng, &mut reps, f));
    }
    // assignment: sequential fill, then a few swaps (overlapping stamp ranges beyond what the
    // independent clocks already give)
    let mut seg_of: Vec<usize> = Vec::new();
    for (j, c) in cnt.iter().enumerate() {
        for _ in 0..*c {
            seg_of.push(j);
        }
    }
    let nswaps = rng.gen_range(0..=total / 4);
    for _ in 0..nswaps {
        let a = rng.gen_range(0..total);
        let b = rng.gen_range(0..total);
        seg_of.swap(a, b);
    }
    let mut seg_deltas: Vec<Vec<ReplicationDelta>> = (0..nseg).map(|j| (0..total).filter(|x| seg_of[*x] == j).map(|x| ups[x].clone()).collect()).collect();
    // the same delta in two segments
    if rng.gen_bool(0.15) {
        let x = rng.gen_range(0..total);
        let j = rng.gen_range(0..nseg);
        if j != seg_of[x] && seg_deltas[j].len() < 8 {
            let at = rng.gen_range(0..=seg_deltas[j].len());
            seg_deltas[j].insert(at, ups[x].clone());
        }
    }
    // a checkpointed update also in the first segment
    if has_ck && rng.gen_bool(0.2) && seg_deltas[0].len() < 8 {
        let x = rng.gen_range(0..n_ck);
        seg_deltas[0].insert(0, ck_updates[x].clone());
    }
    for ds in seg_deltas.iter_mut() {
        if rng.gen_bool(0.3) {
            ds.shuffle(rng);
        }
    }
    // ids
    // a sixth of the layouts have ids around 10^8, where the {:08} object names grow a digit
    let wide: u64 = if start_clocks.iter().fold(0u64, |a, b| a.wrapping_add(*b)) % 6 == 0 { 99_999_996 } else { 0 };
    let last = wide + if has_ck { rng.gen_range(0..3u64) } else { 0 };
    let mut id = if has_ck { last + 1 + rng.gen_range(0..2u64) } else { wide + rng.gen_range(0..3u64) };
    let mut segs: Vec<SegSpec> = Vec::new();
    for ds in seg_deltas {
        let mut w = SegmentWriter::new(Compression::None);
        for d in &ds {
            w.write_delta(d).unwrap();
        }
        let data = w.finish().unwrap();
        let info = SegmentInfo {
            id,
            key: seg_key(id),
            record_count: ds.len() as u32,
            size_bytes: data.len() as u64,
            min_timestamp: ds.iter().map(|d| d.value.timestamp.time).min().unwrap_or(0),
            max_timestamp: ds.iter().map(|d| d.value.timestamp.time).max().unwrap_or(0),
        };
        segs.push(SegSpec { id, deltas: ds, data, info });
        id += rng.gen_range(1..=2u64);
    }
    let ck = if has_ck {
        let mut state = KV::new();
        for d in &ck_updates {
            merge_into(&mut state, &d.key, &d.value);
        }
        let ts = rng.gen_range(1..2_000_000u64);
        let data = CheckpointWriter::new(Compression::None).write(state.clone().into_iter().collect(), ts, last).unwrap();
        Some(CkSpec { ts, last, state, data, key: format!("{}/checkpoints/chk-{:016}.chk", PREFIX, ts) })
    } else {
        None
    };
    // configuration
    let min = rng.gen_range(2..=3usize);
    let mut maxper = [2usize, 3, 5][rng.gen_range(0..3)];
    if maxper < min && rng.gen_bool(0.7) {
        maxper = [3usize, 5][rng.gen_range(0..2)];
    }
    let skip_mode = rng.gen_bool(0.72);
    let maxskip = nseg.saturating_sub(min).min(2);
    let target = if skip_mode && maxskip > 0 {
        let skip = rng.gen_range(1..=maxskip);
        let mut s: Vec<u64> = segs.iter().map(|s| s.info.size_bytes).collect();
        s.sort_by(|a, b| b.cmp(a));
        s[skip - 1] as usize
    } else if rng.gen_bool(0.5) {
        1usize << 30
    } else {
        1usize << 16
    };
    let ttl_ms = if rng.gen_bool(0.5) { 100u64 } else { 86_400_000u64 };
    let stamps: Vec<u64> = segs.iter().flat_map(|s| s.deltas.iter().map(|d| d.value.timestamp.time)).collect();
    let (now, now_class) = match rng.gen_range(0..4) {
        0 | 1 => (1_758_000_000_000u64 + rng.gen_range(0..1_000_000u64), "now:production-like"),
        2 => (0u64, "now:zero"),
        _ => (stamps[rng.gen_range(0..stamps.len())].saturating_add(ttl_ms).saturating_add(rng.gen_range(0..2u64)), "now:near-logical-stamps"),
    };
    let version = rng.gen_range(0..40u64);
    // the deltas of the concurrent flush
    let nf = rng.gen_range(1..=3usize);
    let flush_deltas: Vec<ReplicationDelta> = (0..nf).map(|_| issue(rng, &mut reps, None)).collect();
    Layout { nrep, clock_mode, disjoint, start_clocks, segs, ck, version, target, min, maxper, ttl_ms, now, now_class, flush_deltas }
}

impl Layout {
    fn manifest(&self) -> Manifest {
        Manifest {
            version: self.version,
            replica_id: 1,
            segments: self.segs.iter().map(|s| s.info.clone()).collect(),
            checkpoint: self.ck.as_ref().map(|c| CheckpointInfo { key: c.key.clone(), timestamp_ms: c.ts, key_count: c.state.len() as u64, last_segment_id: c.last }),
            next_segment_id: self.segs.iter().map(|s| s.id).max().map(|m| m + 1).unwrap_or(0),
        }
    }
    fn cc(&self) -> CompactionConfig {
        CompactionConfig {
            target_segment_size: self.target,
            max_segments: 100,
            min_segments_to_compact: self.min,
            max_segments_per_compaction: self.maxper,
            tombstone_ttl: Duration::from_millis(self.ttl_ms),
            compression_enabled: false,
        }
    }
    fn cutoff(&self) -> u64 {
        self.now.saturating_sub(self.ttl_ms)
    }
    fn objects_term(&self, p: &mut dyn Pr, damaged: Option<u64>) -> String {
        let mut v: Vec<String> = Vec::new();
        for s in &self.segs {
            if damaged == Some(s.id) {
                v.push(format!("(OT (NSeg {}))", s.id));
            } else {
                v.push(format!("(OS {} {})", s.id, deltas_term(s.deltas.iter(), p)));
            }
        }
        if let Some(c) = &self.ck {
            v.push(format!("(OC {} {})", c.ts, kv_term(&c.state, p)));
        }
        p.st().list(T_OBJ, &v)
    }
    /// the objects of a store image as Coq terms: a segment object that decodes is printed with
    /// its deltas, one that does not (damaged, garbage, empty, torn) as an undecodable object;
    /// the content of a stale temp manifest is never read by any operation and is printed as
    /// an undecodable object under NTmp
    fn objects_of_map(&self, map: &Map, p: &mut dyn Pr) -> String {
        let mut v: Vec<String> = Vec::new();
        for (k, d) in map.iter() {
            match Name::of(k) {
                Name::Seg(id) => match read_seg(d) {
                    Some(ds) => v.push(format!("(OS {} {})", id, deltas_term(ds.iter(), p))),
                    None => v.push(format!("(OT (NSeg {}))", id)),
                },
                Name::Ck(ts) => match &self.ck {
                    Some(c) if c.key == *k && c.data == **d => v.push(format!("(OC {} {})", c.ts, kv_term(&c.state, p))),
                    _ => v.push(format!("(OT (NCk {}))", ts)),
                },
                Name::Tmp => v.push("(OT NTmp)".to_string()),
                _ => {}
            }
        }
        p.st().list(T_OBJ, &v)
    }
    /// a DEL whose older SET sits in another segment or in the checkpoint
    fn del_with_older_set_elsewhere(&self) -> bool {
        for (j, s) in self.segs.iter().enumerate() {
            for d in s.deltas.iter().filter(|d| d.value.is_tombstone()) {
                let t = d.value.timestamp.time;
                let live_older = |v: &ReplicatedValue| kind(v) == "lww" && !v.is_tombstone() && v.timestamp.time < t;
                for (j2, s2) in self.segs.iter().enumerate() {
                    if j2 != j && s2.deltas.iter().any(|e| e.key == d.key && live_older(&e.value)) {
                        return true;
                    }
                }
                if let Some(c) = &self.ck {
                    if c.state.get(&d.key).map_or(false, |v| live_older(v)) {
                        return true;
                    }
                }
            }
        }
        false
    }
    fn config_json(&self) -> Value {
        json!({"target_segment_size": self.target, "min_segments_to_compact": self.min, "max_segments_per_compaction": self.maxper,
            "tombstone_ttl_ms": self.ttl_ms, "now_millis": self.now, "tombstone_cutoff": self.cutoff()})
    }
}

async fn build_map(lay: &Layout) -> Map {
    let mut m = Map::new();
    for s in &lay.segs {
        m.insert(s.info.key.clone(), Arc::new(s.data.clone()));
    }
    if let Some(c) = &lay.ck {
        m.insert(c.key.clone(), Arc::new(c.data.clone()));
    }
    let st = ScriptedStore::new(m);
    ManifestManager::new(st.clone(), PREFIX).save(&lay.manifest()).await.unwrap();
    st.map()
}

// ------------------------------------------------------------------ running the implementation

struct Rec {
    ck: Option<HashMap<String, ReplicatedValue>>,
    deltas: Vec<ReplicationDelta>,
}
impl Rec {
    fn fold(&self) -> KV {
        fold_recovered(&self.ck, &self.deltas)
    }
}
async fn do_recover(map: &Map) -> Result<Rec, String> {
    let store = ScriptedStore::new(map.clone());
    match RecoveryManager::new(store, PREFIX, 1).recover().await {
        Ok(r) => Ok(Rec { ck: r.checkpoint_state, deltas: r.deltas }),
        Err(e) => Err(e.to_string()),
    }
}
#[derive(Clone, Debug)]
enum CRes {
    Ok(CompactionResult),
    Nothing,
    Err(String),
}
impl CRes {
    fn of(r: Result<CompactionResult, CompactionError>) -> CRes {
        match r {
            Ok(c) => CRes::Ok(c),
            Err(CompactionError::NothingToCompact) => CRes::Nothing,
            Err(e) => CRes::Err(e.to_string()),
        }
    }
    fn removed(&self) -> Vec<u64> {
        match self {
            CRes::Ok(c) => c.segments_removed.iter().map(|s| s.id).collect(),
            _ => vec![],
        }
    }
    fn created(&self) -> Option<u64> {
        match self {
            CRes::Ok(c) => c.segment_created.as_ref().map(|s| s.id),
            _ => None,
        }
    }
    fn tombstones_removed(&self) -> u64 {
        match self {
            CRes::Ok(c) => c.tombstones_removed,
            _ => 0,
        }
    }
    fn term(&self, st: Style) -> String {
        match self {
            CRes::Ok(c) => {
                let ids: Vec<String> = c.segments_removed.iter().map(|s| s.id.to_string()).collect();
                format!("(COk {} {})", st.list("N", &ids), st.opt("N", &c.segment_created.as_ref().map(|s| s.id.to_string())))
            }
            CRes::Nothing => "CNothing".into(),
            CRes::Err(_) => "CErr".into(),
        }
    }
    fn text(&self) -> String {
        match self {
            CRes::Ok(c) => format!(
                "Ok(segments_removed={:?}, segment_created={:?}, deltas_before={}, deltas_after={}, tombstones_removed={})",
                c.segments_removed.iter().map(|s| s.id).collect::<Vec<_>>(),
                c.segment_created.as_ref().map(|s| (s.id, s.record_count, s.size_bytes, s.min_timestamp, s.max_timestamp)),
                c.deltas_before,
                c.deltas_after,
                c.tombstones_removed
            ),
            CRes::Nothing => "Err(NothingToCompact)".into(),
            CRes::Err(e) => format!("Err({})", e),
        }
    }
    fn kind(&self) -> &'static str {
        match self {
            CRes::Ok(c) if c.segment_created.is_some() => "result:ok-new-segment",
            CRes::Ok(_) => "result:ok-no-segment",
            CRes::Nothing => "result:nothing-to-compact",
            CRes::Err(_) => "result:err",
        }
    }
}

/// what a compaction read and what it left alone, taken from the store image it started from
struct Inputs {
    /// (segment id, its deltas) of the compacted segments, in read order
    compacted: Vec<(u64, Vec<ReplicationDelta>)>,
    /// (segment id, its deltas) of the listed segments that were not compacted
    others: Vec<(u64, Vec<ReplicationDelta>)>,
}
fn inputs_of(before: &Map, removed: &[u64]) -> Inputs {
    let man: Option<Manifest> = before.get(&format!("{}/manifest.json", PREFIX)).and_then(|d| serde_json::from_slice(d).ok());
    let mut compacted = Vec::new();
    let mut others = Vec::new();
    if let Some(m) = man {
        let get = |s: &SegmentInfo| before.get(&s.key).and_then(|d| read_seg(d)).unwrap_or_default();
        for id in removed {
            if let Some(s) = m.segments.iter().find(|s| s.id == *id) {
                compacted.push((s.id, get(s)));
            }
        }
        for s in &m.segments {
            if !removed.contains(&s.id) {
                others.push((s.id, get(s)));
            }
        }
    }
    Inputs { compacted, others }
}
impl Inputs {
    /// merge (real merge, read order) of the deltas of `k` in the compacted segments
    fn fold_key(&self, k: &str) -> Option<ReplicatedValue> {
        let mut acc: Option<ReplicatedValue> = None;
        for (_, ds) in &self.compacted {
            for d in ds.iter().filter(|d| d.key == k) {
                acc = Some(match acc {
                    Some(a) => a.merge(&d.value),
                    None => d.value.clone(),
                });
            }
        }
        acc
    }
    /// the class C13-tombstone-cutoff for one key: its merged value in the compacted inputs is a
    /// tombstone below the cutoff, and the key has a delta in a listed segment that was not
    /// compacted, an entry in the checkpoint, or a delta among `extra` (a segment flushed later)
    fn in_cutoff_class(&self, k: &str, cutoff: u64, ck: &Option<CkSpec>, extra: &[ReplicationDelta]) -> bool {
        let dropped = self.fold_key(k).map_or(false, |v| v.is_tombstone() && v.timestamp.time < cutoff);
        let elsewhere = self.others.iter().any(|(_, ds)| ds.iter().any(|d| d.key == k)) || ck.as_ref().map_or(false, |c| c.state.contains_key(k)) || extra.iter().any(|d| d.key == k);
        dropped && elsewhere
    }
    fn json_for(&self, keys: &[String]) -> Value {
        let f = |l: &Vec<(u64, Vec<ReplicationDelta>)>| -> Vec<Value> {
            l.iter().map(|(id, ds)| json!({"segment": id, "deltas": ds.iter().filter(|d| keys.contains(&d.key)).map(|d| format!("t={} {}", d.value.timestamp.time, delta_text(d))).collect::<Vec<_>>()})).collect()
        };
        json!({"compacted_segments": f(&self.compacted), "segments_not_compacted": f(&self.others)})
    }
    fn two_replica_key(&self) -> bool {
        let mut m: BTreeMap<&str, BTreeSet<u64>> = BTreeMap::new();
        for (_, ds) in &self.compacted {
            for d in ds {
                m.entry(d.key.as_str()).or_default().insert(d.source_replica.0);
            }
        }
        m.values().any(|s| s.len() >= 2)
    }
}

/// one run of compaction and flush under a schedule of store calls
struct InterRun {
    log: Vec<(u8, CallDesc)>,
    cres: CRes,
    flush_ok: bool,
    flush_seg: Option<u64>,
    flush_err: Option<String>,
    final_map: Map,
    /// the store as the compaction's first call found it
    at_comp_first: Option<Map>,
}
async fn run_inter(map0: &Map, lay: &Layout, schedule: Vec<u8>) -> InterRun {
    let store = ScriptedStore::new(map0.clone());
    let sc = store.handle(0);
    let sf = store.handle(1);
    let cfg = WriteBufferConfig { backpressure_threshold_bytes: 1 << 20, compression_enabled: false, ..WriteBufferConfig::default() };
    let mut sp = StreamingPersistence::new(Arc::new(sf.clone()), PREFIX.to_string(), 1, cfg).await.expect("constructor on a healthy store");
    for d in &lay.flush_deltas {
        sp.push(d.clone()).expect("push below the backpressure threshold");
    }
    let mut comp = Compactor::with_time_source(Arc::new(sc.clone()), PREFIX.to_string(), ManifestManager::new(sc.clone(), PREFIX), lay.cc(), FixedTime(lay.now));
    store.arm(schedule);
    let fc = async {
        let r = comp.compact().await;
        sc.finish();
        r
    };
    let ff = async {
        let r = sp.flush().await;
        sf.finish();
        r
    };
    let (rc, rf) = tokio::join!(fc, ff);
    store.disarm();
    let log = store.take_log();
    let (flush_ok, flush_seg, flush_err) = match rf {
        Ok(f) => (true, f.segment.as_ref().map(|s| s.id), None),
        Err(e) => (false, None, Some(e.to_string())),
    };
    InterRun { log, cres: CRes::of(rc), flush_ok, flush_seg, flush_err, final_map: store.map(), at_comp_first: store.snap_first(0) }
}
fn log_text(log: &[(u8, CallDesc)]) -> Vec<String> {
    log.iter().map(|(a, c)| format!("{}:{}", if *a == 0 { "compaction" } else { "flush" }, c.term())).collect()
}
fn sched_text(s: &[u8]) -> String {
    s.iter().map(|a| if *a == 0 { 'c' } else { 'f' }).collect()
}

/// size-boundary layout (oracle only, no Coq case; lesson 2): 2-3 input segments of 4095 / 4096 /
/// 4097 deltas over hundreds of keys (strings, deletes, hashes written by three replicas, one
/// clock at the top of the u64 range), compacted with the tombstone filter inactive; the state
/// recovered afterwards must equal the state recovered before, and a second compaction too
async fn run_big(seed: u64, i: u64, verbose: bool, out: &mut Out) {
    let mut rng = case_rng(seed ^ 0x13C0_B16, i);
    let mut reps: Vec<ShardReplicaState> = (1..=3u64).map(|r| ShardReplicaState::new(ReplicaId(r), ConsistencyLevel::Eventual)).collect();
    reps[1].lamport_clock.time = 1 << 33;
    reps[2].lamport_clock.time = (1u64 << 63) + 11;
    let nkeys = rng.gen_range(300..3000usize);
    let nseg = rng.gen_range(2..=3usize);
    let mut map = Map::new();
    let mut infos: Vec<SegmentInfo> = Vec::new();
    let base_id = if rng.gen_bool(0.3) { 99_999_998u64 } else { rng.gen_range(0..5u64) };
    let mut total = 0usize;
    for j in 0..nseg {
        let n = [4095usize, 4096, 4097][rng.gen_range(0..3)];
        total += n;
        let mut w = SegmentWriter::new(Compression::None);
        let (mut mn, mut mx) = (u64::MAX, 0u64);
        for _ in 0..n {
            let k = rng.gen_range(0..nkeys);
            let r = rng.gen_range(0..3usize);
            let d = if k % 4 == 0 {
                reps[r].record_hash_write(format!("h{}", k), vec![(format!("f{}", r), SDS::new(VALS[rng.gen_range(0..VALS.len())].to_vec()))])
            } else if rng.gen_bool(0.15) {
                match reps[r].record_delete(format!("k{}", k)) {
                    Some(d) => d,
                    None => reps[r].record_write(format!("k{}", k), SDS::new(b"z".to_vec()), None),
                }
            } else {
                reps[r].record_write(format!("k{}", k), SDS::new(VALS[rng.gen_range(0..VALS.len())].to_vec()), if rng.gen_bool(0.2) { Some(1000 * rng.gen_range(1..9u64)) } else { None })
            };
            mn = mn.min(d.value.timestamp.time);
            mx = mx.max(d.value.timestamp.time);
            w.write_delta(&d).unwrap();
        }
        let data = w.finish().unwrap();
        let id = base_id + j as u64;
        infos.push(SegmentInfo { id, key: seg_key(id), record_count: n as u32, size_bytes: data.len() as u64, min_timestamp: mn, max_timestamp: mx });
        map.insert(seg_key(id), Arc::new(data));
    }
    let manifest = Manifest { version: 3, replica_id: 1, next_segment_id: base_id + nseg as u64, segments: infos, checkpoint: None };
    let st0 = ScriptedStore::new(map);
    ManifestManager::new(st0.clone(), PREFIX).save(&manifest).await.unwrap();
    let map0 = st0.map();
    let before = do_recover(&map0).await;
    let store = ScriptedStore::new(map0.clone());
    let cc = CompactionConfig { target_segment_size: usize::MAX / 2, max_segments: 100, min_segments_to_compact: 2, max_segments_per_compaction: 5, tombstone_ttl: Duration::from_millis(1000), compression_enabled: false };
    let mut comp = Compactor::with_time_source(Arc::new(store.clone()), PREFIX.to_string(), ManifestManager::new(store.clone(), PREFIX), cc, FixedTime(0));
    let c1 = CRes::of(comp.compact().await);
    let after = do_recover(&store.map()).await;
    let c2 = CRes::of(comp.compact().await);
    let after2 = do_recover(&store.map()).await;
    out.impl_checks += 3;
    out.count(&format!("size-boundary-layout:{}-segments", nseg));
    let problem: Option<String> = match (&before, &after, &after2) {
        (Ok(b), Ok(a), Ok(a2)) => {
            let (sb, sa, sa2) = (b.fold(), a.fold(), a2.fold());
            let d1 = diff_keys(&sb, &sa, false);
            let d2 = diff_keys(&sb, &sa2, false);
            if !matches!(c1, CRes::Ok(_)) {
                Some(format!("compaction of {} small segments returned {}", nseg, c1.text()))
            } else if !d1.is_empty() {
                Some(format!("{} keys differ after the compaction, e.g. {:?}: before {} after {}", d1.len(), &d1[0], show(&sb, &d1[0]), show(&sa, &d1[0])))
            } else if !d2.is_empty() {
                Some(format!("{} keys differ after the second compaction ({}), e.g. {:?}", d2.len(), c2.text(), &d2[0]))
            } else {
                None
            }
        }
        _ => Some(format!("recovery failed: before {:?} after {:?} after2 {:?}", before.as_ref().err(), after.as_ref().err(), after2.as_ref().err())),
    };
    if verbose {
        println!("size-boundary layout {}: {} deltas in {} segments over {} keys, ids from {}: {} / {}: {}", i, total, nseg, nkeys, base_id, c1.text(), c2.text(), problem.clone().unwrap_or_else(|| "ok".into()));
    }
    if let Some(p) = problem {
        out.count(&format!("violation:{}", V_STATE));
        out.violation(i, V_STATE, json!({"kind": "size-boundary layout", "deltas": total, "segments": nseg, "keys": nkeys, "first_id": base_id, "problem": p}));
    }
}

async fn run_case(seed: u64, i: u64, verbose: bool, inter: u64, plain: bool, out: &mut Out) {
    if i % 250 == 9 {
        return run_big(seed, i, verbose, out).await;
    }
    let mut rng = case_rng(seed, i);
    let lay = gen_layout(&mut rng);
    let manifest = lay.manifest();
    let map_clean = build_map(&lay).await;
    let man_key = format!("{}/manifest.json", PREFIX);

    // ---- the read fault of this case, drawn from its own stream (layouts stay what they were):
    // 55% none; 25% one GET of an input returns bytes with a flipped bit (object at rest intact);
    // 8% one GET of an input fails; 12% one listed segment is damaged at rest
    let mut frng = case_rng(seed ^ 0x13C0_FA17, i);
    let fdraw: f64 = frng.gen();
    // a dry run tells how many segment GETs the fault-free compaction makes
    let n_seg_gets = {
        let st = ScriptedStore::new(map_clean.clone());
        st.start_log();
        let mut cp = Compactor::with_time_source(Arc::new(st.clone()), PREFIX.to_string(), ManifestManager::new(st.clone(), PREFIX), lay.cc(), FixedTime(lay.now));
        let _ = cp.compact().await;
        st.take_log().iter().filter(|(_, c)| matches!(c, CallDesc::Get(Name::Seg(_)))).count()
    };
    let mut map0 = map_clean.clone();
    let mut damaged: Option<u64> = None;
    let mut read_fault: Option<ReadFault> = None;
    let mut fault_kind = "read-fault:none";
    if fdraw >= 0.55 && fdraw < 0.88 && n_seg_gets > 0 {
        let nth = frng.gen_range(0..n_seg_gets);
        if fdraw < 0.80 {
            read_fault = Some(ReadFault::Garble { nth, pos_draw: frng.gen(), bit: frng.gen_range(0..8), region: frng.gen_range(0..3) });
            fault_kind = "read-fault:get-returns-flipped-bit";
        } else {
            read_fault = Some(ReadFault::Fail { nth });
            fault_kind = "read-fault:get-fails";
        }
    } else if fdraw >= 0.88 && !lay.segs.is_empty() {
        let sseg = &lay.segs[frng.gen_range(0..lay.segs.len())];
        for _ in 0..8 {
            let mut buf = sseg.data.clone();
            if buf.is_empty() { break; }
            let pos = flip_pos(buf.len(), frng.gen_range(0..3), frng.gen());
            let (b, dr): (u8, u64) = (frng.gen_range(0..8), frng.gen());
            extra_damage(&mut buf, pos, b, dr);
            if read_seg(&buf).is_none() {
                map0.insert(sseg.info.key.clone(), Arc::new(buf));
                damaged = Some(sseg.id);
                fault_kind = "read-fault:segment-damaged-at-rest";
                break;
            }
        }
    }
    out.count(fault_kind);

    // ---- unreferenced leftovers in the store before the compaction starts (own stream): 38% of
    // the cases.  The interesting spot is the key of next_segment_id, which the compaction is
    // about to write.
    let mut lrng = case_rng(seed ^ 0x13C0_1EF7, i);
    let ldraw: f64 = lrng.gen();
    let next_id = manifest.next_segment_id;
    let seg_bytes = |ds: &[ReplicationDelta]| -> Vec<u8> {
        let mut w = SegmentWriter::new(Compression::None);
        for d in ds {
            w.write_delta(d).unwrap();
        }
        w.finish().unwrap()
    };
    let tmp_key = format!("{}/manifest.json.tmp", PREFIX);
    let mut leftover = "leftover:none";
    if ldraw >= 0.62 && ldraw < 0.74 && !lay.flush_deltas.is_empty() {
        // a real flush whose manifest step fails: put of the temp manifest (no effect / torn) or the rename
        let st = ScriptedStore::new(map0.clone());
        let cfg = WriteBufferConfig { backpressure_threshold_bytes: 1 << 20, compression_enabled: false, ..WriteBufferConfig::default() };
        let mut sp = StreamingPersistence::new(Arc::new(st.clone()), PREFIX.to_string(), 1, cfg).await.expect("constructor on a healthy store");
        for d in &lay.flush_deltas {
            sp.push(d.clone()).expect("push below the backpressure threshold");
        }
        let (idx, kind, name) = match lrng.gen_range(0..3) {
            0 => (2usize, 0u8, "leftover:real-flush-failed-at-put-of-temp-manifest"),
            1 => (2, 1, "leftover:real-flush-failed-at-put-of-temp-manifest(torn)"),
            _ => (3, 0, "leftover:real-flush-failed-at-rename"),
        };
        st.arm_write_fault(Some((idx, kind)));
        let r = sp.flush().await;
        st.arm_write_fault(None);
        if r.is_err() {
            map0 = st.map();
            leftover = name;
        }
    } else if ldraw >= 0.74 {
        let what = if ldraw < 0.84 { 0 } else if ldraw < 0.89 { 1 } else if ldraw < 0.92 { 2 } else if ldraw < 0.95 { 3 } else if ldraw < 0.98 { 4 } else { 5 };
        let garbage: Vec<u8> = (0..lrng.gen_range(1..200usize)).map(|_| lrng.gen()).collect();
        match what {
            0 if !lay.flush_deltas.is_empty() => {
                map0.insert(seg_key(next_id), Arc::new(seg_bytes(&lay.flush_deltas)));
                leftover = "leftover:valid-segment-with-unrelated-deltas-under-next-id";
            }
            1 => {
                map0.insert(seg_key(next_id), Arc::new(garbage.clone()));
                leftover = "leftover:garbage-under-next-id";
            }
            2 => {
                map0.insert(seg_key(next_id), Arc::new(Vec::new()));
                leftover = "leftover:empty-object-under-next-id";
            }
            3 if !lay.segs.is_empty() => {
                let src = &lay.segs[lrng.gen_range(0..lay.segs.len())];
                map0.insert(seg_key(next_id), Arc::new(src.data.clone()));
                leftover = "leftover:copy-of-an-input-under-next-id";
            }
            4 => {
                map0.insert(seg_key(next_id + 1 + lrng.gen_range(0..3u64)), Arc::new(if lrng.gen_bool(0.5) || lay.flush_deltas.is_empty() { garbage.clone() } else { seg_bytes(&lay.flush_deltas) }));
                if lrng.gen_bool(0.5) {
                    // an id below next_segment_id that the manifest does not list (gap), if there is one
                    if let Some(gap) = (0..next_id).find(|g| !lay.segs.iter().any(|s| s.id == *g)) {
                        map0.insert(seg_key(gap), Arc::new(if lay.flush_deltas.is_empty() { garbage.clone() } else { seg_bytes(&lay.flush_deltas) }));
                    }
                }
                leftover = "leftover:objects-under-other-unlisted-ids";
            }
            _ => {
                leftover = "leftover:stale-temp-manifest-only";
            }
        }
        if what == 5 || lrng.gen_bool(0.3) {
            let stale = if lrng.gen_bool(0.5) { garbage } else { serde_json::to_vec_pretty(&Manifest::new(1)).unwrap() };
            map0.insert(tmp_key.clone(), Arc::new(stale));
            out.count("leftover:+stale-temp-manifest");
        }
    }
    out.count(leftover);
    let has_leftover = leftover != "leftover:none";

    // ---- sequential run
    let rec_b = do_recover(&map0).await;
    let store = ScriptedStore::new(map0.clone());
    store.arm_read_fault(read_fault.clone());
    store.start_log();
    let mut comp = Compactor::with_time_source(Arc::new(store.clone()), PREFIX.to_string(), ManifestManager::new(store.clone(), PREFIX), lay.cc(), FixedTime(lay.now));
    let cres = CRes::of(comp.compact().await);
    let calls: Vec<CallDesc> = store.take_log().into_iter().map(|(_, c)| c).collect();
    let outcomes: Vec<&'static str> = store.take_outcomes();
    let snaps: Vec<Map> = store.take_snaps();
    let fault_note = store.fault_note();
    let faulted = read_fault.is_some() || damaged.is_some() || has_leftover;
    if let Some(n) = &fault_note {
        out.count(if n.contains("harmless") { "read-fault:flip-harmless" } else if n.contains("rejected") { "read-fault:flip-rejected" } else if n.contains("failed") { "read-fault:get-failed" } else { "read-fault:flip-undetected" });
        for r in ["(header)", "(data)", "(footer)"] {
            if n.contains(r) { out.count(&format!("read-fault:flip-in-{}", &r[1..r.len() - 1])); }
        }
    } else if read_fault.is_some() {
        out.count("read-fault:not-reached");
    }
    let map1 = store.map();
    let rec_a = do_recover(&map1).await;

    let man_after: Option<Manifest> = map1.get(&man_key).and_then(|d| serde_json::from_slice(d).ok());
    let man_changed = map1.get(&man_key).map(|d| d.as_ref()) != map0.get(&man_key).map(|d| d.as_ref());
    let newseg: Option<Vec<ReplicationDelta>> = match &cres {
        CRes::Ok(c) => c.segment_created.as_ref().and_then(|s| map1.get(&s.key)).and_then(|d| read_seg(d)),
        _ => None,
    };
    let sz = match &cres {
        CRes::Ok(c) => c.segment_created.as_ref().map(|s| s.size_bytes).unwrap_or(0),
        _ => 0,
    };
    let removed = cres.removed();
    let inputs = inputs_of(&map0, &removed);

    // ---- the Coq case
    let sg = |s: &SegmentInfo| -> String {
        let kid = match Name::of(&s.key) {
            Name::Seg(n) => n,
            _ => s.id,
        };
        format!("(SG {} {} {} {} {} {})", s.id, kid, s.record_count, s.size_bytes, s.min_timestamp, s.max_timestamp)
    };
    let seg_items: Vec<String> = manifest.segments.iter().map(|s| sg(s)).collect();
    let ck_item: Option<String> = lay.ck.as_ref().map(|c| format!("(CK {} {} {} {})", c.ts, c.ts, c.state.len(), c.last));
    let call_terms: Vec<(String, &'static str)> = calls.iter().zip(outcomes.iter()).map(|(c, o)| (c.term(), *o)).collect();
    let call_items: Vec<String> = call_terms.iter().map(|(c, o)| format!("({}, {})", c, o)).collect();
    let name_items: Vec<String> = map1.keys().map(|k| Name::of(k).term()).collect();
    let after_parts: Option<(u64, Vec<String>, u64)> = if man_changed { man_after.as_ref().map(|m| (m.version, m.segments.iter().map(|s| sg(s)).collect(), m.next_segment_id)) } else { None };
    let rb: Option<Vec<ReplicationDelta>> = rec_b.as_ref().ok().map(|r| r.deltas.clone());
    let ra: Option<Vec<ReplicationDelta>> = rec_a.as_ref().ok().map(|r| r.deltas.clone());
    // fields of K13, in order
    let fields = |p: &mut dyn Pr| -> Vec<String> {
        let st = p.st();
        let after_t = match &after_parts {
            None => st.none(T_AFTER),
            Some((v, segs, nxt)) => {
                let inner = st.pair("N", "(list seginfo)", &v.to_string(), &st.list("seginfo", segs));
                st.some(T_AFTER, &st.pair("(prod N (list seginfo))", "N", &inner, &nxt.to_string()))
            }
        };
        vec![
            format!("(CCfg {} {} {} {})", lay.target, lay.min, lay.maxper, lay.ttl_ms),
            lay.now.to_string(),
            lay.version.to_string(),
            "1".to_string(),
            st.list("seginfo", &seg_items),
            st.opt("ckinfo", &ck_item),
            manifest.next_segment_id.to_string(),
            lay.objects_of_map(&map0, p),
            sz.to_string(),
            cres.term(st),
            st.list("(prod call outcome)", &call_terms.iter().map(|(c, o)| st.pair("call", "outcome", c, o)).collect::<Vec<_>>()),
            after_t,
            st.list("name", &name_items),
            opt_deltas_term(&newseg, p),
            opt_deltas_term(&rb, p),
            opt_deltas_term(&ra, p),
        ]
    };
    let plain_fields = fields(&mut Plain);
    let plain_term = format!("(K13 {})", plain_fields.join(" "));
    let layout_t = plain_fields[..8].join(" ");
    let term = {
        let mut pass1 = Collect::default();
        let _ = fields(&mut pass1);
        let mut it = Intern { standalone: pass1.standalone, ..Intern::default() };
        let f = fields(&mut it);
        let skeleton = format!("K13 {}", f.join(" "));
        let body = it.lits(&skeleton);
        it.wrap(&body)
    };
    bump(out, "case-term-bytes-plain", plain_term.len() as u64);
    bump(out, "case-term-bytes-written", term.len() as u64);
    let nontrivial = matches!(cres, CRes::Ok(_));
    out.case(i, if plain { plain_term.clone() } else { term.clone() }, nontrivial, &layout_t);

    // ---- distributions
    out.count(cres.kind());
    out.count(&format!("segments:{}", lay.segs.len()));
    out.count(if lay.ck.is_some() { "checkpoint:yes" } else { "checkpoint:no" });
    out.count(&format!("replicas:{}", lay.nrep));
    out.count(match lay.clock_mode { 0 => "clocks:small-with-ties", 1 => "clocks:interleaved", _ => "clocks:one-far-ahead" });
    out.count(if lay.disjoint { "hash-writers:disjoint-fields-per-replica" } else { "hash-writers:any-field" });
    out.count(lay.now_class);
    out.count(&format!("ttl_ms:{}", lay.ttl_ms));
    out.count(&format!("min_segments_to_compact:{}", lay.min));
    out.count(&format!("max_segments_per_compaction:{}", lay.maxper));
    let below: Vec<&SegSpec> = lay.segs.iter().filter(|s| (s.info.size_bytes as usize) < lay.target).collect();
    out.count(&format!("segments-at-or-above-target:{}", lay.segs.len() - below.len()));
    out.count(&format!("segments-selected:{}", removed.len()));
    out.count(&format!("segments-listed-but-not-compacted:{}", if removed.is_empty() { "n/a".to_string() } else { (lay.segs.len() - removed.len()).to_string() }));
    if below.len() > lay.maxper {
        out.count("more-small-segments-than-max-per-compaction");
    }
    out.count(if cres.tombstones_removed() > 0 { "tombstones-removed:yes" } else { "tombstones-removed:no" });
    out.count(if lay.del_with_older_set_elsewhere() { "layout:del-with-older-set-in-another-segment-or-checkpoint:yes" } else { "layout:del-with-older-set-in-another-segment-or-checkpoint:no" });
    if !removed.is_empty() {
        out.count(if inputs.two_replica_key() { "inputs:key-with-deltas-from-two-replicas:yes" } else { "inputs:key-with-deltas-from-two-replicas:no" });
    }
    for s in &lay.segs {
        for d in &s.deltas {
            out.count(value_kind(&d.value));
        }
    }
    for c in &calls {
        if c.unknown_name() {
            out.count("unexpected-key");
        }
    }
    out.sample(json!({"case": i, "segments": lay.segs.iter().map(|s| json!({"id": s.id, "count": s.info.record_count, "size": s.info.size_bytes, "min": s.info.min_timestamp, "max": s.info.max_timestamp})).collect::<Vec<_>>(),
        "checkpoint": lay.ck.as_ref().map(|c| json!({"last_segment_id": c.last, "keys": c.state.len()})), "config": lay.config_json(), "result": cres.text()}));

    if verbose {
        println!("case {}: {} replicas, starting clocks {:?}, clock mode {}, disjoint hash fields {}", i, lay.nrep, lay.start_clocks, lay.clock_mode, lay.disjoint);
        println!("manifest: version={} next_segment_id={} checkpoint={}", lay.version, manifest.next_segment_id, Style::Plain.opt("ckinfo", &ck_item));
        for s in &lay.segs {
            println!("  segment id={} key={} count={} size={} min={} max={}{}", s.id, s.info.key, s.info.record_count, s.info.size_bytes, s.info.min_timestamp, s.info.max_timestamp, if (s.info.size_bytes as usize) >= lay.target { "   [at or above the target: skipped]" } else { "" });
            for d in &s.deltas {
                println!("      t={:<14} {}", d.value.timestamp.time, delta_text(d));
            }
        }
        if let Some(c) = &lay.ck {
            println!("  checkpoint key={} last_segment_id={}", c.key, c.last);
            for (k, v) in &c.state {
                println!("      {} = {}", k, obs(v));
            }
        }
        println!("config: {}", lay.config_json());
        let pr = |r: &Result<Rec, String>| match r {
            Ok(r) => format!("Ok\n   checkpoint_state: {:?}\n   deltas: [{}]", r.ck.as_ref().map(|c| obs_view(&c.iter().map(|(k, v)| (k.clone(), v.clone())).collect(), false)), r.deltas.iter().map(delta_text).collect::<Vec<_>>().join("; ")),
            Err(e) => format!("Err({})", e),
        };
        println!("recover() before: {}", pr(&rec_b));
        println!("compact(): {}", cres.text());
        println!("compaction's store calls: {}", call_items.join(" "));
        println!("manifest after: {}", match &after_parts { None => "unchanged".to_string(), Some((v, s, n)) => format!("version={} segments=[{}] next_segment_id={}", v, s.join("; "), n) });
        println!("objects after: {}", name_items.join(" "));
        println!("new segment: {}", match &newseg { None => "none".to_string(), Some(ds) => format!("[{}]", ds.iter().map(delta_text).collect::<Vec<_>>().join("; ")) });
        println!("recover() after: {}", pr(&rec_a));
    }

    // ---- oracle (0): recovery and compaction succeed on an intact layout and a healthy store
    out.impl_checks += 2;
    if let (Err(e), None) = (&rec_b, damaged) {
        out.count(&format!("violation:{}", V_RECOVER));
        out.violation(i, V_RECOVER, json!({"when": "before compaction", "error": e, "layout": layout_t}));
    }
    if let Some(u) = store.undetected() {
        out.count(&format!("violation:{}", V_UNDET));
        out.violation(i, V_UNDET, json!({"what": u, "layout": layout_t}));
    }
    let get_failed = outcomes.iter().any(|o| *o == "EN");
    if verbose {
        println!("read fault of this case: {}{}", fault_kind, fault_note.as_ref().map(|n| format!(" - {}", n)).unwrap_or_default());
        println!("unreferenced objects in the store before the compaction: {} -> {:?}", leftover, map0.keys().filter(|k| match Name::of(k) { Name::Seg(id) => !lay.segs.iter().any(|s| s.id == id), Name::Tmp => true, _ => false }).collect::<Vec<_>>());
    }
    if let (CRes::Err(e), false) = (&cres, get_failed) {
        out.count(&format!("violation:{}", V_COMPERR));
        out.violation(i, V_COMPERR, json!({"error": e, "layout": layout_t, "config": lay.config_json()}));
    }

    // ---- oracle (1): the recovered state is unchanged
    let base = |extra: Value| -> Value {
        let mut v = json!({"config": lay.config_json(), "result": cres.text(),
            "segments": lay.segs.iter().map(|s| json!({"id": s.id, "size": s.info.size_bytes, "min": s.info.min_timestamp, "max": s.info.max_timestamp, "compacted": removed.contains(&s.id)})).collect::<Vec<_>>(),
            "checkpoint": lay.ck.as_ref().map(|c| json!({"last_segment_id": c.last, "state": kv_json(&c.state)}))});
        if let (Some(o), Some(e)) = (v.as_object_mut(), extra.as_object()) {
            for (k, x) in e {
                o.insert(k.clone(), x.clone());
            }
        }
        v
    };
    // ---- oracle (R): a segment the compaction could not read must stay listed and stored
    let mut unread: Vec<u64> = damaged.into_iter().collect();
    for (c, o) in calls.iter().zip(outcomes.iter()) {
        if let (CallDesc::Get(Name::Seg(id)), true) = (c, *o == "GB" || *o == "EN") {
            unread.push(*id);
        }
    }
    for id in &unread {
        out.impl_checks += 1;
        let key = seg_key(*id);
        let still_listed = man_after.as_ref().map_or(false, |m| m.segments.iter().any(|s| s.id == *id));
        let untouched = map1.get(&key).map(|d| d.as_ref()) == map0.get(&key).map(|d| d.as_ref());
        let same_verdict = rec_a.is_ok() == rec_b.is_ok();
        let ok = still_listed && untouched && same_verdict;
        if verbose {
            println!("oracle (R) segment {} could not be read by the compaction: still listed {}, object untouched {}, recovery before {} / after {}: {}", id, still_listed, untouched,
                if rec_b.is_ok() { "Ok" } else { "Err" }, if rec_a.is_ok() { "Ok" } else { "Err" }, if ok { "ok" } else { "VIOLATED" });
        }
        if !ok {
            out.count(&format!("violation:{}", V_DROPPED));
            out.violation(i, V_DROPPED, base(json!({"segment": id, "read_fault": fault_kind, "what_happened": fault_note, "still_listed": still_listed, "object_untouched": untouched,
                "recover_before": if rec_b.is_ok() { "Ok" } else { "Err" }, "recover_after": if rec_a.is_ok() { "Ok" } else { "Err" },
                "store_calls": call_items})));
        }
    }
    // ---- oracle (S): the state recovered at every crash instant inside the compaction
    if let Ok(rb_) = &rec_b {
        if cres.tombstones_removed() == 0 {
            let s0 = rb_.fold();
            let mut last: Option<&Map> = None;
            for (j, snap) in snaps.iter().enumerate() {
                if last.map_or(false, |l| l == snap) {
                    continue;
                }
                last = Some(snap);
                out.impl_checks += 1;
                let bad: Option<String> = match do_recover(snap).await {
                    Err(e) => Some(format!("recovery fails: {}", e)),
                    Ok(r) => {
                        let dk = diff_keys(&s0, &r.fold(), false);
                        if dk.is_empty() { None } else { Some(format!("keys {:?} differ", dk)) }
                    }
                };
                if let Some(b) = bad {
                    if verbose {
                        println!("oracle (S) crash after {} of the compaction's store calls: VIOLATED ({})", j + 1, b);
                    }
                    out.count(&format!("violation:{}", V_STEP));
                    out.violation(i, V_STEP, base(json!({"crash_after_calls": j + 1, "what": b, "read_fault": fault_kind, "what_happened": fault_note, "store_calls": call_items})));
                    break;
                }
            }
            out.count("crash-instants:checked");
        } else {
            out.count("crash-instants:skipped(tombstones dropped)");
        }
    }

    let mut dk_seq: Vec<String> = Vec::new();
    let mut s_before = KV::new();
    let mut s_after_opt: Option<KV> = None;
    if let Ok(rb_) = &rec_b {
        s_before = rb_.fold();
        out.impl_checks += 1;
        match &rec_a {
            Err(e) => {
                out.count(&format!("violation:{}", V_RECOVER));
                out.violation(i, V_RECOVER, base(json!({"when": "after compaction", "error": e})));
                if verbose {
                    println!("oracle (1) state after = state before: VIOLATED (recovery after compaction failed: {})", e);
                }
            }
            Ok(ra_) => {
                let s_after = ra_.fold();
                let modulo = cres.tombstones_removed() > 0;
                let dk = diff_keys(&s_before, &s_after, modulo);
                if dk.is_empty() {
                    out.count(if modulo { "state:unchanged-modulo-dead-keys" } else { "state:unchanged" });
                    if verbose {
                        println!("oracle (1) state after = state before{}: ok", if modulo { " (modulo dead keys, tombstones were dropped)" } else { "" });
                    }
                } else {
                    let in_class: Vec<bool> = dk.iter().map(|k| modulo && inputs.in_cutoff_class(k, lay.cutoff(), &lay.ck, &[])).collect();
                    let all = in_class.iter().all(|b| *b);
                    let detail = base(json!({"differing_keys": dk,
                        "before": dk.iter().map(|k| (k.clone(), show(&s_before, k))).collect::<BTreeMap<_, _>>(),
                        "after": dk.iter().map(|k| (k.clone(), show(&s_after, k))).collect::<BTreeMap<_, _>>(),
                        "merge_of_compacted_inputs": dk.iter().map(|k| (k.clone(), inputs.fold_key(k).map(|v| obs(&v)).unwrap_or_else(|| "(no delta in the compacted segments)".into()))).collect::<BTreeMap<_, _>>(),
                        "in_tombstone_cutoff_class": dk.iter().cloned().zip(in_class.iter().cloned()).collect::<BTreeMap<_, _>>(),
                        "deltas_of_these_keys": inputs.json_for(&dk),
                        "new_segment": newseg.as_ref().map(|ds| ds.iter().filter(|d| dk.contains(&d.key)).map(delta_text).collect::<Vec<_>>())}));
                    if verbose {
                        println!("oracle (1) state after = state before: FAILS on keys {:?}", dk);
                        for (n, k) in dk.iter().enumerate() {
                            println!("   {}: before {} | after {} | merge of the compacted inputs {} | in class {}: {}", k, show(&s_before, k), show(&s_after, k), inputs.fold_key(k).map(|v| obs(&v)).unwrap_or_else(|| "-".into()), K_CUTOFF, in_class[n]);
                        }
                        println!("   verdict: {}", if all { format!("KNOWN {}", K_CUTOFF) } else { "VIOLATION".to_string() });
                    }
                    if all {
                        out.count("state:changed(known C13-tombstone-cutoff)");
                        out.count(&format!("state:changed(known C13-tombstone-cutoff):{}", lay.now_class));
                        out.known(K_CUTOFF, i, detail);
                    } else {
                        out.count(&format!("violation:{}", V_STATE));
                        for k in &dk {
                            if let Some(v) = s_before.get(k) {
                                out.count(&format!("state-changed-on:{}", kind(v)));
                            }
                        }
                        out.violation(i, V_STATE, detail);
                    }
                    dk_seq = dk;
                }
                s_after_opt = Some(s_after);
            }
        }
    }

    // ---- oracle (2): the manifest describes the store
    if let CRes::Ok(c) = &cres {
        out.impl_checks += 1;
        let mut problem: Option<String> = None;
        match &man_after {
            None => problem = Some("the manifest does not parse".into()),
            Some(m) => {
                for id in &removed {
                    if m.segments.iter().any(|s| s.id == *id) {
                        problem = Some(format!("removed segment {} is still listed", id));
                    }
                }
                if let Some(s) = &c.segment_created {
                    if !m.segments.iter().any(|x| x == s) {
                        problem = Some(format!("created segment {} is not listed as returned", s.id));
                    }
                }
                for s in &m.segments {
                    if damaged == Some(s.id) {
                        continue; // damaged at rest before the compaction started: oracle (R) checks it stays
                    }
                    match map1.get(&s.key).and_then(|d| read_seg(d)) {
                        None => problem = Some(format!("listed segment {} is missing or does not read back", s.key)),
                        Some(ds) if ds.len() != s.record_count as usize => problem = Some(format!("listed segment {} holds {} deltas, the manifest says {}", s.key, ds.len(), s.record_count)),
                        Some(_) => {}
                    }
                }
            }
        }
        if verbose {
            println!("oracle (2) the manifest after the compaction describes the store: {}", match &problem { None => "ok".to_string(), Some(p) => format!("VIOLATED: {}", p) });
        }
        if let Some(p) = problem {
            out.count(&format!("violation:{}", V_MANIFEST));
            out.violation(i, V_MANIFEST, base(json!({"problem": p})));
        }
    }
    if verbose {
        println!("Coq case as written to the case file (let-compressed):\n{}", term);
        println!("Coq case, written out in full (same term):\n(K13 {})", plain_fields.join("\n  "));
    }

    // ---- oracle (4): every field of the manifest the compaction must not touch (lesson 8)
    if let (CRes::Ok(_), Some(m)) = (&cres, &man_after) {
        out.impl_checks += 1;
        if m.checkpoint != manifest.checkpoint || m.replica_id != manifest.replica_id || m.next_segment_id < manifest.next_segment_id {
            out.count(&format!("violation:{}", V_MANIFEST));
            out.violation(i, V_MANIFEST, base(json!({"problem": "checkpoint / replica_id / next_segment_id of the manifest changed in a way a compaction must not cause",
                "before": {"checkpoint": format!("{:?}", manifest.checkpoint), "replica_id": manifest.replica_id, "next_segment_id": manifest.next_segment_id},
                "after": {"checkpoint": format!("{:?}", m.checkpoint), "replica_id": m.replica_id, "next_segment_id": m.next_segment_id}})));
        }
    }
    // ---- oracle (5): a second compact() on the same Compactor instance (lessons 4, 7)
    if !faulted && rec_b.is_ok() && matches!(cres, CRes::Ok(_)) && cres.tombstones_removed() == 0 {
        let cres2 = CRes::of(comp.compact().await);
        if cres2.tombstones_removed() == 0 {
            out.impl_checks += 1;
            let bad: Option<String> = match do_recover(&store.map()).await {
                Err(e) => Some(format!("recovery fails: {}", e)),
                Ok(r) => {
                    let dk = diff_keys(&s_before, &r.fold(), false);
                    if dk.is_empty() { None } else { Some(format!("keys {:?} differ", dk)) }
                }
            };
            out.count(&format!("second-compaction:{}", cres2.kind()));
            if let Some(b) = bad {
                out.count(&format!("violation:{}", V_STATE));
                out.violation(i, V_STATE, base(json!({"when": "after a second compact() on the same Compactor", "second_result": cres2.text(), "what": b})));
            }
        }
    }
    // ---- oracle (6): compact_if_needed at the max_segments boundary (entry point, lessons 1, 2)
    if !faulted && rec_b.is_ok() {
        let nseg = manifest.segments.len();
        let mut orng = case_rng(seed ^ 0x13C0_1F4E, i);
        let max_segments = (nseg as i64 + orng.gen_range(-1..=1i64)).max(1) as usize;
        let st = ScriptedStore::new(map0.clone());
        let mut cc = lay.cc();
        cc.max_segments = max_segments;
        let mut cp = Compactor::with_time_source(Arc::new(st.clone()), PREFIX.to_string(), ManifestManager::new(st.clone(), PREFIX), cc, FixedTime(lay.now));
        let r = cp.compact_if_needed().await;
        out.impl_checks += 1;
        let needed = nseg >= max_segments;
        let problem: Option<String> = match &r {
            Err(e) => Some(format!("compact_if_needed failed on a healthy store: {}", e)),
            Ok(res) => {
                if !needed && (res.is_some() || st.map() != map0) {
                    Some(format!("{} segments < max_segments {}: nothing must happen, but result {:?} / store changed: {}", nseg, max_segments, res.as_ref().map(|c| c.segments_removed.len()), st.map() != map0))
                } else if needed && res.is_some() != matches!(cres, CRes::Ok(_)) {
                    Some(format!("{} segments >= max_segments {}: compact() on this layout gives {} but compact_if_needed gives {}", nseg, max_segments, cres.kind(), if res.is_some() { "Some" } else { "None" }))
                } else if res.as_ref().map_or(0, |c| c.tombstones_removed) == 0 {
                    match do_recover(&st.map()).await {
                        Err(e) => Some(format!("recovery fails afterwards: {}", e)),
                        Ok(rr) => {
                            let dk = diff_keys(&s_before, &rr.fold(), false);
                            if dk.is_empty() { None } else { Some(format!("keys {:?} differ afterwards", dk)) }
                        }
                    }
                } else {
                    None
                }
            }
        };
        out.count(&format!("compact_if_needed:segments{}max_segments", if nseg < max_segments { "<" } else if nseg == max_segments { "=" } else { ">" }));
        if let Some(p) = problem {
            out.count(&format!("violation:{}", V_STATE));
            out.violation(i, V_STATE, base(json!({"entry_point": "Compactor::compact_if_needed", "segments": nseg, "max_segments": max_segments, "problem": p})));
        }
    }

    // ---- oracle (3): interleavings with a concurrent flush
    let eligible = rec_b.is_ok() && cres.created().is_some() && !faulted;
    // the random schedules are drawn whether or not the case is eligible
    let n_c = calls.len();
    let mut schedules: Vec<Vec<u8>> = Vec::new();
    if eligible {
        for j in 0..=n_c {
            let mut s = vec![0u8; j];
            s.extend_from_slice(&[1u8; 4]);
            s.extend(std::iter::repeat(0u8).take(n_c - j));
            schedules.push(s);
        }
        for _ in 0..inter {
            let mut s: Vec<u8> = vec![0u8; n_c];
            s.extend_from_slice(&[1u8; 4]);
            s.shuffle(&mut rng);
            if !schedules.contains(&s) {
                schedules.push(s);
            }
        }
    }
    if !eligible {
        out.count("inter:case-not-eligible");
        if verbose {
            println!("interleavings: none (the sequential compaction created no segment)");
        }
        return;
    }
    out.count("inter:case-eligible");
    let expect = fold_more(&s_before, &lay.flush_deltas);
    if verbose {
        println!("interleavings: the concurrent flush writes [{}]; the compaction alone makes {} store calls, the flush 4", lay.flush_deltas.iter().map(delta_text).collect::<Vec<_>>().join("; "), n_c);
        println!("   expected state afterwards:");
        for (k, v) in &expect {
            println!("      {} = {}{}", k, obs(v), if dk_seq.contains(k) { "   [ignored: the sequential compaction already changes this key]" } else { "" });
        }
    }
    for sched in schedules {
        out.impl_checks += 1;
        let run = run_inter(&map0, &lay, sched.clone()).await;
        let pos = |a: u8, f: &dyn Fn(&CallDesc) -> bool| run.log.iter().position(|(x, c)| *x == a && f(c));
        let comp_first = pos(0, &|_| true);
        let comp_rename = pos(0, &|c| c.is_rename());
        let flush_get = pos(1, &|_| true);
        let flush_rename = pos(1, &|c| c.is_rename());
        let race = match (comp_first, comp_rename, flush_get, flush_rename) {
            (Some(cf), Some(cr), Some(fg), Some(fr)) => (cf < fr && fr < cr) || (fg < cr && cr < fr),
            _ => false,
        };
        let class = if race { "race-window" } else { "outside-window" };
        out.count(&format!("inter:{}", class));
        let rec = do_recover(&run.final_map).await;
        let modulo = cres.tombstones_removed() > 0 || run.cres.tombstones_removed() > 0;
        // a flush that reported Err may or may not have made its deltas durable
        let (state, diff): (Option<KV>, Vec<String>) = match &rec {
            Err(_) => (None, vec![]),
            Ok(r) => {
                let s = r.fold();
                let mut d: Vec<String> = diff_keys(&s, &expect, modulo).into_iter().filter(|k| !dk_seq.contains(k)).collect();
                if !run.flush_ok && !d.is_empty() {
                    let d2: Vec<String> = diff_keys(&s, &s_before, modulo).into_iter().filter(|k| !dk_seq.contains(k)).collect();
                    if d2.is_empty() {
                        d = d2;
                    }
                }
                (Some(s), d)
            }
        };
        let failed = rec.is_err() || !diff.is_empty();
        let detail = |extra: Value| -> Value {
            let mut v = base(json!({"schedule": sched_text(&sched), "admitted_calls": log_text(&run.log), "compaction_result_in_this_run": run.cres.text(),
                "flush_result": if run.flush_ok { "Ok".to_string() } else { format!("Err({})", run.flush_err.clone().unwrap_or_default()) },
                "flush_deltas": lay.flush_deltas.iter().map(delta_text).collect::<Vec<_>>(),
                "segment_id_chosen_by_flush": run.flush_seg, "segment_id_chosen_by_compaction": run.cres.created(),
                "recovery": match &rec { Ok(_) => "Ok".to_string(), Err(e) => format!("Err({})", e) },
                "missing_or_different": diff.iter().map(|k| (k.clone(), json!({"expected": show(&expect, k), "recovered": state.as_ref().map(|s| show(s, k))}))).collect::<BTreeMap<_, _>>()}));
            if let (Some(o), Some(e)) = (v.as_object_mut(), extra.as_object()) {
                for (k, x) in e {
                    o.insert(k.clone(), x.clone());
                }
            }
            v
        };
        let mut verdict = "ok".to_string();
        if failed {
            if race {
                out.count("inter:race-window:failed(known C13-manifest-swap-race)");
                if run.flush_seg.is_some() && run.flush_seg == run.cres.created() {
                    out.count("inter:race-window:both-chose-the-same-segment-id");
                }
                out.known(K_RACE, i, detail(json!({})));
                verdict = format!("KNOWN {} ({})", K_RACE, if rec.is_err() { "recovery fails".to_string() } else { format!("keys {:?}", diff) });
            } else {
                // outside the window the two operations ran one after the other (apart from the
                // compaction's deletes): a difference is either a defect of the compaction alone
                // on the layout it found, or a violation of the interleaving property
                let flush_first = matches!((flush_rename, comp_first), (Some(fr), Some(cf)) if fr < cf);
                let mut explained = false;
                if let (Some(s), true) = (&state, rec.is_ok()) {
                    if flush_first {
                        // the compaction started from the layout extended by the flushed segment
                        if let Some(mid) = &run.at_comp_first {
                            if let Ok(rm) = do_recover(mid).await {
                                let s_mid = rm.fold();
                                let flush_alone_ok = diff.iter().all(|k| s_mid.get(k).map(obs) == expect.get(k).map(obs));
                                if flush_alone_ok {
                                    explained = true;
                                    let inp = inputs_of(mid, &run.cres.removed());
                                    let all = diff.iter().all(|k| modulo && inp.in_cutoff_class(k, lay.cutoff(), &lay.ck, &[]));
                                    let d = detail(json!({"note": "the flush completed before the compaction started: the compaction ran alone on the layout extended by the flushed segment", "deltas_of_these_keys": inp.json_for(&diff)}));
                                    if all {
                                        out.count("inter:outside-window:sequential-on-extended-layout(known C13-tombstone-cutoff)");
                                        out.known(K_CUTOFF, i, d);
                                        verdict = format!("KNOWN {} on the layout extended by the flushed segment (keys {:?})", K_CUTOFF, diff);
                                    } else {
                                        out.count("inter:outside-window:sequential-on-extended-layout(violation of the sequential property)");
                                        out.count(&format!("violation:{}", V_STATE));
                                        out.violation(i, V_STATE, d);
                                        verdict = format!("VIOLATION of the sequential property on the layout extended by the flushed segment (keys {:?})", diff);
                                    }
                                }
                            }
                        }
                    } else {
                        // the flush started after the compaction's manifest swap: the compaction
                        // ran exactly as in the sequential run.  If the recovered state is the
                        // state recovered after the sequential compaction merged with the flushed
                        // deltas, the interleaving is innocent and the difference is the
                        // compaction's own (a dropped tombstone, or a change of a dead key's
                        // metadata that is invisible modulo dead keys until the key is written again)
                        let same_compaction = run.cres.removed() == removed && run.cres.created() == cres.created();
                        if let (Some(sa), true) = (&s_after_opt, same_compaction) {
                            let expect_b = fold_more(sa, &lay.flush_deltas);
                            let innocent = diff.iter().all(|k| s.get(k).map(obs) == expect_b.get(k).map(obs));
                            if innocent {
                                explained = true;
                                let inp = inputs_of(&map0, &run.cres.removed());
                                let all = modulo && diff.iter().all(|k| inp.in_cutoff_class(k, lay.cutoff(), &lay.ck, &lay.flush_deltas));
                                if all {
                                    out.count("inter:outside-window:tombstone-dropped-then-key-flushed(known C13-tombstone-cutoff)");
                                    out.known(K_CUTOFF, i, detail(json!({"note": "the compaction dropped the tombstone; the segment flushed after the manifest swap holds a delta of the same key, which now merges without the tombstone", "deltas_of_these_keys": inp.json_for(&diff)})));
                                    verdict = format!("KNOWN {} (a segment flushed after the compaction holds a delta of the key; keys {:?})", K_CUTOFF, diff);
                                } else {
                                    out.count("inter:outside-window:sequential-then-flush(violation of the sequential property)");
                                    out.count(&format!("violation:{}", V_STATE));
                                    out.violation(i, V_STATE, detail(json!({"note": "the flush started after the compaction's manifest swap and the result is the state after the sequential compaction merged with the flushed deltas: the compaction alone changed the state of these keys (dead keys compare equal modulo dead keys until they are written again)",
                                        "state_after_sequential_compaction": diff.iter().map(|k| (k.clone(), show(sa, k))).collect::<BTreeMap<_, _>>(),
                                        "state_before": diff.iter().map(|k| (k.clone(), show(&s_before, k))).collect::<BTreeMap<_, _>>(),
                                        "deltas_of_these_keys": inp.json_for(&diff)})));
                                    verdict = format!("VIOLATION of the sequential property revealed by the later flush (keys {:?}; the compaction alone changed them)", diff);
                                }
                            }
                        }
                    }
                }
                if !explained {
                    out.count("inter:outside-window:failed");
                    out.count(&format!("violation:{}", V_INTER));
                    out.violation(i, V_INTER, detail(json!({})));
                    verdict = format!("VIOLATION ({})", if rec.is_err() { "recovery fails".to_string() } else { format!("keys {:?}", diff) });
                }
            }
        } else {
            out.count(&format!("inter:{}:ok", class));
        }
        if verbose {
            println!("   schedule {} [{}] compaction {} | flush {} (segment id {:?}) | recovery {} | {}", sched_text(&sched), class, run.cres.text(), if run.flush_ok { "Ok".to_string() } else { format!("Err({})", run.flush_err.clone().unwrap_or_default()) }, run.flush_seg, match &rec { Ok(_) => "Ok".to_string(), Err(e) => format!("Err({})", e) }, verdict);
            println!("      admitted: {}", log_text(&run.log).join(" "));
            for k in &diff {
                println!("      {}: expected {} | recovered {}", k, show(&expect, k), state.as_ref().map(|s| show(s, k)).unwrap_or_else(|| "-".into()));
            }
        }
    }
}

fn main() {
    let a: Vec<String> = std::env::args().collect();
    let args = &Args::parse(&a[1..]);
    let verbose = args.only.is_some();
    let inter = args.get("inter", 6);
    let plain = args.get("plain", 0) != 0;
    let mut out = Out::new(&args.out, "C13", args.shards, HEADER);
    out.nontrivial_rule = "a case = a layout of 2-6 segments (1-8 deltas each, the first one or two larger in 60%; real SegmentWriter) plus a checkpoint in 30% (last_segment_id below every listed id; real CheckpointWriter) and the manifest flush would have written, holding SET (30% with expiry) / DEL / HSET / HDEL updates over keys k/j/m (strings) and h/g (hashes, fields f1..f3; in half of the cases every replica writes its own field) issued by 2-4 real ShardReplicaStates with independent clocks (small with ties / interleaved with cross delivery / one far ahead), assigned to segments in generation order with swaps and duplicates (overlapping stamp ranges, the same key in several segments); 55% plant SET K early (first segment or checkpoint) and DEL K later; CompactionConfig: target_segment_size = the size of the largest or second largest segment in about half of the cases (segments of at least that size are skipped) else huge, min_segments_to_compact 2-3, max_segments_per_compaction 2/3/5, tombstone_ttl 100 ms or 24 h; time source 50% production-like (1.758e12), 25% 0, 25% a logical stamp of the layout + ttl; unreferenced leftovers in the store before the compaction starts (38% of the cases, own stream): the leftover of a REAL StreamingPersistence::flush run on the layout whose manifest step was failed by the scripted store (put of manifest.json.tmp without effect or torn, or the rename), or constructed directly: under the key of next_segment_id a valid segment with unrelated deltas / garbage bytes / an empty object / a copy of an input, objects under other unlisted ids (above next_segment_id, in an id gap), a stale manifest.json.tmp (garbage or an old manifest); read faults of the sequential run, drawn per case from a separate stream: 25% one GET of an input segment returns the bytes with one bit flipped in header / record data / footer while the object at rest is intact (outcome GB if the real SegmentReader rejects the image, OK if the flip is harmless), 8% one GET of an input fails (EN), 12% one listed segment is damaged at rest (an undecodable object in the Coq case), 55% none; recovery itself always reads clean; every crash instant inside the compaction is recovered too; a fifth of the far-ahead clocks sit at the top of the u64 range (2^63.., u64::MAX - 2^24..), a sixth of the layouts use ids around 10^8 (object names grow a digit); damaged reads / objects carry one flipped bit and, in half of the cases, further structure-aware damage (second flip in another region, 16 zero-filled bytes, a header field set to 0xFF, a header byte +1, a zero-filled footer); after the sequential run: a second compact() on the same Compactor, and Compactor::compact_if_needed on a fresh copy with max_segments = number of segments -1 / +0 / +1; indices 9 mod 250 are size-boundary layouts (oracle only): 2-3 segments of 4095 / 4096 / 4097 deltas over 300-3000 keys compacted twice; non-trivial = the compaction returned Ok; distinct by layout text. Interleavings (fault-free cases whose sequential compaction created a segment; not part of the Coq case, the model runs operations sequentially): one flush of 1-3 new deltas through the real StreamingPersistence runs concurrently with the compaction on a fresh copy of the layout; they are produced by admitting the two operations' store calls in a scripted order (two handles of one scripted store carrying an actor id, every store call waits with yield_now until the schedule names its actor, both futures driven by tokio::join! on a current-thread runtime); schedules = the flush's 4 calls as one block after j of the compaction's n calls (j = 0..n) plus --inter random merges".into();
    if !verbose {
        std::panic::set_hook(Box::new(|_| {}));
    }
    let rt = tokio::runtime::Builder::new_current_thread().enable_all().build().unwrap();
    let range: Vec<u64> = match args.only { Some(i) => vec![i], None => (0..args.n).collect() };
    for i in range {
        let r = catch_unwind(AssertUnwindSafe(|| rt.block_on(run_case(args.seed, i, verbose, inter, plain, &mut out))));
        out.impl_checks += 1;
        if r.is_err() {
            out.count(&format!("violation:{}", V_PANIC));
            out.violation(i, V_PANIC, json!({"case": i}));
            if verbose {
                println!("oracle no panic: VIOLATED");
            }
        }
    }
    out.finish(args.seed);
}

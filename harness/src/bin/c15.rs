//! C15: RESP decoding is total, bounded, prefix-stable; replies re-decode to themselves.
//!
//! Runs RespCodec::parse (production, zero-copy) and RespParser::parse (simulation) under
//! catch_unwind on generated inputs, prints every case as a Coq term for Corr/C15.v and
//! evaluates the property itself on the implementation:
//!   O1 no panic / abort            O2 consumed n <= |b| and parse(b[..n]) = same
//!   O3 Done/Err stable under extension          O4 strict prefixes of a frame: Incomplete
//!   O5 largest single allocation <= 64*|b| + 256 bytes (tracking global allocator)
//!   O6 Incomplete is not permanent (CRLF padding drives the decoder out of it)
//!   O7 both decoders agree         O8 every fragmentation (<= 3 cuts) yields the same frames
//!   O9 well-formed values re-decode to themselves under both public encoders
//!   O10 replies of the executor are well-formed (no CR/LF in simple strings / errors)
//! plus a deterministic list of size-boundary frames (arrays / bulk strings around 2^k up to
//! 2^17+1 or 2^18+1 elements) judged against the value written by rule (see big_specs).
use bytes::BytesMut;
use rand::Rng as _;
use redis_sim::redis::{Command, CommandExecutor, RespCodec, RespParser, RespValue, RespValueZeroCopy};
use serde_json::{json, Value};
use std::alloc::{GlobalAlloc, Layout, System};
use std::borrow::Cow;
use std::panic::{catch_unwind, AssertUnwindSafe};
use std::sync::atomic::{AtomicBool, AtomicUsize, Ordering::Relaxed};
use vharness::util::*;

pub const HEADER: &str = "From Coq Require Import ZArith.\nFrom RV Require Import Corr.C15.\nLocal Open Scope string_scope.\nLocal Open Scope N_scope.\nLocal Open Scope list_scope.";

// ---------------------------------------------------------------- allocation tracking
struct Track;
static TRACK_ON: AtomicBool = AtomicBool::new(false);
static MAX_REQ: AtomicUsize = AtomicUsize::new(0);
unsafe impl GlobalAlloc for Track {
    unsafe fn alloc(&self, l: Layout) -> *mut u8 {
        if TRACK_ON.load(Relaxed) {
            MAX_REQ.fetch_max(l.size(), Relaxed);
        }
        System.alloc(l)
    }
    unsafe fn dealloc(&self, p: *mut u8, l: Layout) {
        System.dealloc(p, l)
    }
    unsafe fn alloc_zeroed(&self, l: Layout) -> *mut u8 {
        if TRACK_ON.load(Relaxed) {
            MAX_REQ.fetch_max(l.size(), Relaxed);
        }
        System.alloc_zeroed(l)
    }
    unsafe fn realloc(&self, p: *mut u8, l: Layout, n: usize) -> *mut u8 {
        if TRACK_ON.load(Relaxed) {
            MAX_REQ.fetch_max(n, Relaxed);
        }
        System.realloc(p, l, n)
    }
}
#[global_allocator]
static GLOBAL: Track = Track;

// ---------------------------------------------------------------- canonical values / outcomes
#[derive(Clone, PartialEq, Debug)]
enum V {
    S(Vec<u8>),
    E(Vec<u8>),
    I(i64),
    NB,
    B(Vec<u8>),
    NA,
    A(Vec<V>),
}
#[derive(Clone, Copy, PartialEq, Debug)]
enum K {
    UnknownType,
    BadInt,
    NegLen,
    TooDeep,
}
#[derive(Clone, PartialEq, Debug)]
enum O {
    Done(V, usize),
    Inc,
    Err(K),
    Other(String),
    Panic(String),
}

fn v_term(v: &V) -> String {
    match v {
        V::S(s) => format!("(rS {})", chex(s)),
        V::E(s) => format!("(rE {})", chex(s)),
        V::I(n) => format!("(rI ({})%Z)", n),
        V::NB => "rNB".into(),
        V::B(s) => format!("(rB {})", chex(s)),
        V::NA => "rNA".into(),
        V::A(l) => format!("(rA {})", clist(l.iter(), v_term)),
    }
}
fn k_term(k: K) -> &'static str {
    match k {
        K::UnknownType => "EUnknownType",
        K::BadInt => "EBadInt",
        K::NegLen => "ENegLen",
        K::TooDeep => "ETooDeep",
    }
}
fn o_term(o: &O) -> String {
    match o {
        O::Done(v, n) => format!("(IDone {} {})", v_term(v), n),
        O::Inc => "IInc".into(),
        O::Err(k) => format!("(IErr {})", k_term(*k)),
        O::Other(_) => "IOther".into(),
        O::Panic(_) => "IPanic".into(),
    }
}
fn o_show(o: &O) -> String {
    match o {
        O::Done(v, n) => format!("Done {} consumed {}", v_term(v), n),
        O::Inc => "Incomplete".into(),
        O::Err(k) => format!("Err {}", k_term(*k)),
        O::Other(s) => format!("Err (unclassified text) {:?}", s),
        O::Panic(s) => format!("PANIC {:?}", s),
    }
}

fn from_zc(v: &RespValueZeroCopy) -> V {
    match v {
        RespValueZeroCopy::SimpleString(s) => V::S(s.to_vec()),
        RespValueZeroCopy::Error(s) => V::E(s.to_vec()),
        RespValueZeroCopy::Integer(n) => V::I(*n),
        RespValueZeroCopy::BulkString(None) => V::NB,
        RespValueZeroCopy::BulkString(Some(d)) => V::B(d.to_vec()),
        RespValueZeroCopy::Array(None) => V::NA,
        RespValueZeroCopy::Array(Some(l)) => V::A(l.iter().map(from_zc).collect()),
    }
}
fn from_rv(v: &RespValue) -> V {
    match v {
        RespValue::SimpleString(s) => V::S(s.as_bytes().to_vec()),
        RespValue::Error(s) => V::E(s.as_bytes().to_vec()),
        RespValue::Integer(n) => V::I(*n),
        RespValue::BulkString(None) => V::NB,
        RespValue::BulkString(Some(d)) => V::B(d.clone()),
        RespValue::Array(None) => V::NA,
        RespValue::Array(Some(l)) => V::A(l.iter().map(from_rv).collect()),
    }
}
fn to_zc(v: &V) -> RespValueZeroCopy {
    match v {
        V::S(s) => RespValueZeroCopy::SimpleString(bytes::Bytes::copy_from_slice(s)),
        V::E(s) => RespValueZeroCopy::Error(bytes::Bytes::copy_from_slice(s)),
        V::I(n) => RespValueZeroCopy::Integer(*n),
        V::NB => RespValueZeroCopy::BulkString(None),
        V::B(d) => RespValueZeroCopy::BulkString(Some(bytes::Bytes::copy_from_slice(d))),
        V::NA => RespValueZeroCopy::Array(None),
        V::A(l) => RespValueZeroCopy::Array(Some(l.iter().map(to_zc).collect())),
    }
}
/// RespValue holds Rust strings: only defined when simple strings / errors are UTF-8.
fn to_rv(v: &V) -> RespValue {
    match v {
        V::S(s) => RespValue::SimpleString(Cow::Owned(String::from_utf8(s.clone()).unwrap())),
        V::E(s) => RespValue::Error(Cow::Owned(String::from_utf8(s.clone()).unwrap())),
        V::I(n) => RespValue::Integer(*n),
        V::NB => RespValue::BulkString(None),
        V::B(d) => RespValue::BulkString(Some(d.clone())),
        V::NA => RespValue::Array(None),
        V::A(l) => RespValue::Array(Some(l.iter().map(to_rv).collect())),
    }
}

/// error text -> kind.  The three texts by which RespParser asks for more bytes are the
/// outcome Incomplete.
fn classify(e: &str) -> O {
    if e == "Incomplete" || e == "Empty input" || e == "No CRLF found" || e == "Incomplete bulk string" {
        O::Inc
    } else if e.starts_with("Unknown RESP type") {
        O::Err(K::UnknownType)
    } else if e.contains("invalid bulk length") || e.contains("invalid multibulk length") {
        O::Err(K::NegLen)
    } else if e.contains("nesting too deep") {
        O::Err(K::TooDeep)
    } else if e.contains("invalid digit found in string")
        || e.contains("cannot parse integer from empty string")
        || e.contains("number too large to fit in target type")
        || e.contains("number too small to fit in target type")
        || e.contains("invalid utf-8 sequence")
        || e.contains("incomplete utf-8 byte sequence")
    {
        O::Err(K::BadInt)
    } else {
        O::Other(e.to_string())
    }
}
fn panic_text(p: Box<dyn std::any::Any + Send>) -> String {
    if let Some(s) = p.downcast_ref::<&str>() {
        s.to_string()
    } else if let Some(s) = p.downcast_ref::<String>() {
        s.clone()
    } else {
        "<non-string panic payload>".into()
    }
}

/// RespCodec::parse on a fresh BytesMut; consumed = bytes advanced. Also the largest
/// single allocation request made inside the call.
fn run_codec(b: &[u8]) -> (O, usize) {
    let mut buf = BytesMut::from(b);
    let before = buf.len();
    MAX_REQ.store(0, Relaxed);
    TRACK_ON.store(true, Relaxed);
    let r = catch_unwind(AssertUnwindSafe(|| RespCodec::parse(&mut buf)));
    TRACK_ON.store(false, Relaxed);
    let a = MAX_REQ.load(Relaxed);
    let o = match r {
        Err(p) => O::Panic(panic_text(p)),
        Ok(Ok(Some(v))) => {
            let first = from_zc(&v);
            let consumed = before - buf.len();
            // follow-up behaviour: what stays in the buffer is exactly the unconsumed tail ...
            if consumed <= b.len() && buf[..] != b[consumed..] {
                anomaly("RespCodec::parse: after a frame was taken, the buffer does not hold exactly the unconsumed bytes", b);
            }
            // ... and the decoded value does not change when the buffer is reused
            buf.clear();
            buf.extend_from_slice(&[0xAAu8; 48]);
            if from_zc(&v) != first {
                anomaly("RespCodec::parse: the decoded value changes when the input buffer is reused", b);
            }
            O::Done(first, consumed)
        }
        Ok(Ok(None)) => {
            if buf[..] != b[..] {
                anomaly("RespCodec::parse: the buffer was modified although more bytes were requested", b);
            }
            O::Inc
        }
        Ok(Err(e)) => classify(&e),
    };
    (o, a)
}
/// failures noticed inside helpers; drained into the case's violations by the main loop
static ANOM: std::sync::Mutex<Vec<(String, String)>> = std::sync::Mutex::new(Vec::new());
fn anomaly(what: &str, input: &[u8]) {
    let mut g = ANOM.lock().unwrap();
    if g.len() < 4 {
        let h = if input.len() <= 256 { hex(input) } else { format!("{}... ({} bytes)", hex(&input[..64]), input.len()) };
        g.push((what.to_string(), h));
    }
}
fn run_parser(b: &[u8]) -> (O, usize) {
    MAX_REQ.store(0, Relaxed);
    TRACK_ON.store(true, Relaxed);
    let r = catch_unwind(AssertUnwindSafe(|| RespParser::parse(b)));
    TRACK_ON.store(false, Relaxed);
    let a = MAX_REQ.load(Relaxed);
    let o = match r {
        Err(p) => O::Panic(panic_text(p)),
        Ok(Ok((v, n))) => O::Done(from_rv(&v), n),
        Ok(Err(e)) => classify(&e),
    };
    (o, a)
}

fn ascii(s: &[u8]) -> bool {
    s.iter().all(|c| *c < 128)
}
/// equality of a RespCodec value (raw bytes) and a RespParser value: simple strings and
/// errors of RespParser went through String::from_utf8_lossy, so its payload must be
/// exactly the lossy conversion of the codec's bytes (the identity on valid UTF-8)
fn v_eq_lossy(c: &V, p: &V) -> bool {
    match (c, p) {
        (V::S(a), V::S(b)) | (V::E(a), V::E(b)) => String::from_utf8_lossy(a).as_bytes() == &b[..],
        (V::A(a), V::A(b)) => a.len() == b.len() && a.iter().zip(b).all(|(x, y)| v_eq_lossy(x, y)),
        (a, b) => a == b,
    }
}
fn o_eq_lossy(c: &O, p: &O) -> bool {
    match (c, p) {
        (O::Done(a, n), O::Done(b, m)) => n == m && v_eq_lossy(a, b),
        (a, b) => a == b,
    }
}

// ---------------------------------------------------------------- inputs
const ALPHA: [u8; 12] = [b'+', b'-', b':', b'$', b'*', b'0', b'1', b'9', b'\r', b'\n', b'a', 0xFF];
/// number of strings over ALPHA of length < l
fn cum(l: u32) -> u64 {
    (0..l).map(|k| 12u64.pow(k)).sum()
}
/// the k-th string over ALPHA in length-then-lexicographic order: (len, code)
fn nth_string(k: u64) -> (u32, u64, Vec<u8>) {
    let mut l = 0;
    while cum(l + 1) <= k {
        l += 1;
    }
    let code = k - cum(l);
    let mut v = vec![0u8; l as usize];
    let mut c = code;
    for j in (0..l as usize).rev() {
        v[j] = ALPHA[(c % 12) as usize];
        c /= 12;
    }
    (l, code, v)
}

fn gen_payload(rng: &mut Rng) -> Vec<u8> {
    const P: [&[u8]; 10] = [b"", b"a", b"OK", b"\r\n", b"\r", b"a\r\nb", b"\xff\x00", b"$3\r\nabc\r\n", b"0123456789", b"*1\r\n"];
    if rng.gen_bool(0.7) {
        P[rng.gen_range(0..P.len())].to_vec()
    } else {
        let n = rng.gen_range(0..12);
        (0..n).map(|_| rng.gen::<u8>()).collect()
    }
}
fn gen_line(rng: &mut Rng, wf: bool) -> Vec<u8> {
    const L: [&[u8]; 7] = [b"OK", b"", b"PONG", b"ERR unknown command 'x'", b"QUEUED", b"a b", b"WRONGTYPE Operation against a key"];
    const BAD: [&[u8]; 5] = [b"a\rb", b"a\nb", b"a\r\nb", b"\r", b"x\r\n+OK"];
    if wf {
        L[rng.gen_range(0..L.len())].to_vec()
    } else {
        BAD[rng.gen_range(0..BAD.len())].to_vec()
    }
}
fn gen_int(rng: &mut Rng) -> i64 {
    const I: [i64; 10] = [0, 1, -1, 10, 99, -100, i64::MAX, i64::MIN, 1234567890123, -2];
    if rng.gen_bool(0.7) { I[rng.gen_range(0..I.len())] } else { rng.gen::<i64>() >> rng.gen_range(0..64) }
}
/// a value tree; `wf` = simple strings / errors without CR LF
fn gen_value(rng: &mut Rng, depth: u32, wf: bool) -> V {
    let k = if depth == 0 { rng.gen_range(0..6) } else { rng.gen_range(0..9) };
    match k {
        0 => {
            let w = wf || rng.gen_bool(0.5);
            V::S(gen_line(rng, w))
        }
        1 => {
            let w = wf || rng.gen_bool(0.5);
            V::E(gen_line(rng, w))
        }
        2 => V::I(gen_int(rng)),
        3 => V::NB,
        4 => V::B(gen_payload(rng)),
        5 => V::NA,
        _ => {
            let n = rng.gen_range(0..4);
            V::A((0..n).map(|_| gen_value(rng, depth - 1, wf)).collect())
        }
    }
}
fn v_wf(v: &V) -> bool {
    match v {
        V::S(s) | V::E(s) => !s.contains(&b'\r') && !s.contains(&b'\n'),
        V::A(l) => l.iter().all(v_wf),
        _ => true,
    }
}
fn v_depth(v: &V) -> usize {
    match v {
        V::A(l) => 1 + l.iter().map(v_depth).max().unwrap_or(0),
        _ => 0,
    }
}
fn enc_codec(v: &V) -> Vec<u8> {
    RespCodec::encode(&to_zc(v)).to_vec()
}
fn enc_parser(v: &V) -> Vec<u8> {
    RespParser::encode(&to_rv(v))
}

/// every `*<digits>` header whose pre-allocation (40 bytes per element) would be >= 2^31
/// bytes but below the capacity-overflow panic: executing it on a tree that pre-allocates
/// from the unvalidated length may abort the process (allocation failure is not a panic)
fn dangerous_prealloc(b: &[u8]) -> bool {
    let mut i = 0;
    while i < b.len() {
        if b[i] == b'*' {
            let mut j = i + 1;
            if j < b.len() && b[j] == b'+' {
                j += 1;
            }
            let mut n: u128 = 0;
            let mut digits = 0;
            while j < b.len() && b[j].is_ascii_digit() && digits < 30 {
                n = n * 10 + (b[j] - b'0') as u128;
                j += 1;
                digits += 1;
            }
            if digits > 0 && n * 40 >= (1u128 << 31) && n * 40 <= (isize::MAX as u128) {
                return true;
            }
        }
        i += 1;
    }
    false
}

// ---------------------------------------------------------------- the oracles
struct Ctx {
    /// the canary `*1000000\r\n` made RespCodec request ~40 MB: inputs with a dangerous
    /// header are not executed (reported instead)
    prealloc_unbounded: bool,
    viol: Vec<(String, Value)>,
    checks: u64,
}
impl Ctx {
    fn fail(&mut self, what: &str, d: Value) {
        if self.viol.len() < 8 {
            self.viol.push((what.to_string(), d));
        }
    }
}

fn both(b: &[u8]) -> (O, usize, O, usize) {
    let (c, ca) = run_codec(b);
    let (p, pa) = run_parser(b);
    (c, ca, p, pa)
}

/// O1..O7 on one input. `full` = also all prefixes / all one-byte extensions.
fn oracle(cx: &mut Ctx, b: &[u8], rng: Option<&mut Rng>, full: bool) -> (O, usize, O, usize) {
    let (c, ca, p, pa) = both(b);
    let hexb = hex(b);
    for (name, o, a, per) in [("RespCodec::parse", &c, ca, 64usize), ("RespParser::parse", &p, pa, 64usize)] {
        cx.checks += 3;
        // O1
        if let O::Panic(m) = o {
            cx.fail(&format!("{} panics", name), json!({"input_hex": hexb, "panic": m}));
        }
        if let O::Other(m) = o {
            cx.fail(&format!("{} returns an error text the check does not know", name), json!({"input_hex": hexb, "text": m}));
        }
        // O5
        if a > per * b.len() + 256 {
            cx.fail(
                &format!("{} requests an allocation proportional to an unvalidated length field", name),
                json!({"input_hex": hexb, "input_len": b.len(), "largest_single_allocation_request_bytes": a}),
            );
        }
        // O2
        if let O::Done(_, n) = o {
            if *n > b.len() {
                cx.fail(&format!("{} reports more bytes consumed than given", name), json!({"input_hex": hexb, "consumed": n}));
            } else {
                let again = if name.starts_with("RespCodec") { run_codec(&b[..*n]).0 } else { run_parser(&b[..*n]).0 };
                if &again != o {
                    cx.fail(
                        &format!("{}: re-decoding exactly the consumed bytes gives a different result", name),
                        json!({"input_hex": hexb, "first": o_show(o), "on_consumed_prefix": o_show(&again)}),
                    );
                }
            }
        }
    }
    // O7
    cx.checks += 1;
    if !o_eq_lossy(&c, &p) && !matches!(c, O::Panic(_)) && !matches!(p, O::Panic(_)) {
        cx.fail("the two decoders disagree on the same bytes", json!({"input_hex": hexb, "RespCodec": o_show(&c), "RespParser": o_show(&p)}));
    }
    // O3: extension stability
    let mut exts: Vec<Vec<u8>> = Vec::new();
    if full {
        for a in ALPHA {
            exts.push(vec![a]);
        }
    }
    if let Some(r) = rng {
        let n = r.gen_range(1..7);
        exts.push((0..n).map(|_| if r.gen_bool(0.7) { ALPHA[r.gen_range(0..12)] } else { r.gen() }).collect());
        exts.push(b"\r\n".to_vec());
    }
    if matches!(c, O::Done(..) | O::Err(_)) || matches!(p, O::Done(..) | O::Err(_)) {
        for x in &exts {
            let mut bx = b.to_vec();
            bx.extend_from_slice(x);
            if cx.prealloc_unbounded && dangerous_prealloc(&bx) {
                continue;
            }
            let (c2, _, p2, _) = both(&bx);
            cx.checks += 2;
            for (name, o, o2) in [("RespCodec::parse", &c, &c2), ("RespParser::parse", &p, &p2)] {
                if matches!(o, O::Done(..) | O::Err(_)) && o != o2 {
                    cx.fail(
                        &format!("{}: a decided result changes when more bytes arrive", name),
                        json!({"input_hex": hexb, "extension_hex": hex(x), "before": o_show(o), "after": o_show(o2)}),
                    );
                }
            }
        }
    }
    // O4: strict prefixes of a decoded frame ask for more bytes
    for (name, o) in [("RespCodec::parse", &c), ("RespParser::parse", &p)] {
        if let O::Done(_, n) = o {
            let n = (*n).min(b.len());
            let ks: Vec<usize> = if full || n <= 48 { (0..n).collect() } else { (0..16).map(|j| j * n / 16).collect() };
            for k in ks {
                let o2 = if name.starts_with("RespCodec") { run_codec(&b[..k]).0 } else { run_parser(&b[..k]).0 };
                cx.checks += 1;
                if o2 != O::Inc {
                    cx.fail(
                        &format!("{}: a strict prefix of a frame is not answered with 'need more bytes'", name),
                        json!({"input_hex": hexb, "prefix_len": k, "frame": o_show(o), "on_prefix": o_show(&o2)}),
                    );
                    break;
                }
            }
        }
    }
    // O6: Incomplete must not be permanent: padding with CR LF pairs completes the pending
    // line, fills a pending bulk body and then offers '\r' / '\n' as the next type byte.
    for (name, o) in [("RespCodec::parse", &c), ("RespParser::parse", &p)] {
        if *o == O::Inc {
            // largest number written in the input bounds a pending bulk length
            let mut big: u128 = 0;
            let mut cur: u128 = 0;
            for x in b {
                if x.is_ascii_digit() {
                    cur = (cur * 10 + (*x - b'0') as u128).min(1 << 100);
                    big = big.max(cur);
                } else {
                    cur = 0;
                }
            }
            if big > (1 << 16) {
                continue; // would need a huge completion; not tested
            }
            let mut bx = b.to_vec();
            for _ in 0..(big as usize / 2 + 8) {
                bx.extend_from_slice(b"\r\n");
            }
            if cx.prealloc_unbounded && dangerous_prealloc(&bx) {
                continue;
            }
            let o2 = if name.starts_with("RespCodec") { run_codec(&bx).0 } else { run_parser(&bx).0 };
            cx.checks += 1;
            if o2 == O::Inc {
                cx.fail(
                    &format!("{} answers 'need more bytes' although no continuation can complete the frame (padded with {} CRLF pairs: still incomplete)", name, big as usize / 2 + 8),
                    json!({"input_hex": hexb}),
                );
            }
        }
    }
    (c, ca, p, pa)
}

/// frames RespCodec::parse yields when `frags` are appended to one buffer in turn
fn feed_codec(frags: &[&[u8]]) -> (Vec<V>, O, Vec<u8>) {
    let mut buf = BytesMut::new();
    let mut frames = Vec::new();
    for f in frags {
        buf.extend_from_slice(f);
        loop {
            let r = catch_unwind(AssertUnwindSafe(|| RespCodec::parse(&mut buf)));
            match r {
                Err(p) => return (frames, O::Panic(panic_text(p)), buf.to_vec()),
                Ok(Ok(Some(v))) => frames.push(from_zc(&v)),
                Ok(Ok(None)) => break,
                Ok(Err(e)) => return (frames, classify(&e), Vec::new()), // the connection is dead: the buffer no longer matters
            }
        }
    }
    (frames, O::Inc, buf.to_vec())
}
/// the same for RespParser::parse (the caller keeps the offset)
fn feed_parser(frags: &[&[u8]]) -> (Vec<V>, O, Vec<u8>) {
    let mut buf: Vec<u8> = Vec::new();
    let mut frames = Vec::new();
    for f in frags {
        buf.extend_from_slice(f);
        loop {
            if buf.is_empty() {
                break;
            }
            let r = catch_unwind(AssertUnwindSafe(|| RespParser::parse(&buf)));
            match r {
                Err(p) => return (frames, O::Panic(panic_text(p)), buf),
                Ok(Ok((v, n))) => {
                    frames.push(from_rv(&v));
                    buf.drain(..n.min(buf.len()));
                }
                Ok(Err(e)) => match classify(&e) {
                    O::Inc => break,
                    o => return (frames, o, Vec::new()),
                },
            }
        }
    }
    (frames, O::Inc, buf)
}

fn cuts_of(s: &[u8], cuts: &[usize]) -> Vec<Vec<u8>> {
    let mut out = Vec::new();
    let mut prev = 0;
    for c in cuts {
        out.push(s[prev..*c].to_vec());
        prev = *c;
    }
    out.push(s[prev..].to_vec());
    out
}

/// O8 on one stream: every fragmentation with <= 3 cuts (all of them when the stream is
/// short, a random sample otherwise) yields the frames of the whole feed.
fn fragment_oracle(cx: &mut Ctx, s: &[u8], rng: &mut Rng) -> (Vec<V>, O, Vec<u8>) {
    let whole_c = feed_codec(&[s]);
    let whole_p = feed_parser(&[s]);
    let n = s.len();
    let mut sets: Vec<Vec<usize>> = Vec::new();
    if n <= 26 {
        for a in 0..=n {
            sets.push(vec![a]);
            for b in a..=n {
                sets.push(vec![a, b]);
                for c in b..=n {
                    sets.push(vec![a, b, c]);
                }
            }
        }
    } else {
        for a in 0..=n {
            sets.push(vec![a]);
        }
        for _ in 0..300 {
            let mut v: Vec<usize> = (0..rng.gen_range(2..4)).map(|_| rng.gen_range(0..=n)).collect();
            v.sort();
            sets.push(v);
        }
        // byte-by-byte
        sets.push((1..n).collect());
    }
    for cuts in sets {
        let frags = cuts_of(s, &cuts);
        let fr: Vec<&[u8]> = frags.iter().map(|f| &f[..]).collect();
        cx.checks += 2;
        let got_c = feed_codec(&fr);
        if got_c != whole_c {
            cx.fail(
                "RespCodec::parse: feeding the stream in fragments yields different frames than feeding it whole",
                json!({"stream_hex": hex(s), "cuts": cuts, "whole": format!("{:?}", whole_c), "fragmented": format!("{:?}", got_c)}),
            );
            break;
        }
        let got_p = feed_parser(&fr);
        if got_p != whole_p {
            cx.fail(
                "RespParser::parse: feeding the stream in fragments yields different frames than feeding it whole",
                json!({"stream_hex": hex(s), "cuts": cuts, "whole": format!("{:?}", whole_p), "fragmented": format!("{:?}", got_p)}),
            );
            break;
        }
    }
    whole_c
}

/// depth copies of "*1\r\n" followed by `inner`
fn deep_input(depth: usize, inner: &[u8]) -> Vec<u8> {
    let mut v = Vec::with_capacity(depth * 4 + inner.len());
    for _ in 0..depth {
        v.extend_from_slice(b"*1\r\n");
    }
    v.extend_from_slice(inner);
    v
}

/// child mode: decode a deeply nested input on a 2 MiB stack (tokio's worker default) and
/// print the two outcomes as Coq terms; a stack overflow kills the child only
fn deep_child(depth: usize, inner: &[u8]) {
    let b = deep_input(depth, inner);
    let h = std::thread::Builder::new()
        .stack_size(2 * 1024 * 1024)
        .spawn(move || {
            let (c, _) = run_codec(&b);
            println!("C {}", o_term(&c));
            println!("c {}", o_show(&c));
            let (p, _) = run_parser(&b);
            println!("P {}", o_term(&p));
            println!("p {}", o_show(&p));
        })
        .unwrap();
    let _ = h.join();
}
fn deep_run(depth: usize, inner: &[u8]) -> (String, String, String, String, bool) {
    let exe = std::env::current_exe().unwrap();
    let out = std::process::Command::new(exe)
        .args(["--deep-child", &depth.to_string(), "--inner", &hex(inner)])
        .output()
        .unwrap();
    let text = String::from_utf8_lossy(&out.stdout).to_string();
    let mut c = "IPanic".to_string();
    let mut p = "IPanic".to_string();
    let mut cs = "process aborted (stack overflow)".to_string();
    let mut ps = "process aborted (stack overflow)".to_string();
    for l in text.lines() {
        if let Some(x) = l.strip_prefix("C ") {
            c = x.to_string();
        } else if let Some(x) = l.strip_prefix("c ") {
            cs = x.to_string();
        } else if let Some(x) = l.strip_prefix("P ") {
            p = x.to_string();
        } else if let Some(x) = l.strip_prefix("p ") {
            ps = x.to_string();
        }
    }
    (c, p, cs, ps, out.status.success())
}

// ---------------------------------------------------------------- size boundaries
/// A large value described by a rule (printed as such for Coq): Rep(n, e) = array of n
/// copies of e, Fill(len, b) = bulk string of len bytes b.
#[derive(Clone, Debug)]
enum VG {
    V(V),
    Rep(usize, Box<VG>),
    /// array: the listed elements, then n copies of e
    HRep(Vec<VG>, usize, Box<VG>),
    Arr(Vec<VG>),
    Fill(usize, u8),
}
fn vg_term(g: &VG) -> String {
    match g {
        VG::V(v) => format!("(VV {})", v_term(v)),
        VG::Rep(n, e) => format!("(VRep {} {})", n, vg_term(e)),
        VG::HRep(h, n, e) => format!("(VHRep {} {} {})", clist(h.iter(), vg_term), n, vg_term(e)),
        VG::Arr(l) => format!("(VArr {})", clist(l.iter(), vg_term)),
        VG::Fill(n, b) => format!("(VFill {} {})", n, b),
    }
}
fn vg_value(g: &VG) -> V {
    match g {
        VG::V(v) => v.clone(),
        VG::Rep(n, e) => V::A(vec![vg_value(e); *n]),
        VG::HRep(h, n, e) => {
            let mut l: Vec<V> = h.iter().map(vg_value).collect();
            l.extend(vec![vg_value(e); *n]);
            V::A(l)
        }
        VG::Arr(l) => V::A(l.iter().map(vg_value).collect()),
        VG::Fill(n, b) => V::B(vec![*b; *n]),
    }
}
/// the frame of a value, written by rule here (NOT with the encoders under test)
fn frame_of(v: &V, out: &mut Vec<u8>) {
    match v {
        V::S(s) => {
            out.push(b'+');
            out.extend_from_slice(s);
            out.extend_from_slice(b"\r\n");
        }
        V::E(s) => {
            out.push(b'-');
            out.extend_from_slice(s);
            out.extend_from_slice(b"\r\n");
        }
        V::I(n) => out.extend_from_slice(format!(":{}\r\n", n).as_bytes()),
        V::NB => out.extend_from_slice(b"$-1\r\n"),
        V::B(d) => {
            out.extend_from_slice(format!("${}\r\n", d.len()).as_bytes());
            out.extend_from_slice(d);
            out.extend_from_slice(b"\r\n");
        }
        V::NA => out.extend_from_slice(b"*-1\r\n"),
        V::A(l) => {
            out.extend_from_slice(format!("*{}\r\n", l.len()).as_bytes());
            for x in l {
                frame_of(x, out);
            }
        }
    }
}
fn vg_frame(g: &VG, out: &mut Vec<u8>) {
    match g {
        VG::V(v) => frame_of(v, out),
        VG::Rep(n, e) => {
            out.extend_from_slice(format!("*{}\r\n", n).as_bytes());
            let mut one = Vec::new();
            vg_frame(e, &mut one);
            for _ in 0..*n {
                out.extend_from_slice(&one);
            }
        }
        VG::HRep(h, n, e) => {
            out.extend_from_slice(format!("*{}\r\n", h.len() + n).as_bytes());
            for x in h {
                vg_frame(x, out);
            }
            let mut one = Vec::new();
            vg_frame(e, &mut one);
            for _ in 0..*n {
                out.extend_from_slice(&one);
            }
        }
        VG::Arr(l) => {
            out.extend_from_slice(format!("*{}\r\n", l.len()).as_bytes());
            for x in l {
                vg_frame(x, out);
            }
        }
        VG::Fill(n, b) => {
            out.extend_from_slice(format!("${}\r\n", n).as_bytes());
            out.resize(out.len() + *n, *b);
            out.extend_from_slice(b"\r\n");
        }
    }
}
/// number of array elements anywhere in the value / longest bulk: decides whether the
/// (quadratic, stack-hungry) Coq model is evaluated on the frame
fn vg_elems(g: &VG) -> usize {
    match g {
        VG::V(_) => 1,
        VG::Rep(n, e) => 1 + n * vg_elems(e),
        VG::HRep(h, n, e) => 1 + h.iter().map(vg_elems).sum::<usize>() + n * vg_elems(e),
        VG::Arr(l) => 1 + l.iter().map(vg_elems).sum::<usize>(),
        VG::Fill(_, _) => 1,
    }
}
fn vg_maxbulk(g: &VG) -> usize {
    match g {
        VG::V(_) => 0,
        VG::Rep(_, e) => vg_maxbulk(e),
        VG::HRep(h, _, e) => h.iter().map(vg_maxbulk).max().unwrap_or(0).max(vg_maxbulk(e)),
        VG::Arr(l) => l.iter().map(vg_maxbulk).max().unwrap_or(0),
        VG::Fill(n, _) => *n,
    }
}
fn bhash(b: &[u8]) -> u64 {
    let mut h: u64 = 0;
    for x in b {
        h = (h * 257 + *x as u64 + 1) & 0xFFFF_FFFF;
    }
    h
}
const PING: &[u8] = b"*1\r\n$4\r\nPING\r\n";

enum BigKind {
    /// a complete frame (+ optionally one more frame behind it)
    Complete(VG, bool),
    /// the frame of the value without its last `missing` bytes
    Prefix(VG, usize),
    /// an announced length with little or no data behind it
    Raw(Vec<u8>),
}
struct Big {
    name: String,
    kind: BigKind,
}

fn el(k: usize) -> VG {
    match k {
        0 => VG::V(V::I(1)),             // ":1\r\n"
        1 => VG::V(V::B(vec![])),        // "$0\r\n\r\n"
        2 => VG::V(V::B(b"k".to_vec())), // "$1\r\nk\r\n"
        _ => VG::V(V::S(b"OK".to_vec())),
    }
}
/// a request `DEL k k k ...` with n arguments in all
fn request(n: usize) -> VG {
    VG::HRep(vec![VG::V(V::B(b"DEL".to_vec()))], n - 1, Box::new(el(2)))
}

/// the deterministic list of size-boundary cases; level 1 = quick, 2 = thorough
fn big_specs(level: u64) -> Vec<Big> {
    let mut v: Vec<Big> = Vec::new();
    if level == 0 {
        return v;
    }
    let mut pows: Vec<usize> = Vec::new(); // 2^k - 1, 2^k, 2^k + 1
    let top = if level >= 2 { 18 } else { 17 };
    for k in 2..=top {
        let p = 1usize << k;
        pows.extend_from_slice(&[p - 1, p, p + 1]);
    }
    let quick_counts: Vec<usize> = vec![0, 1, 1023, 1024, 1025, 4095, 4096, 4097, 65535, 65536, 65537, 131072, 131073];
    let counts: Vec<usize> = if level >= 2 { let mut c = vec![0, 1, 2, 3]; c.extend(pows.iter().copied()); c } else { quick_counts };
    // flat arrays of short elements, followed by one more frame
    for &n in &counts {
        v.push(Big { name: format!("array of {} x \":1\\r\\n\" + PING", n), kind: BigKind::Complete(VG::Rep(n, Box::new(el(0))), true) });
    }
    let other: Vec<usize> = if level >= 2 { counts.clone() } else { vec![4097, 65537] };
    for &n in &other {
        v.push(Big { name: format!("array of {} x \"$0\\r\\n\\r\\n\"", n), kind: BigKind::Complete(VG::Rep(n, Box::new(el(1))), n % 2 == 1) });
    }
    if level >= 2 {
        for &n in &[4097usize, 65536, 65537, 131073] {
            v.push(Big { name: format!("array of {} x \"+OK\\r\\n\" (reply shape)", n), kind: BigKind::Complete(VG::Rep(n, Box::new(el(3))), false) });
        }
    }
    // requests: DEL with n - 1 keys
    let reqs: Vec<usize> = if level >= 2 { vec![4096, 4097, 65535, 65536, 65537, 65538, 131073] } else { vec![65537] };
    for &n in &reqs {
        v.push(Big { name: format!("request DEL with {} arguments in all + PING", n), kind: BigKind::Complete(request(n), true) });
    }
    // nested once: outer small / inner huge, and outer huge / inner small
    let nest: Vec<usize> = if level >= 2 { vec![4097, 65535, 65536, 65537, 131073] } else { vec![65537] };
    for &n in &nest {
        v.push(Big {
            name: format!("[:1, array of {} x \":1\\r\\n\", $1 k] + PING", n),
            kind: BigKind::Complete(VG::Arr(vec![el(0), VG::Rep(n, Box::new(el(0))), el(2)]), true),
        });
        v.push(Big {
            name: format!("array of {} x [\":1\\r\\n\"] + PING", n),
            kind: BigKind::Complete(VG::Rep(n, Box::new(VG::Arr(vec![el(0)]))), true),
        });
    }
    // arrays that miss their last element / last byte, or have only a few elements
    let short: Vec<usize> = if level >= 2 { vec![1025, 4097, 65536, 65537, 65538, 131073] } else { vec![4097, 65537] };
    for &n in &short {
        v.push(Big { name: format!("array announcing {} elements, last one missing", n), kind: BigKind::Prefix(VG::Rep(n, Box::new(el(0))), 4) });
        v.push(Big { name: format!("array announcing {} elements, last byte missing", n), kind: BigKind::Prefix(VG::Rep(n, Box::new(el(1))), 1) });
    }
    for s in ["*65537\r\n:1\r\n:1\r\n:1\r\n", "*131073\r\n", "*536870913\r\n$0\r\n\r\n", "*2\r\n*65537\r\n:1\r\n"] {
        v.push(Big { name: format!("announced only: {:?}", s), kind: BigKind::Raw(s.as_bytes().to_vec()) });
    }
    // bulk strings: complete around the same boundaries, announced-only around 512 MiB, 2^31, 2^32
    let blens: Vec<usize> = if level >= 2 {
        let mut c = vec![0, 1, 2, 3];
        c.extend(pows.iter().copied());
        c.extend_from_slice(&[(1 << 20) - 1, 1 << 20, (1 << 20) + 1]);
        c
    } else {
        vec![0, 1, 4095, 4096, 4097, 16383, 16384, 16385, 65535, 65536, 65537, 131072, 131073]
    };
    for &n in &blens {
        v.push(Big { name: format!("bulk string of {} bytes{}", n, if n % 2 == 1 { " + PING" } else { "" }), kind: BigKind::Complete(VG::Fill(n, b'x'), n % 2 == 1) });
    }
    // frames of 255 / 256 / 257 bytes: RespCodec::encode starts with a 256-byte buffer
    for n in [247usize, 248, 249] {
        v.push(Big { name: format!("bulk string of {} bytes (frame of {} bytes)", n, n + 8), kind: BigKind::Complete(VG::Fill(n, b'y'), false) });
    }
    for n in [252usize, 253, 254] {
        v.push(Big { name: format!("simple string of {} bytes (frame of {} bytes)", n, n + 3), kind: BigKind::Complete(VG::V(V::S(vec![b'a'; n])), true) });
        v.push(Big { name: format!("error of {} bytes (frame of {} bytes)", n, n + 3), kind: BigKind::Complete(VG::V(V::E(vec![b'e'; n])), false) });
    }
    for n in [41usize, 42, 62, 63, 64] {
        v.push(Big { name: format!("array of {} x \"$0\\r\\n\\r\\n\" (frame around 256 bytes)", n), kind: BigKind::Complete(VG::Rep(n, Box::new(el(1))), true) });
    }
    for &n in &[65537usize, 131073] {
        v.push(Big { name: format!("bulk string announcing {} bytes, trailing CRLF missing", n), kind: BigKind::Prefix(VG::Fill(n, b'x'), 2) });
        v.push(Big { name: format!("[bulk string of {} bytes, :1] + PING", n), kind: BigKind::Complete(VG::Arr(vec![VG::Fill(n, b'\r'), el(0)]), true) });
    }
    for n in [536870911u64, 536870912, 536870913, 2147483647, 2147483648, 4294967295, 4294967296, 4294967297] {
        for data in ["", "hello\r\n"] {
            v.push(Big { name: format!("bulk string announcing {} bytes, {} bytes present", n, data.len()), kind: BigKind::Raw(format!("${}\r\n{}", n, data).into_bytes()) });
        }
    }
    v
}

fn top_count(v: &V) -> String {
    match v {
        V::A(l) => format!("array of {} elements", l.len()),
        V::B(d) => format!("bulk string of {} bytes", d.len()),
        other => v_term(other),
    }
}
fn o_brief(o: &O) -> String {
    match o {
        O::Done(v, n) => format!("Done: {}, consumed {}", top_count(v), n),
        other => o_show(other),
    }
}
fn frames_brief(r: &(Vec<V>, O, Vec<u8>)) -> String {
    let f: Vec<String> = r.0.iter().take(6).map(top_count).collect();
    format!("{} frame(s) [{}{}], then {}, {} byte(s) left", r.0.len(), f.join("; "), if r.0.len() > 6 { "; ..." } else { "" }, o_brief(&r.1), r.2.len())
}

/// O1, O2, O4, O5, O7, O8, O9 on one complete size-boundary frame; returns the Coq term
fn big_complete(cx: &mut Ctx, name: &str, g: &VG, trail: bool, verbose: bool, level: u64) -> String {
    let v = vg_value(g);
    let mut f = Vec::new();
    vg_frame(g, &mut f);
    let flen = f.len();
    let mut input = f.clone();
    if trail {
        input.extend_from_slice(PING);
    }
    let ping = V::A(vec![V::B(b"PING".to_vec())]);
    let want = O::Done(v.clone(), flen);
    let (c, ca) = run_codec(&input);
    let (p, pa) = run_parser(&input);
    let mut sums = Vec::new();
    for (dn, o, a) in [("RespCodec::parse", &c, ca), ("RespParser::parse", &p, pa)] {
        cx.checks += 3;
        if *o != want {
            cx.fail(
                &format!("{} does not decode a large frame to the value it encodes (frame boundary / element count / content)", dn),
                json!({"frame": name, "frame_len": flen, "followed_by": if trail { "PING" } else { "nothing" }, "expected": o_brief(&want), "decoded": o_brief(o)}),
            );
        }
        if a > 64 * input.len() + 256 {
            cx.fail(&format!("{} requests an allocation proportional to an unvalidated length field", dn), json!({"frame": name, "input_len": input.len(), "largest_single_allocation_request_bytes": a}));
        }
        let (n, same) = match o {
            O::Done(w, n) => (*n, *w == v),
            _ => (0, false),
        };
        sums.push((n, same));
    }
    // O7
    cx.checks += 1;
    if c != p {
        cx.fail("the two decoders disagree on the same bytes", json!({"frame": name, "RespCodec": o_brief(&c), "RespParser": o_brief(&p)}));
    }
    // the stream: the frame, then PING, nothing left
    let mut want_frames = vec![v.clone()];
    if trail {
        want_frames.push(ping);
    }
    let want_stream = (want_frames, O::Inc, Vec::new());
    let mut plans: Vec<(String, Vec<&[u8]>)> = vec![("whole".to_string(), vec![&input[..]])];
    // read sizes: 64 KiB, the 8 KiB read buffer, an odd size; in the thorough tier also the
    // neighbours of 4096 (BufferPool's buffer capacity) and 8192
    let sizes: Vec<usize> = if level >= 2 { vec![65536, 8192, 4093, 4096, 4097, 8191, 8193] } else { vec![65536, 8192, 4093] };
    for sz in sizes {
        if input.len() > sz {
            plans.push((format!("{}-byte reads", sz), input.chunks(sz).collect()));
        }
    }
    if flen >= 2 {
        plans.push(("all but the last byte of the frame, then the rest".to_string(), vec![&input[..flen - 1], &input[flen - 1..]]));
        plans.push(("header line + 1 byte, then the rest".to_string(), {
            let h = input.iter().position(|x| *x == b'\n').unwrap_or(0) + 2;
            let h = h.min(input.len());
            vec![&input[..h], &input[h..]]
        }));
    }
    for (pn, frags) in &plans {
        cx.checks += 2;
        let gc = feed_codec(frags);
        if gc != want_stream {
            cx.fail(
                "RespCodec::parse: a stream with a large frame is not cut into its frames",
                json!({"frame": name, "frame_len": flen, "followed_by": if trail { "PING" } else { "nothing" }, "fed": pn, "expected": frames_brief(&want_stream), "got": frames_brief(&gc)}),
            );
            break;
        }
        // RespParser re-parses from the start of the buffer on every read: quadratic for small reads
        if frags.len() <= 40 {
            let gp = feed_parser(frags);
            if gp != want_stream {
                cx.fail(
                    "RespParser::parse: a stream with a large frame is not cut into its frames",
                    json!({"frame": name, "frame_len": flen, "fed": pn, "expected": frames_brief(&want_stream), "got": frames_brief(&gp)}),
                );
                break;
            }
        }
    }
    // O4 at chosen cut points
    let mut cuts = vec![flen - 1, flen.saturating_sub(2), flen / 2, flen.saturating_sub(5)];
    cuts.retain(|k| *k < flen);
    cuts.dedup();
    for k in cuts {
        cx.checks += 2;
        for (dn, o) in [("RespCodec::parse", run_codec(&input[..k]).0), ("RespParser::parse", run_parser(&input[..k]).0)] {
            if o != O::Inc {
                cx.fail(&format!("{}: a strict prefix of a large frame is not answered with 'need more bytes'", dn), json!({"frame": name, "frame_len": flen, "prefix_len": k, "answer": o_brief(&o)}));
            }
        }
    }
    // O9: the reply direction - both public encoders produce this frame
    cx.checks += 2;
    let ec = enc_codec(&v);
    if ec != f {
        cx.fail("RespCodec::encode does not produce the frame of a large value", json!({"frame": name, "frame_len": flen, "encoded_len": ec.len()}));
    }
    let ep = enc_parser(&v);
    if ep != f {
        cx.fail("RespParser::encode does not produce the frame of a large value", json!({"frame": name, "frame_len": flen, "encoded_len": ep.len()}));
    }
    if verbose {
        println!(" frame: {} ({} bytes{})\n RespCodec::parse  -> {}\n RespParser::parse -> {}", name, flen, if trail { " + PING" } else { "" }, o_brief(&c), o_brief(&p));
    }
    let run = vg_elems(g) <= 1100 && vg_maxbulk(g) <= 20000;
    format!(
        "(KG {} {} {} {} {} {} {} {} {})",
        vg_term(g),
        chex(if trail { PING } else { b"" }),
        cbool(run),
        bhash(&f),
        flen,
        sums[0].0,
        sums[1].0,
        cbool(sums[0].1),
        cbool(sums[1].1)
    )
}

fn big_prefix(cx: &mut Ctx, name: &str, g: &VG, missing: usize, verbose: bool) -> String {
    let mut f = Vec::new();
    vg_frame(g, &mut f);
    let k = f.len() - missing.min(f.len());
    let input = &f[..k];
    let (c, ca) = run_codec(input);
    let (p, pa) = run_parser(input);
    for (dn, o, a) in [("RespCodec::parse", &c, ca), ("RespParser::parse", &p, pa)] {
        cx.checks += 2;
        if *o != O::Inc {
            cx.fail(&format!("{}: an incomplete large frame is not answered with 'need more bytes'", dn), json!({"frame": name, "bytes_present": k, "bytes_of_complete_frame": f.len(), "answer": o_brief(o)}));
        }
        if a > 64 * input.len() + 256 {
            cx.fail(&format!("{} requests an allocation proportional to an unvalidated length field", dn), json!({"frame": name, "input_len": input.len(), "largest_single_allocation_request_bytes": a}));
        }
    }
    // and completing it gives the frame
    cx.checks += 1;
    let gc = feed_codec(&[input, &f[k..]]);
    if gc != (vec![vg_value(g)], O::Inc, Vec::new()) {
        cx.fail("RespCodec::parse: an incomplete large frame completed by a second read is not decoded to its value", json!({"frame": name, "got": frames_brief(&gc)}));
    }
    if verbose {
        println!(" frame: {} ({} of {} bytes)\n RespCodec::parse  -> {}\n RespParser::parse -> {}", name, k, f.len(), o_brief(&c), o_brief(&p));
    }
    format!("(KT {} {} {} {})", vg_term(g), k, o_term(&c), o_term(&p))
}

fn main() {
    let a: Vec<String> = std::env::args().collect();
    if a.len() > 1 && a[1] == "--deep-child" {
        std::panic::set_hook(Box::new(|_| {}));
        let depth: usize = a[2].parse().unwrap();
        let inner = unhex(&a[4]);
        deep_child(depth, &inner);
        return;
    }
    let args = &Args::parse(&a[1..]);
    std::panic::set_hook(Box::new(|_| {}));
    let exh = args.get("exh", 3) as u32; // cases 0..cum(exh+1) are ALL strings of length <= exh
    let sweep = args.get("sweep", 4) as u32; // oracle-only exhaustive sweep up to this length
    let n_exh = cum(exh + 1);
    // cases n_exh .. n_exh + bigs.len() are the size-boundary frames (deterministic list)
    let bigs = big_specs(args.get("big", 1));
    let n_big = bigs.len() as u64;
    const SWEEP_BASE: u64 = 1 << 40; // case ids >= SWEEP_BASE address strings of the sweep
    let mut out = Out::new(&args.out, "C15", args.shards, HEADER);
    out.nontrivial_rule = format!(
        "cases 0..{} are ALL byte strings of length <= {} over the 12-symbol near-grammar alphabet {{+ - : $ * 0 1 9 CR LF a 0xFF}} (exhaustive; each also compared with the Coq model); the property oracles O1-O7 are additionally evaluated on ALL strings of length <= {} over that alphabet (oracle-only sweep, counted in impl_property_checks). The next {} cases are the size-boundary frames (deterministic list, --big level): complete arrays of 2^k-1 / 2^k / 2^k+1 short elements up to 2^17+1 (2^18+1 in the thorough tier) flat, nested once (outer small / inner huge, outer huge / inner small) and as DEL requests, bulk strings of the same lengths (to 2^20+1 in thorough), each followed by a PING frame or by nothing, fed whole and in 65536- / 8192- / 4093-byte reads and split at the last byte / after the header, re-encoded by both public encoders; the same arrays with the last element or byte missing; lengths announced without data around 2^16, 2^17, 512 MiB, 2^31, 2^32. They are judged by the direct oracles against the value written by rule; Coq rebuilds the value from the rule, checks well-formedness, that encode gives the bytes that were fed (length, hash) and the consumed counts, and evaluates the model itself when the frame has <= 1100 elements and bulks <= 20000 bytes (beyond that the model's answer is given by theorems C15_encode_decode / C15_parse_prefix_incomplete). Remaining cases by class: near-grammar random strings of length {}..12, uniformly random bytes, mutations of valid encodings (length digits changed, negative / huge / i64-boundary lengths, lone CR, deleted and inserted bytes), valid multi-frame streams with ALL fragmentations of <= 3 cuts (streams up to 26 bytes; 300 sampled cut sets plus byte-by-byte above), RespValue trees through both public encoders and back through both decoders, nesting depth 1..100000 (decoded in a child process on a 2 MiB stack when deeper than 64), executor replies to commands carrying CR LF (names, arguments, Lua status/error replies), lines of 15..4097 bytes with lone CR / LF / CR CR LF at chosen offsets and long runs of leading zeros, lines with valid and invalid multi-byte UTF-8, streams decoded in BufferPool buffers left dirty by earlier users and by 4 threads at once, values built by the RespValue constructors. Non-trivial = the input is not decided by its first byte alone (some decoder consumed a CRLF-terminated line or the result is Incomplete); distinct by input bytes.",
        n_exh, exh, sweep, n_big, exh + 1
    );
    out.count(&format!("size_of_RespValueZeroCopy:{}", std::mem::size_of::<RespValueZeroCopy>()));
    out.count(&format!("size_of_RespValue:{}", std::mem::size_of::<RespValue>()));

    // canary for the pre-allocation: a 10-byte input must not make the decoder request 40 MB
    let canary = run_codec(b"*1000000\r\n");
    let mut cx = Ctx { prealloc_unbounded: canary.1 > 64 * 10 + 256, viol: Vec::new(), checks: 0 };

    let mut seen: std::collections::BTreeMap<String, u64> = std::collections::BTreeMap::new();
    let range: Vec<u64> = match args.only {
        Some(i) => vec![i],
        None => (0..args.n).collect(),
    };
    for i in range {
        let mut rng = case_rng(args.seed, i);
        cx.viol.clear();
        let verbose = args.only.is_some();
        let (term, canon, nontrivial): (String, String, bool);
        if i < n_exh || i >= SWEEP_BASE {
            // ---------------- exhaustive near-grammar strings
            let (l, code, b) = nth_string(if i >= SWEEP_BASE { i - SWEEP_BASE } else { i });
            let (c, _ca, p, _pa) = oracle(&mut cx, &b, None, true);
            out.count("class:exhaustive");
            term = format!("(KX {} {} {} {})", l, code, o_term(&c), o_term(&p));
            canon = hex(&b);
            nontrivial = b.contains(&b'\n') || c == O::Inc;
            tally(&mut out, &c);
            if verbose {
                println!("case {}: input {:?} (hex {})\n RespCodec::parse  -> {}\n RespParser::parse -> {}", i, String::from_utf8_lossy(&b), hex(&b), o_show(&c), o_show(&p));
            }
        } else if i < n_exh + n_big {
            // ---------------- size boundaries of every length-carrying construct
            let b = &bigs[(i - n_exh) as usize];
            out.count("class:size_boundary");
            if verbose {
                println!("case {}: size boundary", i);
            }
            match &b.kind {
                BigKind::Complete(g, trail) => {
                    term = big_complete(&mut cx, &b.name, g, *trail, verbose, args.get("big", 1));
                    out.count(if vg_elems(g) > 65536 || vg_maxbulk(g) > 65536 { "size_boundary:complete_gt_65536" } else { "size_boundary:complete_le_65536" });
                }
                BigKind::Prefix(g, missing) => {
                    term = big_prefix(&mut cx, &b.name, g, *missing, verbose);
                    out.count("size_boundary:incomplete");
                }
                BigKind::Raw(bytes) => {
                    let (c, ca, p, _pa) = oracle(&mut cx, bytes, Some(&mut rng), true);
                    term = format!("(KP {} {} {} {})", chex(bytes), o_term(&c), ca, o_term(&p));
                    out.count("size_boundary:announced_only");
                    if verbose {
                        println!(" input {:?}\n RespCodec::parse  -> {} (largest allocation request {} bytes)\n RespParser::parse -> {}", String::from_utf8_lossy(bytes), o_show(&c), ca, o_show(&p));
                    }
                }
            }
            canon = format!("big:{}", b.name);
            nontrivial = true;
        } else {
            let class = rng.gen_range(0..100);
            if class < 62 {
                // ---------------- single inputs for both decoders
                let (b, cname) = if class < 10 {
                    let n = rng.gen_range(exh as usize + 1..13);
                    ((0..n).map(|_| ALPHA[rng.gen_range(0..12)]).collect::<Vec<u8>>(), "near_grammar_random")
                } else if class < 18 {
                    let n = rng.gen_range(0..25);
                    let mut v: Vec<u8> = (0..n).map(|_| rng.gen()).collect();
                    if n > 0 && rng.gen_bool(0.6) {
                        v[0] = ALPHA[rng.gen_range(0..5)];
                    }
                    (v, "random_bytes")
                } else if class < 40 {
                    (gen_mutation(&mut rng), "mutated_encoding")
                } else if class < 49 {
                    (gen_lengths(&mut rng), "boundary_lengths")
                } else if class < 56 {
                    (gen_long_line(&mut rng), "long_lines_cr_positions")
                } else {
                    (gen_utf8_line(&mut rng), "utf8_lines")
                };
                out.count(&format!("class:{}", cname));
                if cx.prealloc_unbounded && dangerous_prealloc(&b) {
                    // executing this on the current tree may abort the whole process
                    report(
                        &mut out,
                        &mut seen,
                        i,
                        "RespCodec::parse pre-allocates from an unvalidated array length (canary *1000000\\r\\n requested ~40 MB); this input was not executed because the allocation could abort the process",
                        json!({"input_hex": hex(&b), "canary_largest_allocation_request_bytes": canary.1}),
                    );
                    term = format!("(KP {} IPanic 0 IPanic)", chex(&b));
                    canon = hex(&b);
                    nontrivial = true;
                } else {
                    let (c, ca, p, _pa) = oracle(&mut cx, &b, Some(&mut rng), b.len() <= 16);
                    term = format!("(KP {} {} {} {})", chex(&b), o_term(&c), ca, o_term(&p));
                    canon = hex(&b);
                    nontrivial = b.contains(&b'\n') || c == O::Inc;
                    tally(&mut out, &c);
                    if verbose {
                        println!("case {}: input hex {}\n RespCodec::parse  -> {} (largest allocation request {} bytes)\n RespParser::parse -> {}", i, hex(&b), o_show(&c), ca, o_show(&p));
                    }
                    out.sample(json!({"input_hex": hex(&b), "codec": o_show(&c), "parser": o_show(&p)}));
                }
            } else if class < 74 {
                // ---------------- streams and their fragmentations; through shared state
                let s = gen_stream(&mut rng);
                let shared = class >= 71;
                out.count(if shared { "class:stream_pooled_buffer_and_threads" } else { "class:stream_fragmentation" });
                let (frames, fin, rest) = if shared { shared_state_oracle(&mut cx, &s, &mut rng) } else { fragment_oracle(&mut cx, &s, &mut rng) };
                let t = match &fin {
                    O::Inc => format!("(JMore {})", chex(&rest)),
                    O::Err(k) => format!("(JErr {})", k_term(*k)),
                    O::Other(_) => "JOther".to_string(),
                    _ => "JPanic".to_string(),
                };
                if let O::Panic(m) = &fin {
                    cx.fail("RespCodec::parse panics inside a stream", json!({"stream_hex": hex(&s), "panic": m}));
                }
                term = format!("(KS {} {} {})", chex(&s), clist(frames.iter(), v_term), t);
                canon = hex(&s);
                nontrivial = frames.len() > 0;
                out.count(&format!("stream_frames:{}", frames.len().min(4)));
                if verbose {
                    println!("case {}: stream hex {}\n frames {:?}\n then {} rest {}", i, hex(&s), frames, o_show(&fin), hex(&rest));
                }
            } else if class < 90 {
                // ---------------- values through the encoders and back
                let wf = rng.gen_bool(0.85);
                let v = if class >= 88 { gen_constructed(&mut cx, &mut rng) } else { gen_value(&mut rng, 3, wf) };
                let wfv = v_wf(&v);
                out.count(if class >= 88 { "class:respvalue_constructors" } else if wfv { "class:encode_decode_wf" } else { "class:encode_decode_crlf_in_line" });
                let ec = enc_codec(&v);
                let ep = enc_parser(&v);
                cx.checks += 1;
                if ec != ep {
                    cx.fail("RespCodec::encode and RespParser::encode differ on the same value", json!({"value": v_term(&v), "codec_hex": hex(&ec), "parser_hex": hex(&ep)}));
                }
                let (c, _ca, p, _pa) = oracle(&mut cx, &ec, Some(&mut rng), ec.len() <= 16);
                if wfv {
                    // O9
                    cx.checks += 2;
                    let want = O::Done(v.clone(), ec.len());
                    for (name, o) in [("RespCodec::parse", &c), ("RespParser::parse", &p)] {
                        if *o != want {
                            cx.fail(&format!("{} does not decode an encoded well-formed value back to itself", name), json!({"value": v_term(&v), "encoded_hex": hex(&ec), "decoded": o_show(o)}));
                        }
                    }
                }
                term = format!("(KE {} {} {} {} {})", v_term(&v), chex(&ec), chex(&ep), o_term(&c), o_term(&p));
                canon = hex(&ec);
                nontrivial = true;
                out.count(&format!("value_depth:{}", v_depth(&v)));
                if verbose {
                    println!("case {}: value {}\n RespCodec::encode  {}\n RespParser::encode {}\n RespCodec::parse  -> {}\n RespParser::parse -> {}", i, v_term(&v), hex(&ec), hex(&ep), o_show(&c), o_show(&p));
                }
            } else if class < 96 {
                // ---------------- nesting depth
                const D: [usize; 12] = [1, 2, 8, 30, 31, 32, 33, 34, 40, 64, 100, 33];
                const DEEP: [usize; 8] = [1000, 1000, 5000, 5000, 5000, 20000, 20000, 100000];
                const INNER: [&[u8]; 5] = [b":1\r\n", b"", b"$-1\r\n", b"+x", b"*0\r\n"];
                let depth = if rng.gen_bool(0.12) { DEEP[rng.gen_range(0..DEEP.len())] } else { D[rng.gen_range(0..D.len())] };
                let inner = INNER[rng.gen_range(0..INNER.len())];
                out.count(&format!("class:nesting_depth_{}", if depth <= 32 { "le32" } else if depth <= 64 { "33to64" } else { "gt64" }));
                let (ct, pt);
                if depth <= 64 {
                    let b = deep_input(depth, inner);
                    let (c, _, p, _) = oracle(&mut cx, &b, Some(&mut rng), false);
                    ct = o_term(&c);
                    pt = o_term(&p);
                    if verbose {
                        println!("case {}: {} x \"*1\\r\\n\" + {:?}\n RespCodec::parse  -> {}\n RespParser::parse -> {}", i, depth, String::from_utf8_lossy(inner), o_show(&c), o_show(&p));
                    }
                } else {
                    let (c, p, cs, ps, ok) = deep_run(depth, inner);
                    cx.checks += 2;
                    if !ok || c == "IPanic" || p == "IPanic" {
                        cx.fail(
                            "decoding a deeply nested array overflows the stack (process abort; not catchable)",
                            json!({"input": format!("{} x \"*1\\r\\n\" followed by {:?}", depth, String::from_utf8_lossy(inner)), "input_len": depth * 4 + inner.len(), "stack_bytes": 2 * 1024 * 1024, "RespCodec": cs, "RespParser": ps}),
                        );
                    }
                    if verbose {
                        println!("case {}: {} x \"*1\\r\\n\" + {:?} (child process, 2 MiB stack)\n RespCodec::parse  -> {}\n RespParser::parse -> {}", i, depth, String::from_utf8_lossy(inner), cs, ps);
                    }
                    ct = c;
                    pt = p;
                }
                term = format!("(KD {} {} {} {})", depth, chex(inner), ct, pt);
                canon = format!("deep{}:{}", depth, hex(inner));
                nontrivial = true;
            } else {
                // ---------------- replies of the executor to hostile command names / arguments
                out.count("class:executor_reply_wf");
                let (cmdv, reply) = gen_reply(&mut rng);
                let rv = from_rv(&reply);
                cx.checks += 1;
                let ep = RespParser::encode(&reply);
                let ec = enc_codec(&rv);
                if !v_wf(&rv) {
                    let (frames, _, _) = feed_codec(&[&ec[..]]);
                    cx.fail(
                        "the executor emits a simple string / error containing CR LF copied from client input: the reply does not decode back to itself",
                        json!({"command": v_term(&cmdv), "reply": v_term(&rv), "encoded_hex": hex(&ep), "client_decodes_frames": format!("{:?}", frames)}),
                    );
                }
                let (c, _, p, _) = oracle(&mut cx, &ec, Some(&mut rng), false);
                term = format!("(KE {} {} {} {} {})", v_term(&rv), chex(&ec), chex(&ep), o_term(&c), o_term(&p));
                canon = hex(&ec);
                nontrivial = true;
                if verbose {
                    println!("case {}: command {}\n reply {}\n encoded {}\n RespCodec::parse -> {}", i, v_term(&cmdv), v_term(&rv), hex(&ep), o_show(&c));
                }
            }
        }
        out.impl_checks += cx.checks;
        cx.checks = 0;
        for (w, h) in ANOM.lock().unwrap().drain(..) {
            cx.fail(&w, json!({"input_hex": h}));
        }
        for (w, d) in cx.viol.drain(..) {
            report(&mut out, &mut seen, i, &w, d);
        }
        out.case(i, term, nontrivial, &canon);
    }

    // ---------------- oracle-only exhaustive sweep (no Coq cases), lengths exh+1 ..= sweep
    if args.only.is_none() && sweep > exh {
        let from = cum(exh + 1);
        let to = cum(sweep + 1);
        let mut swept = 0u64;
        for k in from..to {
            let (_, _, b) = nth_string(k);
            cx.viol.clear();
            let _ = oracle(&mut cx, &b, None, true);
            swept += 1;
            for (w, d) in cx.viol.drain(..) {
                report(&mut out, &mut seen, SWEEP_BASE + k, &w, d);
            }
        }
        out.impl_checks += cx.checks;
        *out.dist.entry("oracle_only_sweep_strings".into()).or_insert(0) += swept;
    }
    out.finish(args.seed);
}

/// at most 3 reports per kind of failure, so that every kind shows up in the summary
fn report(out: &mut Out, seen: &mut std::collections::BTreeMap<String, u64>, i: u64, what: &str, d: Value) {
    let class = what.split(" (").next().unwrap().to_string();
    let n = seen.entry(class).or_insert(0);
    *n += 1;
    if *n <= 3 {
        out.violation(i, what, d);
    }
}

fn tally(out: &mut Out, c: &O) {
    out.count(match c {
        O::Done(..) => "codec_outcome:done",
        O::Inc => "codec_outcome:incomplete",
        O::Err(K::UnknownType) => "codec_outcome:err_unknown_type",
        O::Err(K::BadInt) => "codec_outcome:err_bad_int",
        O::Err(K::NegLen) => "codec_outcome:err_negative_length",
        O::Err(K::TooDeep) => "codec_outcome:err_too_deep",
        O::Other(_) => "codec_outcome:err_unclassified",
        O::Panic(_) => "codec_outcome:panic",
    });
}

/// 1..4 encoded values, sometimes truncated or followed by something undecodable
fn gen_stream(rng: &mut Rng) -> Vec<u8> {
    let nf = rng.gen_range(1..5);
    let mut s = Vec::new();
    for _ in 0..nf {
        let v = gen_value(rng, 2, true);
        s.extend_from_slice(&enc_codec(&v));
        if s.len() > 60 {
            break;
        }
    }
    match rng.gen_range(0..10) {
        0 => {
            let k = rng.gen_range(0..=s.len());
            s.truncate(k);
        }
        1 => s.extend_from_slice(b"x\r\n"),
        2 => s.extend_from_slice(b"$-2\r\n"),
        3 => s.extend_from_slice(b"+a\rb"),
        _ => {}
    }
    s
}

/// frames cut out of `s` appended to an existing buffer (which must be empty)
fn feed_into(mut buf: BytesMut, s: &[u8]) -> (Vec<V>, O, Vec<u8>, BytesMut) {
    let mut frames = Vec::new();
    buf.extend_from_slice(s);
    loop {
        match catch_unwind(AssertUnwindSafe(|| RespCodec::parse(&mut buf))) {
            Err(p) => return (frames, O::Panic(panic_text(p)), Vec::new(), buf),
            Ok(Ok(Some(v))) => frames.push(from_zc(&v)),
            Ok(Ok(None)) => break,
            Ok(Err(e)) => return (frames, classify(&e), Vec::new(), buf),
        }
    }
    let rest = buf.to_vec();
    (frames, O::Inc, rest, buf)
}

/// Lesson "state shared across instances": the stream decoded (a) in buffers of a
/// BufferPool (resp_optimized.rs) whose earlier users stopped in the middle of a frame or
/// after an error and released more buffers than the pool holds, (b) by several threads at
/// once next to other inputs, must give what a fresh buffer gives alone.
fn shared_state_oracle(cx: &mut Ctx, s: &[u8], rng: &mut Rng) -> (Vec<V>, O, Vec<u8>) {
    use redis_sim::redis::BufferPool;
    let alone = feed_codec(&[s]);
    let (size, cap) = [(1usize, 16usize), (2, 0), (3, 4096), (256, 4096), (4, 8)][rng.gen_range(0..5)];
    let pool = if size == 256 && rng.gen_bool(0.5) { BufferPool::default() } else { BufferPool::new(size, cap) };
    // earlier connections: take size-1 / size / size+1 / 2*size+1 buffers, leave garbage in them
    let takes = [size.saturating_sub(1), size, size + 1, 2 * size + 1][rng.gen_range(0..4)].min(600);
    let mut held = Vec::new();
    for k in 0..takes {
        let mut b = pool.acquire();
        cx.checks += 1;
        if !b.is_empty() {
            cx.fail("BufferPool::acquire hands out a buffer that is not empty", json!({"pool_size": size, "buffer_capacity": cap, "len": b.len()}));
        }
        match k % 4 {
            0 => b.extend_from_slice(b"*3\r\n$3\r\nSET\r\n$1\r\nk"), // stopped in the middle of a frame
            1 => {
                b.extend_from_slice(b"$-2\r\nrest"); // ended with a protocol error
                let _ = catch_unwind(AssertUnwindSafe(|| RespCodec::parse(&mut b)));
            }
            2 => {
                b.extend_from_slice(s); // half decoded
                let _ = catch_unwind(AssertUnwindSafe(|| RespCodec::parse(&mut b)));
            }
            _ => b.extend_from_slice(&vec![b'+'; cap + 1]), // grown beyond its capacity
        }
        held.push(b);
    }
    for b in held {
        pool.release(b);
    }
    // the next connections
    for round in 0..(size.min(3) + 1) {
        let b = pool.acquire();
        cx.checks += 2;
        if !b.is_empty() {
            cx.fail("BufferPool::acquire hands out a buffer with bytes of its previous user", json!({"pool_size": size, "buffer_capacity": cap, "round": round, "stale_hex": hex(&b[..b.len().min(32)])}));
        }
        let (frames, fin, rest, b) = feed_into(b, s);
        let got = (frames, fin, rest);
        if got != alone {
            cx.fail(
                "a stream decoded in a pooled buffer gives other frames than in a fresh buffer",
                json!({"stream_hex": hex(s), "pool_size": size, "buffer_capacity": cap, "round": round, "fresh": format!("{:?}", alone), "pooled": format!("{:?}", got)}),
            );
        }
        pool.release(b);
    }
    // several threads at once, each with its own inputs, `s` among them
    let mut inputs: Vec<Vec<u8>> = vec![s.to_vec(), gen_mutation(rng), gen_stream(rng), deep_input(33, b":1\r\n"), gen_long_line(rng)];
    inputs.push(b"*2\r\n$3\r\nGET\r\n$1\r\nk\r\n".to_vec());
    let seq: Vec<(O, O)> = inputs.iter().map(|b| (run_codec_plain(b), run_parser_plain(b))).collect();
    let inputs = std::sync::Arc::new(inputs);
    let mut hs = Vec::new();
    for t in 0..4usize {
        let inp = inputs.clone();
        hs.push(std::thread::spawn(move || {
            let mut res = Vec::new();
            for r in 0..6 {
                for k in 0..inp.len() {
                    let j = (k + t + r) % inp.len();
                    res.push((j, run_codec_plain(&inp[j]), run_parser_plain(&inp[j])));
                }
            }
            res
        }));
    }
    for h in hs {
        if let Ok(res) = h.join() {
            for (j, c, p) in res {
                cx.checks += 2;
                if c != seq[j].0 || p != seq[j].1 {
                    cx.fail(
                        "a decoder answers differently when other threads decode at the same time",
                        json!({"input_hex": hex(&inputs[j]), "alone": format!("{} / {}", o_show(&seq[j].0), o_show(&seq[j].1)), "concurrent": format!("{} / {}", o_show(&c), o_show(&p))}),
                    );
                    break;
                }
            }
        } else {
            cx.fail("a decoder thread died", json!({"stream_hex": hex(s)}));
        }
    }
    alone
}
/// the decoders without the (process-global) allocation tracking: usable from threads
fn run_codec_plain(b: &[u8]) -> O {
    let mut buf = BytesMut::from(b);
    let before = buf.len();
    match catch_unwind(AssertUnwindSafe(|| RespCodec::parse(&mut buf))) {
        Err(p) => O::Panic(panic_text(p)),
        Ok(Ok(Some(v))) => O::Done(from_zc(&v), before - buf.len()),
        Ok(Ok(None)) => O::Inc,
        Ok(Err(e)) => classify(&e),
    }
}
fn run_parser_plain(b: &[u8]) -> O {
    match catch_unwind(AssertUnwindSafe(|| RespParser::parse(b))) {
        Err(p) => O::Panic(panic_text(p)),
        Ok(Ok((v, n))) => O::Done(from_rv(&v), n),
        Ok(Err(e)) => classify(&e),
    }
}

/// values built with the public constructors of RespValue (resp.rs): err / simple must give
/// one-line values whatever the text, unchanged when the text has no CR / LF
fn gen_constructed(cx: &mut Ctx, rng: &mut Rng) -> V {
    const T: [&str; 12] = ["OK", "", "ERR x", "a\r\nb", "\r", "\n", "x\r\n+INJECTED", "tab\tand \u{e9}\u{4e2d}", "ERR unknown command 'a\nb'", "\r\n\r\n", "trailing\r", "\nleading"];
    let mut text = T[rng.gen_range(0..T.len())].to_string();
    if rng.gen_bool(0.15) {
        text = "z".repeat([254usize, 255, 256, 257, 1000][rng.gen_range(0..5)]);
    }
    let want: String = text.chars().map(|c| if c == '\r' || c == '\n' { ' ' } else { c }).collect();
    let k = rng.gen_range(0..9);
    let (rv, expect): (RespValue, V) = match k {
        0 => (RespValue::err(text.clone()), V::E(want.clone().into_bytes())),
        1 => (RespValue::simple(text.clone()), V::S(want.clone().into_bytes())),
        2 => (RespValue::err(Cow::Owned(text.clone())), V::E(want.clone().into_bytes())),
        3 => (RespValue::ok(), V::S(b"OK".to_vec())),
        4 => (RespValue::pong(), V::S(b"PONG".to_vec())),
        5 => (RespValue::queued(), V::S(b"QUEUED".to_vec())),
        6 => (RespValue::nil(), V::NB),
        7 => (RespValue::empty_array(), V::A(vec![])),
        _ => (RespValue::Array(Some(vec![RespValue::err(text.clone()), RespValue::simple(text.clone()), RespValue::nil()])), V::A(vec![V::E(want.clone().into_bytes()), V::S(want.clone().into_bytes()), V::NB])),
    };
    let got = from_rv(&rv);
    cx.checks += 1;
    if got != expect {
        cx.fail("a RespValue constructor does not build the one-line value of its text (CR / LF replaced by spaces, everything else unchanged)", json!({"constructor": k, "text_hex": hex(text.as_bytes()), "built": v_term(&got), "expected": v_term(&expect)}));
    }
    got
}

/// one line of each type around the sizes where a SIMD / word-at-a-time CR search changes
/// gear (15..17, 31..33, 63..65, 127..129, 255..257, 1023..1025, 4095..4097 bytes), with lone
/// CR, lone LF, CR CR LF, LF CR at chosen offsets; numeric lines with long runs of leading
/// zeros; terminated, unterminated or ending in a bare CR
fn gen_long_line(rng: &mut Rng) -> Vec<u8> {
    const BASE: [usize; 7] = [16, 32, 64, 128, 256, 1024, 4096];
    let hi = if rng.gen_bool(0.8) { 5 } else { 7 };
    let target = BASE[rng.gen_range(0..hi)] + rng.gen_range(0..5) - 2;
    let ty = [b'+', b'-', b':', b'$', b'*'][rng.gen_range(0..5)];
    let mut b = vec![ty];
    let body = target.saturating_sub(3);
    if ty == b'+' || ty == b'-' {
        b.extend(std::iter::repeat(b'a').take(body));
    } else {
        if rng.gen_bool(0.2) {
            b.push(if rng.gen_bool(0.5) { b'+' } else { b'-' });
        }
        let small = [b'0', b'1', b'2', b'3'][rng.gen_range(0..4)];
        while b.len() < body {
            b.push(b'0');
        }
        b.push(small);
    }
    // special bytes at chosen offsets of the line
    for _ in 0..rng.gen_range(0..4) {
        let pos = match rng.gen_range(0..4) {
            0 => 1 + rng.gen_range(0..b.len().max(2) - 1),
            1 => b.len() - 1,
            2 => [15usize, 16, 17, 31, 32, 33, 63, 64][rng.gen_range(0..8)].min(b.len() - 1),
            _ => b.len().saturating_sub(2).max(1),
        };
        match rng.gen_range(0..5) {
            0 => b[pos] = b'\r',
            1 => b[pos] = b'\n',
            2 => b.insert(pos, b'\r'),
            3 => {
                b[pos] = b'\n';
                if pos + 1 < b.len() {
                    b[pos + 1] = b'\r';
                }
            }
            _ => b[pos] = 0xFF,
        }
    }
    match rng.gen_range(0..8) {
        0 => {}
        1 => b.push(b'\r'),
        2 => b.extend_from_slice(b"\r\r\n"),
        _ => b.extend_from_slice(b"\r\n"),
    }
    match rng.gen_range(0..4) {
        0 => b.extend_from_slice(b":1\r\n:2\r\n:3\r\n"),
        1 => b.extend_from_slice(b"abc\r\n"),
        _ => {}
    }
    b
}

/// simple strings / errors / integers whose line holds valid multi-byte UTF-8, truncated
/// sequences, overlong forms, surrogates, bytes above F4 (RespParser converts lossily)
fn gen_utf8_line(rng: &mut Rng) -> Vec<u8> {
    const PIECES: [&[u8]; 18] = [
        b"a", b"OK", "\u{e9}".as_bytes(), "\u{4e2d}".as_bytes(), "\u{1f600}".as_bytes(), "\u{7ff}".as_bytes(), "\u{800}".as_bytes(), "\u{ffff}".as_bytes(),
        "\u{10ffff}".as_bytes(), b"\xc3", b"\xe4\xb8", b"\xf0\x9f\x98", b"\xc0\xaf", b"\xe0\x80\xaf", b"\xed\xa0\x80", b"\xf4\x90\x80\x80", b"\xff", b"\x80",
    ];
    let ty = [b'+', b'-', b'+', b':', b'$'][rng.gen_range(0..5)];
    let mut b = vec![ty];
    for _ in 0..rng.gen_range(0..6) {
        b.extend_from_slice(PIECES[rng.gen_range(0..PIECES.len())]);
    }
    if rng.gen_bool(0.85) {
        b.extend_from_slice(b"\r\n");
    }
    if rng.gen_bool(0.3) {
        let mut o = b"*2\r\n:7\r\n".to_vec();
        o.extend_from_slice(&b);
        b = o;
    }
    b
}

/// a valid encoding with one mutation near the grammar
fn gen_mutation(rng: &mut Rng) -> Vec<u8> {
    let v = gen_value(rng, 2, true);
    let mut b = enc_codec(&v);
    let nm = rng.gen_range(1..3);
    for _ in 0..nm {
        if b.is_empty() {
            break;
        }
        let pos = rng.gen_range(0..b.len());
        match rng.gen_range(0..9) {
            0 => {
                b.remove(pos);
            }
            1 => b.insert(pos, ALPHA[rng.gen_range(0..12)]),
            2 => b[pos] = ALPHA[rng.gen_range(0..12)],
            3 => b.truncate(pos),
            4 => {
                // a lone CR somewhere in a line
                b.insert(pos, b'\r');
            }
            5 => {
                // turn some CRLF into CR x
                if let Some(p) = b.windows(2).position(|w| w == b"\r\n") {
                    b[p + 1] = b'x';
                }
            }
            6 => {
                // change a digit
                if let Some(p) = b.iter().position(|c| c.is_ascii_digit()) {
                    b[p] = b'0' + rng.gen_range(0..10);
                }
            }
            7 => {
                // negative length
                if let Some(p) = b.iter().position(|c| *c == b'$' || *c == b'*') {
                    b.insert(p + 1, b'-');
                }
            }
            _ => b[pos] = rng.gen(),
        }
    }
    b
}

/// length lines at the boundaries of i64 / usize / the pre-allocation
fn gen_lengths(rng: &mut Rng) -> Vec<u8> {
    const N: [&str; 30] = [
        "-1", "-2", "-3", "-10", "-9223372036854775808", "-9223372036854775809", "0", "1", "2", "+1", "+0", "-0", "00", "007",
        "1000", "65536", "1000000", "10000000", "53687091", "53687092", "2147483647", "4294967296", "1000000000",
        "230584300921369395", "230584300921369396", "9223372036854775807", "9223372036854775808", "18446744073709551615",
        "18446744073709551616", "",
    ];
    let ty = [b'$', b'*', b':'][rng.gen_range(0..3)];
    let mut b = vec![ty];
    b.extend_from_slice(N[rng.gen_range(0..N.len())].as_bytes());
    match rng.gen_range(0..6) {
        0 => {}
        1 => b.extend_from_slice(b"\r"),
        _ => b.extend_from_slice(b"\r\n"),
    }
    match rng.gen_range(0..5) {
        0 => b.extend_from_slice(b":1\r\n:2\r\n"),
        1 => b.extend_from_slice(b"ab\r\n"),
        2 => b.extend_from_slice(b"$1\r\nx\r\n"),
        _ => {}
    }
    // nested once
    if rng.gen_bool(0.2) {
        let mut o = b"*2\r\n".to_vec();
        o.extend_from_slice(&b);
        b = o;
    }
    b
}

/// one command with hostile bytes in its name or arguments, executed by the real executor
fn gen_reply(rng: &mut Rng) -> (V, RespValue) {
    const NAMES: [&[u8]; 8] = [b"FOO\r\n+OK", b"GET", b"PING", b"NOSUCH\rCMD", b"OBJECT", b"CLIENT", b"SET", b"X\nY"];
    const ARGS: [&[u8]; 6] = [b"k", b"a\r\nb", b"\r\n+INJECTED", b"v", b"HELP\r\nME", b"10"];
    // scripts whose status / error reply carries CR LF
    const SCRIPTS: [&[u8]; 4] = [
        b"return {ok='a\\r\\n+INJECTED'}",
        b"return {err='x\\r\\ny'}",
        b"return redis.error_reply('x\\ny')",
        b"return redis.status_reply('fine')",
    ];
    let mut parts = vec![V::B(NAMES[rng.gen_range(0..NAMES.len())].to_vec())];
    if rng.gen_bool(0.25) {
        parts = vec![V::B(b"EVAL".to_vec()), V::B(SCRIPTS[rng.gen_range(0..SCRIPTS.len())].to_vec()), V::B(b"0".to_vec())];
    } else {
        for _ in 0..rng.gen_range(0..3) {
            parts.push(V::B(ARGS[rng.gen_range(0..ARGS.len())].to_vec()));
        }
    }
    let cmdv = V::A(parts);
    let zc = to_zc(&cmdv);
    let reply = match catch_unwind(AssertUnwindSafe(|| match Command::from_resp_zero_copy(&zc) {
        Ok(cmd) => {
            let mut ex = CommandExecutor::new();
            ex.execute(&cmd)
        }
        // the reply to a rejected command is built by the private encode_error_into of
        // production/connection_optimized.rs: not reachable from here, not checked
        Err(_) => RespValue::Error(Cow::Borrowed("ERR rejected by Command::from_resp_zero_copy")),
    })) {
        Ok(r) => r,
        Err(_) => RespValue::Error(Cow::Borrowed("ERR executor panicked")),
    };
    (cmdv, reply)
}

//! C06: replicas converge.  Three real ReplicatedShardActors; client commands at any node,
//! deltas delivered in any order / duplicated / dropped, nodes crashing and restarting from the
//! deltas they emitted themselves (WAL replay), then everything redelivered (quiescence); at the
//! end all nodes must hold the same replication state, answer reads alike, and serve what their
//! replication state says.
use rand::seq::SliceRandom;
use rand::Rng as _;
use redis_sim::production::{ReplicatedShardActor, ReplicatedShardHandle, ReplicatedShardedState};
use redis_sim::replication::ReplicationConfig;
use redis_sim::redis::{Command, RespValue, SDS};
use redis_sim::replication::lattice::ReplicaId;
use redis_sim::replication::state::{ReplicatedValue, ReplicationDelta};
use redis_sim::replication::ConsistencyLevel;
use serde_json::json;
use std::collections::{BTreeMap, BTreeSet};
use vharness::rv::*;
use vharness::util::*;

const HEADER: &str = "From RV Require Import Corr.C06.\nLocal Open Scope string_scope.\nLocal Open Scope N_scope.\nLocal Open Scope list_scope.";
const VALS: [&[u8]; 5] = [b"a", b"b", b"", b"\x00\xff", b"10"];
const FIELDS: [&str; 6] = ["f1", "f2", "f3", "f4", "f5", "f6"];

#[derive(Clone, Debug)]
enum Cmd {
    Set(String, Vec<u8>, bool, bool, Option<i64>),
    Del(String),
    Append(String, Vec<u8>),
    HSet(String, Vec<(String, Vec<u8>)>),
    HDel(String, Vec<String>),
    /// INCR (0) / DECR (1) / INCRBY (2) / DECRBY (3) with the amount as written
    Counter(String, u8, i64),
    GetSet(String, Vec<u8>),
    HIncrBy(String, String, i64),
}
impl Cmd {
    fn key(&self) -> &str {
        match self { Cmd::Set(k, ..) | Cmd::Del(k) | Cmd::Append(k, _) | Cmd::HSet(k, _) | Cmd::HDel(k, _) | Cmd::Counter(k, ..) | Cmd::GetSet(k, _) | Cmd::HIncrBy(k, ..) => k }
    }
    fn term(&self) -> String {
        match self {
            Cmd::Set(k, v, nx, xx, _) => format!("(XSet {} {} {} {})", chex(k.as_bytes()), chex(v), cbool(*nx), cbool(*xx)),
            Cmd::Del(k) => format!("(XDel {})", chex(k.as_bytes())),
            Cmd::Append(k, v) => format!("(XApp {} {})", chex(k.as_bytes()), chex(v)),
            Cmd::HSet(k, fs) => format!("(XHSet {} {})", chex(k.as_bytes()), clist(fs.iter(), |(f, v)| format!("({}, {})", chex(f.as_bytes()), chex(v)))),
            Cmd::HDel(k, fs) => format!("(XHDel {} {})", chex(k.as_bytes()), clist(fs.iter(), |f| chex(f.as_bytes()))),
            Cmd::Counter(k, which, n) => {
                // the model takes the signed amount: INCR = 1, DECR = -1, INCRBY n, DECRBY -n
                let d: i128 = match which { 0 => 1, 1 => -1, 2 => *n as i128, _ => -(*n as i128) };
                format!("(XIncrBy {} ({})%Z)", chex(k.as_bytes()), d)
            }
            Cmd::GetSet(k, v) => format!("(XGetSet {} {})", chex(k.as_bytes()), chex(v)),
            Cmd::HIncrBy(k, f, n) => format!("(XHIncrBy {} {} ({})%Z)", chex(k.as_bytes()), chex(f.as_bytes()), n),
        }
    }
    /// counter-like commands are CX events of the model (they desugar to a SET / HSET of the post-value)
    fn is_counter_like(&self) -> bool { matches!(self, Cmd::Counter(..) | Cmd::GetSet(..) | Cmd::HIncrBy(..)) }
    fn to_command(&self) -> Command {
        match self {
            Cmd::Set(k, v, nx, xx, ex) => Command::Set { key: k.clone(), value: SDS::new(v.clone()), ex: *ex, px: None, exat: None, pxat: None, nx: *nx, xx: *xx, get: false, keepttl: false },
            Cmd::Del(k) => Command::Del(vec![k.clone()]),
            Cmd::Append(k, v) => Command::Append(k.clone(), SDS::new(v.clone())),
            Cmd::HSet(k, fs) => Command::HSet(k.clone(), fs.iter().map(|(f, v)| (SDS::from_str(f), SDS::new(v.clone()))).collect()),
            Cmd::HDel(k, fs) => Command::HDel(k.clone(), fs.iter().map(|f| SDS::from_str(f)).collect()),
            Cmd::Counter(k, which, n) => match which { 0 => Command::Incr(k.clone()), 1 => Command::Decr(k.clone()), 2 => Command::IncrBy(k.clone(), *n), _ => Command::DecrBy(k.clone(), *n) },
            Cmd::GetSet(k, v) => Command::GetSet(k.clone(), SDS::new(v.clone())),
            Cmd::HIncrBy(k, f, n) => Command::HIncrBy(k.clone(), SDS::from_str(f), *n),
        }
    }
}
#[derive(Clone)]
enum Ev {
    Client(usize, Cmd),
    Deliver(usize, usize), // (target node, index into the log)
    Restart(usize),        // the node crashes; a fresh one with its id replays the deltas it emitted
}

/// A cluster member: either one shard actor, or a whole production node (16 shard actors behind
/// ReplicatedShardedState, deltas applied in batches through apply_remote_deltas).
enum NodeH {
    Actor(ReplicatedShardHandle),
    Node(ReplicatedShardedState),
}
impl NodeH {
    async fn exec(&self, c: Command) -> (RespValue, Vec<(String, ReplicatedValue)>) {
        match self {
            NodeH::Actor(h) => {
                let (r, d) = h.execute(c).await;
                (r, d.into_iter().map(|d| (d.key.clone(), d.value.clone())).collect())
            }
            NodeH::Node(n) => {
                let r = n.execute(c).await;
                let ds = n.collect_pending_deltas().await;
                (r, ds.into_iter().map(|d| (d.key.clone(), d.value.clone())).collect())
            }
        }
    }
    /// deliver a batch (in order); returns after the node has processed it
    async fn deliver(&self, batch: Vec<ReplicationDelta>) {
        match self {
            NodeH::Actor(h) => {
                for d in batch { h.apply_remote_delta(d); }
                let _ = h.get_snapshot().await;
            }
            NodeH::Node(n) => {
                n.apply_remote_deltas(batch);
                let _ = n.snapshot_state().await;
            }
        }
    }
    async fn snapshot(&self) -> std::collections::HashMap<String, ReplicatedValue> {
        match self { NodeH::Actor(h) => h.get_snapshot().await, NodeH::Node(n) => n.snapshot_state().await }
    }
    async fn read(&self, c: Command) -> RespValue {
        match self { NodeH::Actor(h) => h.execute(c).await.0, NodeH::Node(n) => n.execute(c).await }
    }
    fn alive(&self) -> bool {
        match self { NodeH::Actor(h) => h.is_running(), NodeH::Node(_) => true }
    }
    async fn stop(&self) {
        if let NodeH::Actor(h) = self { if h.is_running() { h.shutdown().await; } }
    }
}

fn new_member(r: u64, node_level: bool) -> NodeH {
    if node_level {
        let mut cfg = ReplicationConfig::default();
        cfg.replica_id = r;
        NodeH::Node(ReplicatedShardedState::new(cfg))
    } else {
        NodeH::Actor(ReplicatedShardActor::spawn(ReplicaId(r), ConsistencyLevel::Eventual, 0))
    }
}

const AMOUNTS: [i64; 8] = [1, 2, 3, 7, 0, 100, i64::MAX, i64::MAX - 5];
const NUMS: [&[u8]; 6] = [b"10", b"-3", b"0", b"9223372036854775800", b"007", b"1x"];
/// a counter-like command on the key (histories that use them, own RNG stream)
fn gen_counter(rng2: &mut Rng, key: String, stringish: bool) -> Cmd {
    if stringish {
        match rng2.gen_range(0..10) {
            0..=1 => Cmd::Counter(key, 0, 0),
            2 => Cmd::Counter(key, 1, 0),
            3..=4 => Cmd::Counter(key, 2, AMOUNTS[rng2.gen_range(0..AMOUNTS.len())]),
            5 => Cmd::Counter(key, 3, AMOUNTS[rng2.gen_range(0..AMOUNTS.len())]),
            6..=7 => Cmd::GetSet(key, NUMS[rng2.gen_range(0..NUMS.len())].to_vec()),
            _ => Cmd::Set(key, NUMS[rng2.gen_range(0..NUMS.len())].to_vec(), false, false, None),
        }
    } else {
        match rng2.gen_range(0..10) {
            0..=6 => Cmd::HIncrBy(key, FIELDS[rng2.gen_range(0..3)].to_string(), { let a = AMOUNTS[rng2.gen_range(0..AMOUNTS.len())]; if rng2.gen_bool(0.3) { a.wrapping_neg().max(i64::MIN + 1) } else { a } }),
            _ => Cmd::HSet(key, vec![(FIELDS[rng2.gen_range(0..3)].to_string(), NUMS[rng2.gen_range(0..NUMS.len())].to_vec())]),
        }
    }
}

fn gen_cmd(rng: &mut Rng, mixed: bool, with_opts: bool, with_ex: bool, only_kind: Option<bool>, wide: bool) -> Cmd {
    // only_kind = Some(true): string key only, Some(false): hash key only (node-level histories use
    // one key: a production node has 16 shards with independent clocks, the model one shard)
    let kind_roll = match only_kind { Some(true) => 0, Some(false) => 9, None => rng.gen_range(0..10) };
    // key "s" holds strings, key "h" hashes; key "m" (only in mixed histories) gets both kinds
    let stringish = kind_roll < 5;
    let key = if mixed && rng.gen_bool(0.5) { "m" } else if stringish { "s" } else { "h" }.to_string();
    if stringish {
        match rng.gen_range(0..10) {
            0..=5 => {
                let (nx, xx) = if with_opts { match rng.gen_range(0..4) { 0 => (true, false), 1 => (false, true), _ => (false, false) } } else { (false, false) };
                let ex = if with_ex && rng.gen_bool(0.5) { Some(rng.gen_range(1..4) * 100) } else { None };
                Cmd::Set(key, VALS[rng.gen_range(0..VALS.len())].to_vec(), nx, xx, ex)
            }
            6..=7 => Cmd::Append(key, VALS[rng.gen_range(0..VALS.len())].to_vec()),
            _ => Cmd::Del(key),
        }
    } else {
        match rng.gen_range(0..10) {
            0..=5 => {
                // wide histories: HSETs of 3-6 pairs in field order, overwrites of single (mostly late) fields
                if wide && rng.gen_bool(0.5) {
                    let n = rng.gen_range(3..=FIELDS.len());
                    Cmd::HSet(key, (0..n).map(|j| (FIELDS[j].to_string(), VALS[rng.gen_range(0..VALS.len())].to_vec())).collect())
                } else if wide {
                    let j = FIELDS.len() - 1 - rng.gen_range(0..3).min(rng.gen_range(0..3));
                    Cmd::HSet(key, vec![(FIELDS[j].to_string(), VALS[rng.gen_range(0..VALS.len())].to_vec())])
                } else {
                    let n = rng.gen_range(1..3);
                    let nf = 3; // the narrow histories keep to three fields (collisions matter)
                    Cmd::HSet(key, (0..n).map(|_| (FIELDS[rng.gen_range(0..nf)].to_string(), VALS[rng.gen_range(0..VALS.len())].to_vec())).collect())
                }
            }
            6..=8 => Cmd::HDel(key, vec![FIELDS[rng.gen_range(0..if wide { FIELDS.len() } else { 3 })].to_string()]),
            _ => Cmd::Del(key),
        }
    }
}

fn read_term(r: &RespValue) -> String {
    match r {
        RespValue::BulkString(None) => "RNone".into(),
        RespValue::BulkString(Some(b)) => format!("(RStr {})", chex(b)),
        RespValue::Array(Some(a)) if a.is_empty() => "RNone".into(),
        RespValue::Array(Some(a)) => {
            let mut m: BTreeMap<Vec<u8>, Vec<u8>> = BTreeMap::new();
            let mut i = 0;
            while i + 1 < a.len() {
                if let (RespValue::BulkString(Some(f)), RespValue::BulkString(Some(v))) = (&a[i], &a[i + 1]) { m.insert(f.clone(), v.clone()); }
                i += 2;
            }
            format!("(RHash {})", clist(m.iter(), |(f, v)| format!("({}, {})", chex(f), chex(v))))
        }
        RespValue::Error(_) => "RWrongType".into(),
        _ => "ROther".into(),
    }
}
/// what a client reads for key k at node h: GET, falling back to HGETALL on WRONGTYPE
async fn read_key(h: &NodeH, k: &str) -> String {
    let g = h.read(Command::Get(k.to_string())).await;
    match g {
        RespValue::Error(_) => read_term(&h.read(Command::HGetAll(k.to_string())).await),
        other => read_term(&other),
    }
}
/// what the replication state says a client should read (same convention as Model/Cluster.v state_says)
fn state_says(v: Option<&ReplicatedValue>) -> String {
    let Some(v) = v else { return "RNone".into() };
    if let Some(h) = v.get_hash() {
        let m: BTreeMap<Vec<u8>, Vec<u8>> = h.iter().filter_map(|(f, l)| l.get().map(|x| (f.as_bytes().to_vec(), x.as_bytes().to_vec()))).collect();
        if m.is_empty() { return "RNone".into(); }
        return format!("(RHash {})", clist(m.iter(), |(f, v)| format!("({}, {})", chex(f), chex(v))));
    }
    match v.get() { Some(s) => format!("(RStr {})", chex(s.as_bytes())), None => "RNone".into() }
}

fn main() {
    let a: Vec<String> = std::env::args().collect();
    let args = &Args::parse(&a[1..]);
    std::panic::set_hook(Box::new(|_| {}));
    let mut out = Out::new(&args.out, "C06", args.shards, HEADER);
    out.nontrivial_rule = "cluster histories on 3 real members (single ReplicatedShardActors, or in about a third of the kind-stable histories whole production nodes = ReplicatedShardedState with 16 shard actors, deltas collected with collect_pending_deltas and delivered in batches through apply_remote_deltas): 4-14 client commands (SET [NX|XX] [EX], DEL, APPEND, HSET of 1-6 pairs, HDEL and, in 30 % of the histories, INCR/DECR/INCRBY/DECRBY/GETSET on string keys and HINCRBY on hash keys with amounts up to i64::MAX and non-integer values) at random nodes on keys s (strings), h (hashes) and, in mixed histories, m (both kinds), interleaved with deliveries of already emitted deltas in random order with duplicates and drops and, in a third of the histories, crashes of nodes (a fresh member with the same replica id replays the deltas the node emitted itself), followed by redelivery of every delta to every node in random order; Coq cases for histories without EX; non-trivial = at least two nodes wrote the same key; distinct by event text".into();
    let rt = tokio::runtime::Builder::new_current_thread().enable_all().build().unwrap();
    let range: Vec<u64> = match args.only { Some(i) => vec![i], None => (0..args.n).collect() };
    for i in range {
        let mut rng = case_rng(args.seed, i);
        let mixed = rng.gen_bool(0.2);
        let with_opts = rng.gen_bool(0.4);
        let with_ex = rng.gen_bool(0.15);
        // production nodes only in kind-stable histories (a kind change can kill a shard actor in debug builds)
        let node_level = !mixed && rng.gen_bool(0.35);
        let only_kind = if node_level { Some(rng.gen_bool(0.4)) } else { None };
        let ncmds = rng.gen_range(4..15);
        // separate streams, so that the histories of earlier runs keep their shape
        let mut rng2 = case_rng(args.seed ^ 0x5eed_c06, i);
        let wide = rng2.gen_bool(0.3);
        let restarts = rng2.gen_bool(0.35);
        let counters = rng2.gen_bool(0.3);
        let mut evs: Vec<Ev> = Vec::new();
        let mut log: Vec<(usize, String, ReplicatedValue)> = Vec::new();
        let mut died = false;
        let mut final_reads: Vec<BTreeMap<String, String>> = Vec::new();
        let mut final_state: Vec<BTreeMap<String, ReplicatedValue>> = Vec::new();
        let mut cmds: Vec<(usize, Cmd, String)> = Vec::new();
        let keys_used: BTreeSet<String>;
        rt.block_on(async {
            let mut hs: Vec<NodeH> = (1..=3u64).map(|r| new_member(r, node_level)).collect();
            let mk = |log: &Vec<(usize, String, ReplicatedValue)>, li: usize| ReplicationDelta::new(log[li].1.clone(), log[li].2.clone(), ReplicaId(log[li].0 as u64 + 1));
            let mut issued = 0;
            while issued < ncmds {
                if restarts && !log.is_empty() && rng2.gen_bool(0.12) {
                    // crash of node n: everything in memory is lost; the new incarnation replays the
                    // deltas the node emitted itself, in order (WAL replay through apply_remote_delta(s))
                    let n = rng2.gen_range(0..3usize);
                    hs[n].stop().await;
                    hs[n] = new_member(n as u64 + 1, node_level);
                    let own: Vec<ReplicationDelta> = (0..log.len()).filter(|li| log[*li].0 == n).map(|li| mk(&log, li)).collect();
                    match &hs[n] {
                        NodeH::Node(s) => { s.apply_recovered_state(None, own); let _ = s.snapshot_state().await; }
                        a => { a.deliver(own).await; }
                    }
                    evs.push(Ev::Restart(n));
                } else if !log.is_empty() && rng.gen_bool(0.4) {
                    // a batch of 1-3 already emitted deltas (possibly several for one key) to one node
                    let t = rng.gen_range(0..3usize);
                    let bn = if node_level { rng.gen_range(1..4) } else { 1 };
                    let mut batch = Vec::new();
                    for _ in 0..bn {
                        let li = rng.gen_range(0..log.len());
                        if t != log[li].0 { batch.push(mk(&log, li)); evs.push(Ev::Deliver(t, li)); }
                    }
                    if !batch.is_empty() { hs[t].deliver(batch).await; }
                } else {
                    let n = rng.gen_range(0..3usize);
                    let mut c = gen_cmd(&mut rng, mixed, with_opts, with_ex, only_kind, wide);
                    if counters && rng2.gen_bool(0.5) {
                        // same key, a counter-like command instead (INCR*/GETSET on string keys, HINCRBY on hash keys)
                        let stringish = matches!(c, Cmd::Set(..) | Cmd::Append(..)) || (matches!(c, Cmd::Del(_)) && c.key() != "h");
                        c = gen_counter(&mut rng2, c.key().to_string(), stringish);
                    }
                    let (reply, ds) = hs[n].exec(c.to_command()).await;
                    cmds.push((n, c.clone(), format!("{:?}", reply)));
                    evs.push(Ev::Client(n, c.clone()));
                    for (k, v) in ds { log.push((n, k, v)); }
                    issued += 1;
                }
                if hs.iter().any(|h| !h.alive()) { died = true; break; }
            }
            if !died {
                // quiescence: every delta reaches every other node (random order, some twice);
                // node-level members receive theirs in batches
                let mut all: Vec<(usize, usize)> = Vec::new();
                for li in 0..log.len() { for t in 0..3usize { if t != log[li].0 { all.push((t, li)); if rng.gen_bool(0.2) { all.push((t, li)); } } } }
                all.shuffle(&mut rng);
                for t in 0..3usize {
                    let mine: Vec<usize> = all.iter().filter(|(tt, _)| *tt == t).map(|(_, li)| *li).collect();
                    let mut i0 = 0;
                    while i0 < mine.len() {
                        let bn = if node_level { rng.gen_range(1..6) } else { 1 };
                        let chunk: Vec<usize> = mine[i0..(i0 + bn).min(mine.len())].to_vec();
                        i0 += chunk.len();
                        for li in &chunk { evs.push(Ev::Deliver(t, *li)); }
                        hs[t].deliver(chunk.iter().map(|li| mk(&log, *li)).collect()).await;
                    }
                }
                for h in hs.iter() {
                    let snap = h.snapshot().await;
                    let mut reads = BTreeMap::new();
                    for k in ["s", "h", "m"] { reads.insert(k.to_string(), read_key(h, k).await); }
                    final_reads.push(reads);
                    final_state.push(snap.into_iter().collect());
                }
                if hs.iter().any(|h| !h.alive()) { died = true; }
            }
            for h in hs.iter() { h.stop().await; }
        });
        keys_used = cmds.iter().map(|(_, c, _)| c.key().to_string()).collect();
        // ---- history features that place a key in a known-finding class
        let mut classes: BTreeMap<String, Vec<&'static str>> = BTreeMap::new();
        for k in &keys_used {
            let on_k: Vec<&(usize, Cmd, String)> = cmds.iter().filter(|(_, c, _)| c.key() == k).collect();
            let has_str = on_k.iter().any(|(_, c, _)| matches!(c, Cmd::Set(..) | Cmd::Append(..) | Cmd::Counter(..) | Cmd::GetSet(..)));
            let has_hash = on_k.iter().any(|(_, c, _)| matches!(c, Cmd::HSet(..) | Cmd::HDel(..) | Cmd::HIncrBy(..)));
            let mut v = Vec::new();
            if has_str && has_hash { v.push("C06-type-change"); }
            if on_k.iter().any(|(_, c, _)| matches!(c, Cmd::Set(_, _, _, _, Some(_)))) { v.push("C06-expiry"); }
            if has_hash && on_k.iter().any(|(_, c, _)| matches!(c, Cmd::Del(_))) { v.push("C06-del-nonstring"); }
            classes.insert(k.clone(), v);
        }
        let ev_terms: Vec<String> = evs.iter().map(|e| match e {
            Ev::Client(n, c) => format!("({} {} {})", if c.is_counter_like() { "CX" } else { "CC" }, n, c.term()),
            Ev::Deliver(t, li) => format!("(CD {} {} {})", t, chex(log[*li].1.as_bytes()), rv_term(&log[*li].2, false)),
            Ev::Restart(n) => format!("(CR {})", n),
        }).collect();
        let show = json!({"commands": cmds.iter().map(|(n, c, r)| format!("node{} {:?} -> {}", n + 1, c, r)).collect::<Vec<_>>(), "deliveries": evs.iter().filter(|e| matches!(e, Ev::Deliver(..))).count(),
            "restarts": evs.iter().filter_map(|e| if let Ev::Restart(n) = e { Some(format!("node{}", n + 1)) } else { None }).collect::<Vec<_>>()});
        for (_, c, _) in &cmds { out.count(match c { Cmd::Set(_, _, true, _, _) => "cmd:SET NX", Cmd::Set(_, _, _, true, _) => "cmd:SET XX", Cmd::Set(_, _, _, _, Some(_)) => "cmd:SET EX", Cmd::Set(..) => "cmd:SET", Cmd::Del(_) => "cmd:DEL", Cmd::Append(..) => "cmd:APPEND", Cmd::HSet(..) => "cmd:HSET", Cmd::HDel(..) => "cmd:HDEL", Cmd::Counter(_, 0, _) => "cmd:INCR", Cmd::Counter(_, 1, _) => "cmd:DECR", Cmd::Counter(_, 2, _) => "cmd:INCRBY", Cmd::Counter(..) => "cmd:DECRBY", Cmd::GetSet(..) => "cmd:GETSET", Cmd::HIncrBy(..) => "cmd:HINCRBY" }); }
        out.count(if mixed { "history:mixed-kinds" } else { "history:kind-stable" });
        if wide { out.count("history:wide-hsets"); }
        for e in &evs { if matches!(e, Ev::Restart(_)) { out.count("event:restart"); } }
        out.count(if node_level { "member:ReplicatedShardedState(16 shards, batched deliveries)" } else { "member:ReplicatedShardActor" });
        if died {
            // a remote hash delta over a local string trips a debug assertion in the glue and kills the actor
            out.count("actor-died");
            out.known("C06-type-change", i, json!({"what": "actor task died (debug assertion: executor must have hash after HSet) when a remote hash delta arrived over a local string", "history": show}));
            continue;
        }
        // ---- the property, on the implementation
        for k in ["s", "h", "m"] {
            if !keys_used.contains(k) { continue; }
            out.impl_checks += 3;
            let st: Vec<String> = final_state.iter().map(|m| m.get(k).map(obs).unwrap_or_else(|| "absent".into())).collect();
            let rd: Vec<&String> = final_reads.iter().map(|m| &m[k]).collect();
            let says: Vec<String> = final_state.iter().map(|m| state_says(m.get(k))).collect();
            let mut fails: Vec<String> = Vec::new();
            if !(st[0] == st[1] && st[1] == st[2]) { fails.push("replication states differ after every delta reached every node".into()); }
            if !(rd[0] == rd[1] && rd[1] == rd[2]) { fails.push("nodes answer the read differently after every delta reached every node".into()); }
            for n in 0..3 { if *rd[n] != says[n] { fails.push(format!("node {} serves {} but its replication state says {}", n + 1, rd[n], says[n])); break; } }
            if fails.is_empty() { continue; }
            let d = json!({"key": k, "failures": fails, "states": st, "reads": rd, "state_says": says, "history": show, "events": ev_terms});
            let cl = classes.get(k).cloned().unwrap_or_default();
            if let Some(c) = cl.first() { out.known(c, i, d); } else { out.violation(i, &fails[0], d); }
        }
        // ---- the Coq case (the model has no expiry)
        if !cmds.iter().any(|(_, c, _)| matches!(c, Cmd::Set(_, _, _, _, Some(_)))) {
            let fin = clist(0..3usize, |n| {
                let st = clist(final_state[n].iter(), |(k, v)| format!("({}, {})", chex(k.as_bytes()), rv_term(v, false)));
                let rd = clist(final_reads[n].iter().filter(|(k, _)| keys_used.contains(*k)), |(k, r)| format!("({}, {})", chex(k.as_bytes()), r));
                format!("({}, {})", st, rd)
            });
            let evt = format!("[{}]", ev_terms.join("; "));
            let writers: BTreeSet<(usize, &str)> = cmds.iter().map(|(n, c, _)| (*n, c.key())).collect();
            let contended = keys_used.iter().any(|k| writers.iter().filter(|(_, kk)| kk == k).count() >= 2);
            out.case(i, format!("(K6 {} {})", evt, fin), contended, &evt);
        } else {
            out.count("no-coq-case:expiry");
        }
        out.sample(show);
        if args.only.is_some() {
            println!("case {}:", i);
            for (n, c, r) in &cmds { println!("  node{} {:?} -> {}", n + 1, c, r); }
            for n in 0..3 { println!("  node{} reads {:?}\n        state {:?}", n + 1, final_reads[n], final_state[n].iter().map(|(k, v)| (k.clone(), obs(v))).collect::<Vec<_>>()); }
        }
    }
    out.finish(args.seed);
}

//! C10: WAL recovery / truncation on the real WalRotator + InMemoryWalStore, on exhaustively
//! truncated, bit-flipped and randomly damaged file images; every probe is printed for the
//! Coq model (Corr/C10.v) and judged directly against what was appended.
use rand::Rng as _;
use redis_sim::redis::SDS;
use redis_sim::replication::lattice::{LamportClock, ReplicaId};
use redis_sim::replication::state::{ReplicatedValue, ReplicationDelta};
use redis_sim::streaming::wal::{WalEntry, WalReader, WalRotator, WalWriter};
use redis_sim::streaming::wal_store::{InMemoryWalStore, LocalWalStore, SimulatedWalStore, SimulatedWalStoreConfig, WalFileWriter, WalStore};
use serde_json::json;
use std::collections::BTreeMap;
use vharness::util::*;

pub const HEADER: &str = "From RV Require Import Corr.C10.\nLocal Open Scope string_scope.\nLocal Open Scope N_scope.\nLocal Open Scope list_scope.";
const KNOWN: &str = "C10-entry-header-unprotected";
const KNOWN_ZERO: &str = "C10-wal-zero-header-is-an-entry";

/// Bitwise CRC-32/IEEE; every use is cross-checked against the crate through WalEntry::validate.
fn crc32(d: &[u8]) -> u32 {
    let mut c: u32 = 0xFFFF_FFFF;
    for &b in d {
        c ^= b as u32;
        for _ in 0..8 {
            c = if c & 1 == 1 { (c >> 1) ^ 0xEDB8_8320 } else { c >> 1 };
        }
    }
    !c
}

#[derive(Clone)]
struct Ent {
    ts: u64,
    data: Vec<u8>,
    crc: u32,
    poison: bool, // payload is not a bincode ReplicationDelta
    canon: Option<String>, // serde_json text of the delta the payload was built from
}
#[derive(Clone)]
struct FileSpec {
    name: String,
    seq_hdr: u64,       // sequence written into the header
    ents: Vec<usize>,   // indices into the entry table, in append order
    by_rotator: bool,
}
#[derive(Clone, Debug)]
enum Mut {
    Trunc(usize, usize),
    Flip(usize, usize, u32),
    Patch(usize, usize, Vec<u8>),
    Drop(usize),
    /// file, offset, length, value: a zero- / 0xFF-filled range (clipped)
    Fill(usize, usize, usize, u8),
    /// file, count, value: bytes appended after the end (preallocated / garbage tail)
    Append(usize, usize, u8),
}
impl Mut {
    fn file(&self) -> usize {
        match self { Mut::Trunc(f, _) | Mut::Flip(f, _, _) | Mut::Patch(f, _, _) | Mut::Drop(f) | Mut::Fill(f, ..) | Mut::Append(f, ..) => *f }
    }
    fn term(&self) -> String {
        match self {
            Mut::Trunc(f, k) => format!("MTrunc {} {}", f, k),
            Mut::Flip(f, b, i) => format!("MFlip {} {} {}", f, b, i),
            Mut::Patch(f, o, d) => format!("MPatch {} {} {}", f, o, chex(d)),
            Mut::Drop(f) => format!("MDrop {}", f),
            Mut::Fill(f, o, n, v) => format!("MFill {} {} {} {}", f, o, n, v),
            Mut::Append(f, n, v) => format!("MAppend {} {} {}", f, n, v),
        }
    }
}

fn gen_ts(rng: &mut Rng) -> u64 {
    match rng.gen_range(0..20) {
        0 => u64::MAX,
        1 => 1u64 << 32,
        2 => (1u64 << 63) + 5,
        3 => 0,
        _ => rng.gen_range(0..16),
    }
}
fn gen_entry(rng: &mut Rng, i: usize) -> Ent {
    let ts = gen_ts(rng);
    if rng.gen_bool(0.15) {
        // raw payload written through the public fields of WalEntry (valid checksum)
        let n = match rng.gen_range(0..4) { 0 => 0, 1 => 1, _ => rng.gen_range(2..24) };
        let data: Vec<u8> = (0..n).map(|_| rng.gen()).collect();
        let crc = crc32(&data);
        return Ent { ts, data, crc, poison: true, canon: None };
    }
    let vlen = match rng.gen_range(0..8) { 0 => 0, 1 => 40, 2 => [22usize, 23, 24][rng.gen_range(0..3)], _ => rng.gen_range(1..6) }; // 23 = SDS small-string limit
    let val: Vec<u8> = (0..vlen).map(|_| if rng.gen_bool(0.3) { [0u8, 255, 10, 13][rng.gen_range(0..4)] } else { rng.gen() }).collect();
    let clock = LamportClock { time: ts, replica_id: ReplicaId::new(rng.gen_range(1..4)) };
    let mut v = ReplicatedValue::with_value(SDS::new(val), clock);
    if rng.gen_bool(0.2) && ts < u64::MAX - 2 {
        let mut c = clock;
        v.delete(&mut c);
    }
    if rng.gen_bool(0.2) {
        v.expiry_ms = Some(rng.gen_range(0..100000));
    }
    let delta = ReplicationDelta::new(format!("k{}", i), v, ReplicaId::new(rng.gen_range(1..4)));
    let e = WalEntry::from_delta(&delta, ts).unwrap();
    Ent { ts, data: e.data, crc: e.checksum, poison: false, canon: Some(serde_json::to_string(&delta).unwrap()) }
}
fn wal_entry(e: &Ent) -> WalEntry {
    let w = WalEntry { data: e.data.clone(), timestamp: e.ts, checksum: e.crc };
    assert!(w.validate(), "harness crc32 disagrees with crc32fast");
    w
}

const LATE_NAMES: [&str; 4] = ["wal-ffffffff.wal", "wal-100000000.wal", "wal-ffffffffffffffff.wal", "wal-0000000000000000000000001.wal"];
const ODD_NAMES: [&str; 12] = [
    "wal-+3.wal", "wal-0A.wal", "wal-a.wal", "wal-.wal", "wal-zz.wal", "notes.txt", "wal-00000000000000002.wal",
    "wal-10000000000000000.wal", "wal--1.wal", "wal-+.wal", "WAL-00000001.wal", "wal-00000001.wal.bak",
];

struct Scenario {
    ents: Vec<Ent>,
    files: Vec<FileSpec>,           // in list() order
    images: Vec<Vec<u8>>,           // base images, same order
    max_file_size: usize,
}

fn build(rng: &mut Rng) -> Scenario {
    let store = InMemoryWalStore::new();
    let mut ents: Vec<Ent> = Vec::new();
    let mut specs: BTreeMap<String, FileSpec> = BTreeMap::new();
    // files with unusual names, written with the real WalWriter before the rotator starts
    let n_odd = if rng.gen_bool(0.5) { rng.gen_range(1..4) } else { 0 };
    for _ in 0..n_odd {
        let name = ODD_NAMES[rng.gen_range(0..ODD_NAMES.len())].to_string();
        if specs.contains_key(&name) {
            continue;
        }
        let seq_hdr = rng.gen_range(0..5);
        let fw = store.create(&name).unwrap();
        let mut w = WalWriter::new(fw, seq_hdr).unwrap();
        let mut idx = Vec::new();
        for _ in 0..rng.gen_range(0..3) {
            let e = gen_entry(rng, ents.len());
            w.append_entry(&wal_entry(&e)).unwrap();
            idx.push(ents.len());
            ents.push(e);
        }
        specs.insert(name.clone(), FileSpec { name, seq_hdr, ents: idx, by_rotator: false });
    }
    let max_file_size = [17usize, 40, 64, 100, 150, 300, 100000][rng.gen_range(0..7)];
    let mut rot = WalRotator::new(store.clone(), max_file_size).unwrap();
    let n = match rng.gen_range(0..8) { 0 => 0, 1 => 1, _ => rng.gen_range(2..9) };
    for _ in 0..n {
        // now and then the very same entry is appended again (repeated identical content)
        let (idx, e) = if !ents.is_empty() && rng.gen_bool(0.12) { let j = rng.gen_range(0..ents.len()); (j, ents[j].clone()) } else { (ents.len(), gen_entry(rng, ents.len())) };
        let seq = rot.append(&wal_entry(&e)).unwrap();
        let name = format!("wal-{:08x}.wal", seq);
        let sp = specs.entry(name.clone()).or_insert(FileSpec { name, seq_hdr: seq, ents: vec![], by_rotator: true });
        sp.ents.push(idx);
        if idx == ents.len() { ents.push(e); }
    }
    rot.sync().unwrap();
    drop(rot);
    // files whose sequences sit at the 8-digit / u64 limits (name order differs from numeric order),
    // written after the rotator is gone (a rotator started on top of sequence u64::MAX cannot rotate)
    if rng.gen_bool(0.25) {
        let name = LATE_NAMES[rng.gen_range(0..LATE_NAMES.len())].to_string();
        if !specs.contains_key(&name) {
            let seq_hdr = [0u64, u64::MAX, 1 << 32][rng.gen_range(0..3)];
            let mut w = WalWriter::new(store.create(&name).unwrap(), seq_hdr).unwrap();
            let mut idx = Vec::new();
            for _ in 0..rng.gen_range(0..3) {
                let e = gen_entry(rng, ents.len());
                w.append_entry(&wal_entry(&e)).unwrap();
                idx.push(ents.len());
                ents.push(e);
            }
            specs.insert(name.clone(), FileSpec { name, seq_hdr, ents: idx, by_rotator: false });
        }
    }
    let names = store.list().unwrap();
    let files: Vec<FileSpec> = names.iter().map(|n| specs[n].clone()).collect();
    let images: Vec<Vec<u8>> = names.iter().map(|n| store.get_file_data(n).unwrap()).collect();
    Scenario { ents, files, images, max_file_size }
}

fn apply(images: &[Vec<u8>], muts: &[Mut]) -> Vec<Option<Vec<u8>>> {
    let mut v: Vec<Option<Vec<u8>>> = images.iter().cloned().map(Some).collect();
    for m in muts {
        match m {
            Mut::Trunc(f, k) => { if let Some(d) = v[*f].as_mut() { d.truncate(*k); } }
            Mut::Flip(f, b, i) => { if let Some(d) = v[*f].as_mut() { if *b < d.len() { d[*b] ^= 1u8 << i; } } }
            Mut::Patch(f, o, p) => {
                if let Some(d) = v[*f].as_mut() {
                    for (j, x) in p.iter().enumerate() {
                        if o + j < d.len() { d[o + j] = *x; }
                    }
                }
            }
            Mut::Drop(f) => v[*f] = None,
            Mut::Fill(f, o, n, x) => { if let Some(d) = v[*f].as_mut() { let e = (*o + *n).min(d.len()); for j in *o..e { d[j] = *x; } } }
            Mut::Append(f, n, x) => { if let Some(d) = v[*f].as_mut() { d.extend(std::iter::repeat(*x).take(*n)); } }
        }
    }
    v
}
fn mk_store(sc: &Scenario, imgs: &[Option<Vec<u8>>]) -> InMemoryWalStore {
    let store = InMemoryWalStore::new();
    for (f, img) in sc.files.iter().zip(imgs) {
        if let Some(d) = img {
            let mut w = store.create(&f.name).unwrap();
            if !d.is_empty() {
                w.append(d).unwrap();
            }
        }
    }
    store
}
fn parse_seq(name: &str) -> Option<u64> {
    // independent re-statement of the naming rule, used only by the oracle
    let h = name.strip_prefix("wal-")?.strip_suffix(".wal")?;
    u64::from_str_radix(h, 16).ok()
}

/// For one file: which prefix of its entries must survive; whether the first damaged entry (if any)
/// is damaged only inside its length/timestamp fields (bytes 0..12 of the entry); and whether the
/// bytes at the point where the intact entries end look like an empty entry (length 0, checksum 0).
fn expected_file(sc: &Scenario, f: usize, base: &[u8], now: &Option<Vec<u8>>) -> (Vec<usize>, bool, bool) {
    let now = match now { Some(d) => d, None => return (vec![], false, false) };
    if now.len() < 16 || now[0..5] != base[0..5] {
        return (vec![], false, false);
    }
    let zero_at = |off: usize| now.len() >= off + 16 && now[off..off + 4].iter().all(|&b| b == 0) && now[off + 12..off + 16].iter().all(|&b| b == 0);
    let mut off = 16usize;
    let mut keep = Vec::new();
    for &ei in &sc.files[f].ents {
        let sz = 16 + sc.ents[ei].data.len();
        let end = off + sz;
        let intact = now.len() >= end && now[off..end] == base[off..end];
        if !intact {
            let in_class = now.len() >= end
                && (off..end).filter(|&p| now[p] != base[p]).all(|p| p < off + 12);
            return (keep, in_class, zero_at(off));
        }
        keep.push(ei);
        off = end;
    }
    (keep, false, zero_at(off))
}
fn expected_all(sc: &Scenario, imgs: &[Option<Vec<u8>>]) -> (Vec<usize>, bool, bool) {
    let mut order: Vec<(u64, usize)> = sc.files.iter().enumerate().filter_map(|(i, f)| parse_seq(&f.name).map(|s| (s, i))).collect();
    order.sort_by_key(|(s, _)| *s);
    let mut all = Vec::new();
    let (mut class, mut zero) = (false, false);
    for (_, f) in order {
        let (keep, c, z) = expected_file(sc, f, &sc.images[f], &imgs[f]);
        all.extend(keep);
        class |= c;
        zero |= z;
    }
    (all, class, zero)
}
/// implementation entry -> index of the first identical original entry, or a literal
fn rent(sc: &Scenario, e: &WalEntry) -> String {
    for (i, o) in sc.ents.iter().enumerate() {
        if o.ts == e.timestamp && o.crc == e.checksum && o.data == e.data {
            return format!("RI {}", i);
        }
    }
    format!("RE {} {} {}", e.timestamp, chex(&e.data), e.checksum)
}

/// The property on one recovery result: exactly the intact appended entries, in sequence order,
/// per file up to the first damaged entry (+ the entry a restarted rotator appended, if any).
fn judge(out: &mut Out, i: u64, sc: &Scenario, imgs: &[Option<Vec<u8>>], es: &[WalEntry], extra: Option<usize>, mt: &str, via: &str) {
    let got: Vec<(u64, Vec<u8>, u32)> = es.iter().map(|e| (e.timestamp, e.data.clone(), e.checksum)).collect();
    let (mut exp, in_class, zero_class) = expected_all(sc, imgs);
    if let Some(x) = extra { exp.push(x); }
    let expo: Vec<(u64, Vec<u8>, u32)> = exp.iter().map(|&x| (sc.ents[x].ts, sc.ents[x].data.clone(), sc.ents[x].crc)).collect();
    if got != expo {
        let d = json!({"via": via, "mutations": mt, "expected_entry_indices": exp, "recovered": es.iter().map(|e| rent(sc, e)).collect::<Vec<_>>(),
            "files": sc.files.iter().map(|f| f.name.clone()).collect::<Vec<_>>()});
        if in_class { out.known(KNOWN, i, d); }
        else if zero_class { out.known(KNOWN_ZERO, i, d); }
        else { out.violation(i, "recovery is not exactly the intact appended entries (in order, per file up to the first damaged entry)", d); }
    }
}
/// recover_all_entries under catch_unwind: None = the implementation panicked or returned Err
fn safe_all<S: WalStore>(rot: &WalRotator<S>) -> Option<Vec<WalEntry>> {
    match std::panic::catch_unwind(std::panic::AssertUnwindSafe(|| rot.recover_all_entries())) {
        Ok(Ok(v)) => Some(v),
        _ => None,
    }
}
/// the directory a probe ran on: file name -> hex of its bytes (null = file removed)
fn dir_json(sc: &Scenario, imgs: &[Option<Vec<u8>>]) -> serde_json::Value {
    serde_json::Value::Object(sc.files.iter().zip(imgs).map(|(f, d)| (f.name.clone(), match d { Some(b) => json!(hex(b)), None => serde_json::Value::Null })).collect())
}

fn main() {
    // a panic inside catch_unwind is a result of the probe (reported as a violation), not noise
    std::panic::set_hook(Box::new(|info| {
        let bt = std::backtrace::Backtrace::force_capture().to_string();
        if !bt.contains("catch_unwind") {
            eprintln!("harness panic: {}", info);
        }
    }));
    let a: Vec<String> = std::env::args().collect();
    let args = &Args::parse(&a[1..]);
    let mut out = Out::new(&args.out, "C10", args.shards, HEADER);
    let n_flips = args.get("flips", 48) as usize;
    let n_damage = args.get("damage", 24) as usize;
    let all_flips = args.get("allflips", 0) == 1;
    let big_every = args.get("bigevery", 4).max(1);
    let big_huge = args.get("bighuge", 0) == 1;
    out.nontrivial_rule = "a case = one WAL directory written by the real WalRotator (plus files with unusual names written by the real WalWriter) and a list of probes on it: every truncation length of every file, single-bit flips (all bits of one entry header and of the file header, plus sampled / all others), random multi-byte patches, dropped files, two-file combinations; each probe runs recover_all_entries, some also recover_entries_after and truncate_before (with and without an active writer); non-trivial = at least 2 entries; distinct by canonical text of the directory".into();
    let range: Vec<u64> = match args.only { Some(i) => vec![i], None => (0..args.n).collect() };
    for i in range {
        let mut rng = case_rng(args.seed, i);
        let sc = build(&mut rng);
        let nf = sc.files.len();
        // ---- probes
        let mut probes: Vec<(Vec<Mut>, u8, u64, bool)> = Vec::new(); // (mutations, kind 0=recover 1=after 2=trunc 3=reader(T, file in .3 as bool unused) 4=restart, T, active)
        let mut reader_files: Vec<usize> = Vec::new(); // file index of each kind-3 probe, in order
        probes.push((vec![], 0, 0, false));
        for f in 0..nf {
            for k in 0..sc.images[f].len() {
                probes.push((vec![Mut::Trunc(f, k)], 0, 0, false));
            }
            probes.push((vec![Mut::Drop(f)], 0, 0, false));
        }
        let nonempty: Vec<usize> = (0..nf).filter(|&f| !sc.images[f].is_empty()).collect();
        if !nonempty.is_empty() {
            // every bit of the file header of one file and of one entry header
            let f = nonempty[rng.gen_range(0..nonempty.len())];
            for b in 0..16.min(sc.images[f].len()) {
                for bit in 0..8 {
                    probes.push((vec![Mut::Flip(f, b, bit)], 0, 0, false));
                }
            }
            let with_ents: Vec<usize> = (0..nf).filter(|&f| !sc.files[f].ents.is_empty()).collect();
            if !with_ents.is_empty() {
                let f = with_ents[rng.gen_range(0..with_ents.len())];
                let which = rng.gen_range(0..sc.files[f].ents.len());
                let off: usize = 16 + sc.files[f].ents[..which].iter().map(|&e| 16 + sc.ents[e].data.len()).sum::<usize>();
                for b in off..off + 16 {
                    for bit in 0..8 {
                        probes.push((vec![Mut::Flip(f, b, bit)], 0, 0, false));
                    }
                }
            }
            if all_flips {
                for &f in &nonempty {
                    if sc.images[f].len() <= 400 {
                        for b in 0..sc.images[f].len() {
                            for bit in 0..8 {
                                probes.push((vec![Mut::Flip(f, b, bit)], 0, 0, false));
                            }
                        }
                    }
                }
            }
            for _ in 0..n_flips {
                let f = nonempty[rng.gen_range(0..nonempty.len())];
                probes.push((vec![Mut::Flip(f, rng.gen_range(0..sc.images[f].len()), rng.gen_range(0..8))], 0, 0, false));
            }
            for j in 0..n_damage {
                let f = nonempty[rng.gen_range(0..nonempty.len())];
                let len = rng.gen_range(1..9);
                let off = rng.gen_range(0..sc.images[f].len());
                let p: Vec<u8> = (0..len).map(|_| rng.gen()).collect();
                let mut ms = vec![Mut::Patch(f, off, p)];
                if j % 3 == 0 && nf > 1 {
                    // a second file is damaged too
                    let g = nonempty[rng.gen_range(0..nonempty.len())];
                    if rng.gen_bool(0.5) {
                        ms.push(Mut::Trunc(g, rng.gen_range(0..=sc.images[g].len())));
                    } else {
                        ms.push(Mut::Flip(g, rng.gen_range(0..sc.images[g].len()), rng.gen_range(0..8)));
                    }
                }
                probes.push((ms, 0, 0, false));
            }
        }
        // recover_entries_after / truncate_before on pristine and damaged directories
        for j in 0..16 {
            let mut ms = vec![];
            if j % 2 == 1 && !nonempty.is_empty() {
                let f = nonempty[rng.gen_range(0..nonempty.len())];
                ms.push(match rng.gen_range(0..3) {
                    0 => Mut::Trunc(f, rng.gen_range(0..=sc.images[f].len())),
                    1 => Mut::Flip(f, rng.gen_range(0..sc.images[f].len()), rng.gen_range(0..8)),
                    _ => Mut::Patch(f, rng.gen_range(0..sc.images[f].len()), (0..rng.gen_range(1..5)).map(|_| rng.gen()).collect()),
                });
            }
            let t = gen_ts(&mut rng);
            probes.push((ms.clone(), 1, t, false));
            probes.push((ms.clone(), 2, t, false));
            probes.push((ms, 2, gen_ts(&mut rng), true));
        }

        // structure-aware and multi-site damage: every field of one entry header and of one file header set to
        // 0 / 0xFF.. / value+-1, alone and with 1-3 independent flips elsewhere in the file; zero- and
        // 0xFF-filled ranges; filled tails appended after the end (nothing recomputes a checksum)
        {
            let with_ents: Vec<usize> = (0..nf).filter(|&f| !sc.files[f].ents.is_empty()).collect();
            if !with_ents.is_empty() {
                let f = with_ents[rng.gen_range(0..with_ents.len())];
                let len = sc.images[f].len();
                let which = rng.gen_range(0..sc.files[f].ents.len());
                let off: usize = 16 + sc.files[f].ents[..which].iter().map(|&e| 16 + sc.ents[e].data.len()).sum::<usize>();
                let fields = [(off, 4usize), (off + 4, 8), (off + 12, 4), (0, 4), (4, 1), (5, 1), (6, 2), (8, 8)];
                for &(o, n) in &fields {
                    let cur = &sc.images[f][o..o + n];
                    let mut x = [0u8; 8];
                    x[..n].copy_from_slice(cur);
                    let val = u64::from_le_bytes(x);
                    let mut vals: Vec<Vec<u8>> = vec![vec![0u8; n], vec![0xFF; n]];
                    for nb in [val.wrapping_add(1), val.wrapping_sub(1)] { vals.push(nb.to_le_bytes()[..n].to_vec()); }
                    for v in vals {
                        if v == cur { continue; }
                        probes.push((vec![Mut::Patch(f, o, v.clone())], 0, 0, false));
                        let mut ms = vec![Mut::Patch(f, o, v)];
                        for _ in 0..rng.gen_range(1..4) { ms.push(Mut::Flip(f, rng.gen_range(16..len), rng.gen_range(0..8))); }
                        probes.push((ms, 0, 0, false));
                    }
                }
            }
            for &f in &nonempty {
                let len = sc.images[f].len();
                for &v in &[0u8, 0xFF] {
                    let sz = [8usize, 16, 32, 64][rng.gen_range(0..4)];
                    probes.push((vec![Mut::Fill(f, rng.gen_range(0..len), sz, v)], 0, 0, false));
                    probes.push((vec![Mut::Fill(f, (rng.gen_range(0..len) / 16) * 16, 16, v), Mut::Flip(f, rng.gen_range(0..len), rng.gen_range(0..8))], 0, 0, false));
                    for &n in &[7usize, 16, 40] { probes.push((vec![Mut::Append(f, n, v)], 0, 0, false)); }
                }
            }
        }
        // WalReader driven directly (open, sequence, entries, entries_after) on single files; restart on a
        // damaged directory (fresh rotator, one more append, recovery)
        for j in 0..8 {
            if nonempty.is_empty() { break; }
            let f = nonempty[rng.gen_range(0..nonempty.len())];
            let len = sc.images[f].len();
            let ms = match j % 4 { 0 => vec![], 1 => vec![Mut::Trunc(f, rng.gen_range(0..=len))], 2 => vec![Mut::Flip(f, rng.gen_range(0..len), rng.gen_range(0..8))], _ => vec![Mut::Append(f, 16, 0)] };
            reader_files.push(f);
            probes.push((ms.clone(), 3, gen_ts(&mut rng), false));
            probes.push((ms, 4, 0, false));
        }

        // ---- run them
        let mut reader_next = 0usize;
        let mut pterms: Vec<String> = Vec::new();
        for (ms, kind, t, active) in &probes {
            let imgs = apply(&sc.images, ms);
            let store = mk_store(&sc, &imgs);
            let mt = clist(ms.iter(), |m| m.term());
            let label = match (ms.first(), ms.len()) {
                (None, _) => "pristine",
                (Some(Mut::Trunc(..)), 1) => "trunc",
                (Some(Mut::Flip(..)), 1) => "flip",
                (Some(Mut::Patch(..)), 1) => "patch",
                (Some(Mut::Drop(..)), 1) => "drop",
                (Some(Mut::Fill(..)), 1) => "fill",
                (Some(Mut::Append(..)), 1) => "filled-tail",
                (Some(Mut::Patch(_, _, p)), _) if p.len() <= 8 && ms.len() > 1 => "field+flips",
                _ => "multi",
            };
            match kind {
                0 => {
                    out.count(&format!("recover:{}", label));
                    let rot = WalRotator::new(store.clone(), sc.max_file_size).unwrap();
                    let r = std::panic::catch_unwind(std::panic::AssertUnwindSafe(|| rot.recover_all_entries()));
                    out.impl_checks += 1;
                    match r {
                        Err(_) => {
                            out.violation(i, "the implementation panicked on WalRotator::recover_all_entries", json!({"mutations": mt, "directory": dir_json(&sc, &imgs)}));
                            pterms.push(format!("PRecover {} None", mt));
                        }
                        Ok(Err(e)) => {
                            out.violation(i, "recover_all_entries returned an error", json!({"mutations": mt, "err": e.to_string()}));
                            pterms.push(format!("PRecover {} None", mt));
                        }
                        Ok(Ok(es)) => {
                            let mapped: Vec<String> = es.iter().map(|e| rent(&sc, e)).collect();
                            pterms.push(format!("PRecover {} (Some {})", mt, clist(mapped.iter(), |m| m.clone())));
                            judge(&mut out, i, &sc, &imgs, &es, None, &mt, "InMemoryWalStore");
                        }
                    }
                }
                1 => {
                    out.count(&format!("after:{}", label));
                    let rot = WalRotator::new(store.clone(), sc.max_file_size).unwrap();
                    let r = std::panic::catch_unwind(std::panic::AssertUnwindSafe(|| rot.recover_entries_after(*t)));
                    let all = safe_all(&rot).unwrap_or_default(); // a panic / error here is reported by the recover probes
                    out.impl_checks += 1;
                    match r {
                        Err(_) => {
                            out.violation(i, "the implementation panicked on WalRotator::recover_entries_after", json!({"mutations": mt, "T": t, "directory": dir_json(&sc, &imgs)}));
                            pterms.push(format!("PAfter {} {} None", mt, t));
                        }
                        Ok(Err(_)) => {
                            // allowed only when a selected entry does not deserialise
                            let poisoned = all.iter().any(|e| e.timestamp >= *t && e.to_delta().is_err());
                            if !poisoned {
                                out.violation(i, "recover_entries_after failed although every selected entry deserialises", json!({"mutations": mt, "T": t}));
                            }
                            pterms.push(format!("PAfter {} {} None", mt, t));
                        }
                        Ok(Ok(ds)) => {
                            // identify each delta by its (unique) key
                            let idx: Vec<u64> = ds.iter().map(|d| d.key.trim_start_matches('k').parse::<u64>().unwrap_or(999999)).collect();
                            let sel: Vec<u64> = all.iter().filter(|e| e.timestamp >= *t).map(|e| e.to_delta().map(|d| d.key.trim_start_matches('k').parse::<u64>().unwrap_or(999999)).unwrap_or(999998)).collect();
                            if idx != sel {
                                out.violation(i, "recover_entries_after is not the stamp filter of recover_all_entries", json!({"mutations": mt, "T": t, "got": idx, "want": sel}));
                            }
                            // every field of every returned update, not only its key
                            for (d, &ix) in ds.iter().zip(&idx) {
                                let same = sc.ents.get(ix as usize).and_then(|e| e.canon.as_ref()).map(|c| *c == serde_json::to_string(d).unwrap()).unwrap_or(false);
                                if !same {
                                    out.violation(i, "recover_entries_after returned an update that differs from the appended one", json!({"mutations": mt, "T": t, "entry": ix, "got": serde_json::to_value(d).unwrap()}));
                                }
                            }
                            pterms.push(format!("PAfter {} {} (Some {})", mt, t, clist(idx.iter(), |x| x.to_string())));
                        }
                    }
                }
                3 => {
                    // WalReader on one file: open, sequence, entries, entries_after
                    let f = reader_files[reader_next];
                    reader_next += 1;
                    out.count(&format!("reader:{}", label));
                    out.impl_checks += 1;
                    let name = &sc.files[f].name;
                    let r = std::panic::catch_unwind(std::panic::AssertUnwindSafe(|| -> Option<(u64, Vec<WalEntry>, Vec<WalEntry>)> {
                        let rd = WalReader::open(store.open_read(name).ok()?).ok()?;
                        Some((rd.sequence(), rd.entries(), rd.entries_after(*t)))
                    }));
                    match r {
                        Err(_) => {
                            out.violation(i, "the implementation panicked on WalReader::open / entries / entries_after", json!({"mutations": mt, "file": name, "directory": dir_json(&sc, &imgs)}));
                            pterms.push(format!("PReader {} {} {} None", mt, f, t));
                        }
                        Ok(None) => pterms.push(format!("PReader {} {} {} None", mt, f, t)),
                        Ok(Some((seq, all, after))) => {
                            let want: Vec<(u64, Vec<u8>, u32)> = all.iter().filter(|e| e.timestamp >= *t).map(|e| (e.timestamp, e.data.clone(), e.checksum)).collect();
                            let got: Vec<(u64, Vec<u8>, u32)> = after.iter().map(|e| (e.timestamp, e.data.clone(), e.checksum)).collect();
                            if got != want {
                                out.violation(i, "WalReader::entries_after is not the stamp filter (>=) of entries", json!({"mutations": mt, "file": name, "T": t}));
                            }
                            // the single file judged like a directory of one file
                            let (keep, in_class, zero) = expected_file(&sc, f, &sc.images[f], &imgs[f]);
                            let expo: Vec<(u64, Vec<u8>, u32)> = keep.iter().map(|&x| (sc.ents[x].ts, sc.ents[x].data.clone(), sc.ents[x].crc)).collect();
                            let gota: Vec<(u64, Vec<u8>, u32)> = all.iter().map(|e| (e.timestamp, e.data.clone(), e.checksum)).collect();
                            if gota != expo {
                                let d = json!({"via": "WalReader", "mutations": mt, "file": name});
                                if in_class { out.known(KNOWN, i, d); } else if zero { out.known(KNOWN_ZERO, i, d); }
                                else { out.violation(i, "WalReader::entries is not exactly the intact appended entries of the file", d); }
                            }
                            pterms.push(format!("PReader {} {} {} (Some ({}, {}, {}))", mt, f, t, seq, clist(all.iter(), |e| rent(&sc, e)), clist(after.iter(), |e| rent(&sc, e))));
                        }
                    }
                }
                4 => {
                    // restart: a fresh rotator on the (damaged) directory appends one more entry, then recovery
                    out.count(&format!("restart:{}", label));
                    out.impl_checks += 1;
                    let mut rot = WalRotator::new(store.clone(), sc.max_file_size).unwrap();
                    let mut extra: Option<usize> = None;
                    if !sc.ents.is_empty() {
                        let ei = rng.gen_range(0..sc.ents.len());
                        match std::panic::catch_unwind(std::panic::AssertUnwindSafe(|| rot.append(&wal_entry(&sc.ents[ei])).and_then(|s| rot.sync().map(|_| s)))) {
                            Ok(Ok(_)) => extra = Some(ei),
                            _ => { out.count("append_refused_at_max_sequence"); rot = WalRotator::new(store.clone(), sc.max_file_size).unwrap(); }
                        }
                    }
                    let ex = copt(&extra, |e| e.to_string());
                    match safe_all(&rot) {
                        None => {
                            out.violation(i, "the implementation panicked on WalRotator::recover_all_entries", json!({"mutations": mt, "after": "restart + append", "directory": dir_json(&sc, &imgs)}));
                            pterms.push(format!("PRestart {} {} None", mt, ex));
                        }
                        Some(es) => {
                            judge(&mut out, i, &sc, &imgs, &es, extra, &mt, "restart + append");
                            pterms.push(format!("PRestart {} {} (Some {})", mt, ex, clist(es.iter(), |e| rent(&sc, e))));
                        }
                    }
                }
                _ => {
                    out.count(&format!("truncate:{}:{}", if *active { "active-writer" } else { "no-writer" }, label));
                    let mut rot = WalRotator::new(store.clone(), sc.max_file_size).unwrap();
                    let mut extra: Option<(usize, String)> = None;
                    if *active && !sc.ents.is_empty() {
                        let ei = rng.gen_range(0..sc.ents.len());
                        // (a directory holding sequence u64::MAX cannot be rotated: append panics on the sequence
                        //  overflow; that is the append path, not recovery - the probe then runs without a writer)
                        match std::panic::catch_unwind(std::panic::AssertUnwindSafe(|| rot.append(&wal_entry(&sc.ents[ei])))) {
                            Ok(Ok(seq)) => extra = Some((ei, format!("wal-{:08x}.wal", seq))),
                            _ => { out.count("append_refused_at_max_sequence"); rot = WalRotator::new(store.clone(), sc.max_file_size).unwrap(); }
                        }
                    }
                    let before = match safe_all(&rot) {
                        Some(v) => v,
                        None => {
                            out.violation(i, "the implementation panicked on WalRotator::recover_all_entries", json!({"mutations": mt, "before": "truncate_before", "directory": dir_json(&sc, &imgs)}));
                            vec![]
                        }
                    };
                    let r = std::panic::catch_unwind(std::panic::AssertUnwindSafe(|| rot.truncate_before(*t)));
                    out.impl_checks += 1;
                    let ex = copt(&extra, |e| e.0.to_string());
                    match r {
                        Ok(Ok(deleted)) => {
                            let after = match safe_all(&rot) {
                                Some(v) => v,
                                None => {
                                    out.violation(i, "the implementation panicked on WalRotator::recover_all_entries", json!({"mutations": mt, "after": "truncate_before", "T": t}));
                                    vec![]
                                }
                            };
                            let names = store.list().unwrap();
                            // base files in list() order, then 1000 for the file the live writer created
                            let mut remaining: Vec<u64> = names.iter().filter_map(|n| sc.files.iter().position(|f| &f.name == n).map(|p| p as u64)).collect();
                            if names.iter().any(|n| sc.files.iter().all(|f| &f.name != n)) {
                                remaining.push(1000);
                            }
                            if let Some((_, name)) = &extra {
                                if !names.contains(name) {
                                    out.violation(i, "truncate_before deleted the active file", json!({"mutations": mt, "T": t, "active": name}));
                                }
                            }
                            let newer = |v: &Vec<WalEntry>| -> Vec<(u64, Vec<u8>, u32)> { v.iter().filter(|e| e.timestamp > *t).map(|e| (e.timestamp, e.data.clone(), e.checksum)).collect() };
                            if newer(&before) != newer(&after) {
                                out.violation(i, "truncate_before lost (or reordered) an entry stamped later than T", json!({"mutations": mt, "T": t,
                                    "before": newer(&before).iter().map(|e| e.0).collect::<Vec<_>>(), "after": newer(&after).iter().map(|e| e.0).collect::<Vec<_>>()}));
                            }
                            pterms.push(format!("PTrunc {} {} {} (Some ({}, {}))", mt, ex, t, deleted, clist(remaining.iter(), |x| x.to_string())));
                        }
                        Ok(Err(e)) => {
                            out.violation(i, "truncate_before returned an error on an in-memory store", json!({"mutations": mt, "T": t, "err": e.to_string()}));
                            pterms.push(format!("PTrunc {} {} {} None", mt, ex, t));
                        }
                        Err(_) => {
                            out.violation(i, "the implementation panicked on WalRotator::truncate_before", json!({"mutations": mt, "T": t, "directory": dir_json(&sc, &imgs)}));
                            pterms.push(format!("PTrunc {} {} {} None", mt, ex, t));
                        }
                    }
                }
            }
        }
        // ---- the same directory behind the other store implementations (implementation side only)
        {
            let sample: Vec<Vec<Mut>> = {
                let mut v = vec![vec![]];
                for _ in 0..3 { if !probes.is_empty() { let (ms, k, _, _) = &probes[rng.gen_range(0..probes.len())]; if *k == 0 { v.push(ms.clone()); } } }
                v
            };
            for (j, ms) in sample.iter().enumerate() {
                let imgs = apply(&sc.images, ms);
                let mt = clist(ms.iter(), |m| m.term());
                // LocalWalStore: real files in a scratch directory
                let dir = args.out.join(format!("localwal-{}-{}", i, j));
                let _ = std::fs::remove_dir_all(&dir);
                let local = LocalWalStore::new(dir.clone()).unwrap();
                for (f, img) in sc.files.iter().zip(&imgs) { if let Some(d) = img { std::fs::write(dir.join(&f.name), d).unwrap(); } }
                out.impl_checks += 1;
                out.count("store:local-files");
                match WalRotator::new(local, sc.max_file_size).ok().and_then(|r| safe_all(&r)) {
                    None => out.violation(i, "the implementation panicked or failed on WalRotator::recover_all_entries over LocalWalStore", json!({"mutations": mt, "directory": dir_json(&sc, &imgs)})),
                    Some(es) => judge(&mut out, i, &sc, &imgs, &es, None, &mt, "LocalWalStore"),
                }
                let _ = std::fs::remove_dir_all(&dir);
            }
            // SimulatedWalStore whose reads flip one byte (transiently corrupted reads): whatever comes back
            // must be, file by file and in order, a prefix of what was appended (stamps apart: known finding)
            let distinct = { let mut d: Vec<&Vec<u8>> = sc.ents.iter().map(|e| &e.data).collect(); d.sort(); d.windows(2).all(|w| w[0] != w[1]) && sc.ents.iter().all(|e| !e.data.is_empty()) };
            let no_repeat = { let mut all: Vec<usize> = sc.files.iter().flat_map(|f| f.ents.clone()).collect(); all.sort(); all.windows(2).all(|w| w[0] != w[1]) };
            if distinct && no_repeat {
                for round in 0..4u64 {
                    let cfg = SimulatedWalStoreConfig { corruption_prob: 1.0, ..SimulatedWalStoreConfig::no_faults() };
                    let sim = SimulatedWalStore::new(redis_sim::io::simulation::SimulatedRng::new(args.seed ^ (i << 8) ^ round), cfg);
                    for (f, img) in sc.files.iter().zip(&sc.images) { let mut w = sim.inner_store().create(&f.name).unwrap(); if !img.is_empty() { w.append(img).unwrap(); } }
                    out.impl_checks += 1;
                    out.count("store:corrupting-reads");
                    match WalRotator::new(sim.clone(), sc.max_file_size).ok().and_then(|r| safe_all(&r)) {
                        None => out.violation(i, "the implementation panicked or failed on recovery over a store with corrupted reads", json!({"files": sc.files.iter().map(|f| f.name.clone()).collect::<Vec<_>>()})),
                        Some(es) => {
                            let mut order: Vec<(u64, usize)> = sc.files.iter().enumerate().filter_map(|(k, f)| parse_seq(&f.name).map(|s| (s, k))).collect();
                            order.sort_by_key(|(s, _)| *s);
                            let mut pos = 0usize;
                            let mut stamp_changed = false;
                            for (_, f) in order {
                                for &ei in &sc.files[f].ents {
                                    if pos < es.len() && es[pos].data == sc.ents[ei].data && es[pos].checksum == sc.ents[ei].crc { stamp_changed |= es[pos].timestamp != sc.ents[ei].ts; pos += 1; } else { break; }
                                }
                            }
                            if pos != es.len() {
                                out.violation(i, "recovery over a store with corrupted reads returned an entry that was never appended (or out of order)", json!({"recovered": es.iter().map(|e| rent(&sc, e)).collect::<Vec<_>>(), "position": pos}));
                            } else if stamp_changed {
                                out.known(KNOWN, i, json!({"via": "SimulatedWalStore corrupted read"}));
                            }
                            if es.len() < sc.files.iter().map(|f| f.ents.len()).sum::<usize>() { out.count("store:corrupting-reads:lost-a-tail"); }
                        }
                    }
                }
            }
        }
        // ---- size and count boundaries (implementation side only): many entries in one directory, payloads
        //      around 23 (SDS), 256, 4096, 65536 bytes; pristine, truncations, flips, fills
        if i % big_every == 1 % big_every {
            let mut ents: Vec<Ent> = Vec::new();
            let count = if big_huge { [1000usize, 4096, 10000][rng.gen_range(0..3)] } else { [255usize, 256, 257][rng.gen_range(0..3)] };
            let max_file_size = [4096usize, 65536, 100000][rng.gen_range(0..3)];
            let mut sizes: Vec<usize> = vec![22, 23, 24, 255, 256, 257, 4095, 4096, 4097];
            if big_huge { sizes.extend([65535, 65536, 65537, (1 << 20) + 1]); }
            let store = InMemoryWalStore::new();
            let mut rot = WalRotator::new(store.clone(), max_file_size).unwrap();
            let mut specs: BTreeMap<String, FileSpec> = BTreeMap::new();
            for j in 0..count + sizes.len() {
                let ts = gen_ts(&mut rng);
                let vlen = if j >= count { sizes[j - count] } else { rng.gen_range(0..4) };
                let val: Vec<u8> = (0..vlen).map(|x| (x as u8).wrapping_mul(37) ^ j as u8).collect();
                let v = ReplicatedValue::with_value(SDS::new(val), LamportClock { time: ts, replica_id: ReplicaId::new(1) });
                let we = WalEntry::from_delta(&ReplicationDelta::new(format!("b{}", j), v, ReplicaId::new(1)), ts).unwrap();
                let seq = rot.append(&we).unwrap();
                let name = format!("wal-{:08x}.wal", seq);
                specs.entry(name.clone()).or_insert(FileSpec { name, seq_hdr: seq, ents: vec![], by_rotator: true }).ents.push(ents.len());
                ents.push(Ent { ts, data: we.data, crc: we.checksum, poison: false, canon: None });
            }
            rot.sync().unwrap();
            drop(rot);
            let names = store.list().unwrap();
            let big = Scenario { ents, files: names.iter().map(|n| specs[n].clone()).collect(), images: names.iter().map(|n| store.get_file_data(n).unwrap()).collect(), max_file_size };
            out.count(&format!("big:{}-entries:{}-files", count + sizes.len(), big.files.len().min(99)));
            let mut bp: Vec<Vec<Mut>> = vec![vec![]];
            for _ in 0..12 {
                let f = rng.gen_range(0..big.files.len());
                let len = big.images[f].len();
                bp.push(vec![Mut::Trunc(f, rng.gen_range(0..=len))]);
                bp.push(vec![Mut::Flip(f, rng.gen_range(0..len), rng.gen_range(0..8))]);
            }
            for _ in 0..4 {
                let f = rng.gen_range(0..big.files.len());
                let len = big.images[f].len();
                bp.push(vec![Mut::Fill(f, rng.gen_range(0..len), 64, [0u8, 0xFF][rng.gen_range(0..2)])]);
                bp.push(vec![Mut::Append(f, 4096, 0xFF)]);
            }
            for ms in &bp {
                let imgs = apply(&big.images, ms);
                let mt = clist(ms.iter(), |m| m.term());
                out.impl_checks += 1;
                out.count("big:probe");
                match WalRotator::new(mk_store(&big, &imgs), max_file_size).ok().and_then(|r| safe_all(&r)) {
                    None => out.violation(i, "the implementation panicked or failed on WalRotator::recover_all_entries (large directory)", json!({"mutations": mt, "entries": big.ents.len()})),
                    Some(es) => judge(&mut out, i, &big, &imgs, &es, None, &mt, "large directory"),
                }
            }
        }
        // ---- the case
        let files_t = clist(sc.files.iter().zip(&sc.images), |(f, img)| format!("({}, {})", chex(f.name.as_bytes()), chex(img)));
        let ents_t = clist(sc.ents.iter(), |e| format!("E {} {} {} {}", e.ts, chex(&e.data), e.crc, cbool(e.poison)));
        let written_t = clist(sc.files.iter().enumerate(), |(k, f)| {
            format!("W {} {} {} {}", k, f.seq_hdr, cbool(f.by_rotator), clist(f.ents.iter(), |x| x.to_string()))
        });
        let term = format!("(K {} {} {} {})", files_t, ents_t, written_t, clist(pterms.iter(), |p| p.clone()));
        out.count(&format!("files:{}", nf.min(6)));
        out.count(&format!("entries:{}", sc.ents.len().min(10)));
        out.count(&format!("max_file_size:{}", sc.max_file_size));
        if sc.files.iter().any(|f| !f.by_rotator) {
            out.count("has_unusual_name");
        }
        let canon = format!("{}|{}", files_t, sc.max_file_size);
        out.sample(json!({"files": sc.files.iter().map(|f| f.name.clone()).collect::<Vec<_>>(), "entries": sc.ents.len(), "probes": probes.len()}));
        if args.only.is_some() {
            println!("case {}: files {:?}\n entries (ts,len,poison) {:?}\n probes {}", i,
                sc.files.iter().map(|f| (f.name.clone(), f.ents.clone())).collect::<Vec<_>>(),
                sc.ents.iter().map(|e| (e.ts, e.data.len(), e.poison)).collect::<Vec<_>>(), probes.len());
            for p in &pterms {
                println!("  {}", p);
            }
        }
        out.case(i, term, sc.ents.len() >= 2, &canon);
    }
    out.finish(args.seed);
}

//! C02: concurrent clients on one node see a linearizable per-key history.
//!
//! One case = one concurrent run of the real `ShardedActorState` on a MULTI-THREAD tokio
//! runtime: M client tasks, R rounds separated by a barrier.  In a round every client issues a
//! few commands on a small shared key set through every kind of entry point (`execute`,
//! `fast_get/set`, `pooled_fast_get/set`, `fast_batch_get/set_pipeline`, EVAL scripts), writing
//! unique values (a read identifies its write), INCR / APPEND as read-modify-writes, DEL.
//! Invocation and response are stamped with a global atomic counter (`fetch_add` before the
//! call, `fetch_add` after the reply).  After the barrier every key is read once; that read is
//! the last operation of the window and its value is the initial state of the next window.
//! Per round and key the window (<= 15 operations) is printed as a Coq term and judged by
//! `lin_check` (Corr/C02.v); the same window is judged here by an independent memoised search
//! (the direct oracle on the implementation).  A window that is not linearizable is a C02
//! violation; the full window is stored in the violation detail, and `--only i` re-judges a
//! recorded window found under replays/C02 (thread scheduling is not derived from the seed:
//! histories are explored, not replayable bit for bit; the scripts of case i are).
use bytes::Bytes;
use rand::Rng as _;
use redis_sim::production::ShardedActorState;
use redis_sim::redis::{Command, RespValue, SDS};
use serde_json::{json, Value};
use std::collections::{BTreeMap, HashSet};
use std::sync::atomic::{AtomicU64, Ordering};
use std::sync::Arc;
use vharness::util::*;

const HEADER: &str = "From RV Require Import Corr.C02.\nLocal Open Scope string_scope.\nLocal Open Scope list_scope.\nLocal Open Scope nat_scope.";
/// Key names: plain ones, Redis-Cluster hash-tag shapes (`{tag}`, text around a tag, two names
/// sharing a tag, empty tag, unbalanced braces), multi-byte UTF-8, and names of 7/8/9/16/17
/// bytes (SipHash block boundaries).  Every entry path must send a name to the same shard.
const KEYPOOL: [&str; 28] = [
    "a", "b", "k1", "k2", "key:3", "user:7", "x", "zz",
    "{a}", "x{a}y", "{a}:b", "{a}:c", "{}", "{tenant-0}:counter", "{u1}:name", "pre{u1}", "{", "}{", "a{b", "{}{z}",
    "\u{e9}", "\u{43a}\u{43b}\u{44e}\u{447}", "\u{65e5}\u{672c}\u{8a9e}",
    "abcdefg", "abcdefgh", "abcdefghi", "0123456789abcdef", "0123456789abcdefg",
];
const JUNK_KEY: &str = "c02-junk";
const PAD_KEY: &str = "c02-pad";
/// GET then SET of one key inside one script: one atomic operation of two primitives.
const SCRIPT_GETSET: &str = "local v = redis.call('GET', KEYS[1]); local s = redis.call('SET', KEYS[1], ARGV[1]); return {v or false, s}";
/// INCR then GET inside one script.
const SCRIPT_INCRGET: &str = "local n = redis.call('INCR', KEYS[1]); local v = redis.call('GET', KEYS[1]); return {n, v or false}";

static CLOCK: AtomicU64 = AtomicU64::new(0);
fn stamp() -> u64 {
    CLOCK.fetch_add(1, Ordering::SeqCst)
}

#[derive(Clone, Debug, PartialEq, Eq, Hash)]
enum Prim {
    Get,
    Set(Vec<u8>),
    Incr,
    Append(Vec<u8>),
    Del,
}
#[derive(Clone, Debug, PartialEq, Eq)]
enum Rep {
    Val(Option<Vec<u8>>),
    Ok,
    Int(i64),
    ErrNotInt,
    ErrOverflow,
    Other(String),
}
fn prim_term(p: &Prim) -> String {
    match p {
        Prim::Get => "G".into(),
        Prim::Set(v) => format!("St {}", chex(v)),
        Prim::Incr => "Ic".into(),
        Prim::Append(v) => format!("Ap {}", chex(v)),
        Prim::Del => "Dl".into(),
    }
}
fn rep_term(r: &Rep) -> String {
    match r {
        Rep::Val(None) => "V0".into(),
        Rep::Val(Some(v)) => format!("Vs {}", chex(v)),
        Rep::Ok => "OK".into(),
        Rep::Int(n) => format!("Ni ({})%Z", n),
        Rep::ErrNotInt => "ENI".into(),
        Rep::ErrOverflow => "EOV".into(),
        Rep::Other(s) => format!("EX {}", chex(s.as_bytes())),
    }
}
fn prim_json(p: &Prim) -> Value {
    match p {
        Prim::Get => json!({"op": "GET"}),
        Prim::Set(v) => json!({"op": "SET", "v": hex(v)}),
        Prim::Incr => json!({"op": "INCR"}),
        Prim::Append(v) => json!({"op": "APPEND", "v": hex(v)}),
        Prim::Del => json!({"op": "DEL"}),
    }
}
fn prim_of_json(v: &Value) -> Prim {
    let h = |v: &Value| unhex(v["v"].as_str().unwrap_or(""));
    match v["op"].as_str().unwrap_or("") {
        "GET" => Prim::Get,
        "SET" => Prim::Set(h(v)),
        "INCR" => Prim::Incr,
        "APPEND" => Prim::Append(h(v)),
        _ => Prim::Del,
    }
}
fn rep_json(r: &Rep) -> Value {
    match r {
        Rep::Val(None) => json!({"r": "nil"}),
        Rep::Val(Some(v)) => json!({"r": "bulk", "v": hex(v)}),
        Rep::Ok => json!({"r": "ok"}),
        Rep::Int(n) => json!({"r": "int", "n": n}),
        Rep::ErrNotInt => json!({"r": "err-not-int"}),
        Rep::ErrOverflow => json!({"r": "err-overflow"}),
        Rep::Other(s) => json!({"r": "other", "t": s}),
    }
}
fn rep_of_json(v: &Value) -> Rep {
    match v["r"].as_str().unwrap_or("") {
        "nil" => Rep::Val(None),
        "bulk" => Rep::Val(Some(unhex(v["v"].as_str().unwrap_or("")))),
        "ok" => Rep::Ok,
        "int" => Rep::Int(v["n"].as_i64().unwrap_or(0)),
        "err-not-int" => Rep::ErrNotInt,
        "err-overflow" => Rep::ErrOverflow,
        _ => Rep::Other(v["t"].as_str().unwrap_or("").to_string()),
    }
}
fn canon(r: &RespValue) -> Rep {
    match r {
        RespValue::BulkString(v) => Rep::Val(v.clone()),
        RespValue::SimpleString(s) if s.as_ref() == "OK" => Rep::Ok,
        RespValue::Integer(n) => Rep::Int(*n),
        RespValue::Error(e) if e.as_ref() == "ERR value is not an integer or out of range" => Rep::ErrNotInt,
        RespValue::Error(e) if e.as_ref() == "ERR increment or decrement would overflow" => Rep::ErrOverflow,
        other => Rep::Other(format!("{:?}", other)),
    }
}

// ---- the reference per-key machine, written independently of the Coq one -------------------
fn parse_i64(b: &[u8]) -> Option<i64> {
    std::str::from_utf8(b).ok()?.parse::<i64>().ok()
}
fn apply(st: &Option<Vec<u8>>, p: &Prim) -> (Option<Vec<u8>>, Rep) {
    match p {
        Prim::Get => (st.clone(), Rep::Val(st.clone())),
        Prim::Set(v) => (Some(v.clone()), Rep::Ok),
        Prim::Incr => match st {
            None => (Some(b"1".to_vec()), Rep::Int(1)),
            Some(b) => match parse_i64(b) {
                None => (st.clone(), Rep::ErrNotInt),
                Some(n) => match n.checked_add(1) {
                    None => (st.clone(), Rep::ErrOverflow),
                    Some(m) => (Some(m.to_string().into_bytes()), Rep::Int(m)),
                },
            },
        },
        Prim::Append(v) => {
            let mut b = st.clone().unwrap_or_default();
            b.extend_from_slice(v);
            let n = b.len() as i64;
            (Some(b), Rep::Int(n))
        }
        Prim::Del => (None, Rep::Int(if st.is_some() { 1 } else { 0 })),
    }
}

#[derive(Clone, Debug)]
struct OpRec {
    id: usize,
    inv: u64,
    /// response stamp; meaningless when `pending`
    ret: u64,
    prims: Vec<Prim>,
    reps: Vec<Rep>,
    via: String,
    /// the request was abandoned (future dropped / task aborted) after it was started: no reply
    /// was observed; it may take effect at any instant after `inv`, or never
    pending: bool,
}
#[derive(Clone, Debug)]
struct Window {
    key: String,
    round: usize,
    init: Option<Vec<u8>>,
    ops: Vec<OpRec>,
}

/// What a command can answer at all on a string-or-absent key.  Anything else is a reply that
/// belongs to some other request.
fn shape_ok(p: &Prim, r: &Rep) -> bool {
    match (p, r) {
        (Prim::Get, Rep::Val(_)) => true,
        (Prim::Set(_), Rep::Ok) => true,
        (Prim::Incr, Rep::Int(_)) | (Prim::Incr, Rep::ErrNotInt) | (Prim::Incr, Rep::ErrOverflow) => true,
        (Prim::Append(_), Rep::Int(_)) => true,
        (Prim::Del, Rep::Int(0)) | (Prim::Del, Rep::Int(1)) => true,
        _ => false,
    }
}
fn window_shapes_ok(w: &Window) -> bool {
    w.ops.iter().filter(|o| !o.pending).all(|o| o.prims.len() == o.reps.len() && o.prims.iter().zip(o.reps.iter()).all(|(p, r)| shape_ok(p, r)))
}

/// Exhaustive search over the real-time-respecting orders of the completed operations plus any
/// subset of the pending ones (classical definition: some completion of the history),
/// memoised on (set placed, value).  Returns the witness: indices into `w.ops` in linearization
/// order, with the replies the reference machine gives along it.
fn linearize(w: &Window) -> Option<Vec<(usize, Vec<Rep>)>> {
    let n = w.ops.len();
    if n > 60 || w.ops.iter().any(|o| !o.pending && o.inv >= o.ret) {
        return None;
    }
    let mut completed_mask = 0u64;
    for (i, o) in w.ops.iter().enumerate() {
        if !o.pending {
            completed_mask |= 1 << i;
        }
    }
    fn go(w: &Window, cm: u64, done: u64, st: &Option<Vec<u8>>, seen: &mut HashSet<(u64, Option<Vec<u8>>)>, order: &mut Vec<(usize, Vec<Rep>)>) -> bool {
        let n = w.ops.len();
        if done & cm == cm {
            return true;
        }
        if seen.contains(&(done, st.clone())) {
            return false;
        }
        for i in 0..n {
            if done & (1 << i) != 0 {
                continue;
            }
            let o = &w.ops[i];
            // minimal: no other remaining COMPLETED operation returned before o was invoked
            // (a pending operation has no response, it never forces anything after it)
            if (0..n).any(|j| j != i && done & (1 << j) == 0 && !w.ops[j].pending && w.ops[j].ret < o.inv) {
                continue;
            }
            let mut cur = st.clone();
            let mut ok = o.pending || o.prims.len() == o.reps.len();
            let mut got = Vec::new();
            if ok {
                for (k, p) in o.prims.iter().enumerate() {
                    let (nx, rr) = apply(&cur, p);
                    if !o.pending && rr != o.reps[k] {
                        ok = false;
                        break;
                    }
                    got.push(rr);
                    cur = nx;
                }
            }
            if ok {
                order.push((i, got));
                if go(w, cm, done | (1 << i), &cur, seen, order) {
                    return true;
                }
                order.pop();
            }
        }
        seen.insert((done, st.clone()));
        false
    }
    let mut seen = HashSet::new();
    let mut order = Vec::new();
    if go(w, completed_mask, 0, &w.init, &mut seen, &mut order) { Some(order) } else { None }
}
fn linearizable(w: &Window) -> bool {
    linearize(w).is_some()
}

/// The window as a Coq term (a COMPLETE history for `lin_check`).
/// * linearizable: the completed operations plus the pending ones the witness uses, each of
///   those completed with a response stamp after everything else (a pending operation has no
///   response: any later stamp describes it) and the replies the reference machine assigns -
///   i.e. the completion of the history that the classical definition asks to exist; Coq
///   re-judges that completion.  Listed in witness order (`lin_check` is complete, the order
///   cannot change its answer, only how soon the search meets a linearization).
/// * not linearizable (no completion is): the completed operations alone; in particular that
///   completion is not linearizable, and Coq says so.
fn window_term(w: &Window, verdict: bool) -> String {
    let maxstamp = w.ops.iter().map(|o| if o.pending { o.inv } else { o.ret.max(o.inv) }).max().unwrap_or(0);
    let items: Vec<String> = match linearize(w) {
        Some(order) => {
            let mut k = 0;
            order.iter().map(|(i, reps)| {
                let o = &w.ops[*i];
                let ret = if o.pending { k += 1; maxstamp + k } else { o.ret };
                format!("Oc {} {} {} {} {}", o.id, o.inv, ret, clist(o.prims.iter(), prim_term), clist(reps.iter(), rep_term))
            }).collect()
        }
        None => w.ops.iter().filter(|o| !o.pending).map(|o| {
            format!("Oc {} {} {} {} {}", o.id, o.inv, o.ret, clist(o.prims.iter(), prim_term), clist(o.reps.iter(), rep_term))
        }).collect(),
    };
    format!("W2 {} [{}] {}", copt(&w.init, |v| chex(v)), items.join("; "), cbool(verdict))
}
fn window_json(w: &Window, verdict: bool) -> Value {
    json!({
        "key": w.key, "key_hex": hex(w.key.as_bytes()), "round": w.round, "init": w.init.as_ref().map(|v| hex(v)),
        "harness_verdict_linearizable": verdict,
        "reply_shapes_possible": window_shapes_ok(w),
        "ops": w.ops.iter().map(|o| json!({"id": o.id, "inv": o.inv, "ret": if o.pending { Value::Null } else { json!(o.ret) }, "via": o.via,
            "pending": o.pending,
            "prims": o.prims.iter().map(prim_json).collect::<Vec<_>>(),
            "reps": o.reps.iter().map(rep_json).collect::<Vec<_>>()})).collect::<Vec<_>>(),
        "coq_window": window_term(w, verdict),
    })
}
fn window_of_json(v: &Value) -> Window {
    Window {
        key: v["key"].as_str().unwrap_or("").to_string(),
        round: v["round"].as_u64().unwrap_or(0) as usize,
        init: v["init"].as_str().map(unhex),
        ops: v["ops"].as_array().cloned().unwrap_or_default().iter().map(|o| OpRec {
            id: o["id"].as_u64().unwrap_or(0) as usize,
            inv: o["inv"].as_u64().unwrap_or(0),
            ret: o["ret"].as_u64().unwrap_or(0),
            via: o["via"].as_str().unwrap_or("").to_string(),
            pending: o["pending"].as_bool().unwrap_or(false),
            prims: o["prims"].as_array().cloned().unwrap_or_default().iter().map(prim_of_json).collect(),
            reps: o["reps"].as_array().cloned().unwrap_or_default().iter().map(rep_of_json).collect(),
        }).collect(),
    }
}

// ---- scripts of the clients -----------------------------------------------------------------
#[derive(Clone, Copy, Debug, PartialEq)]
enum Via {
    Generic,
    Fast,
    Pooled,
    Batch,
    Eval,
}
#[derive(Clone, Debug)]
struct Step {
    via: Via,
    /// (key index, primitive) in command order; Generic/Fast/Pooled: exactly one entry;
    /// Batch: all GETs or all SETs (keys may repeat); Eval: two primitives on one key.
    items: Vec<(usize, Prim)>,
    script: u8,
    yield_before: bool,
}
#[derive(Clone, Copy, Debug, PartialEq)]
enum Mode {
    Mixed,
    GenericOnly,
    FastOnly,
}

fn gen_value(rng: &mut Rng, client: usize, serial: &mut u64) -> Vec<u8> {
    *serial += 1;
    if rng.gen_bool(0.4) {
        // numeric and unique: INCR works on it
        format!("{}", (client as u64 + 1) * 100_000 + *serial).into_bytes()
    } else if rng.gen_bool(0.03) {
        // INCR overflows on it (unique by round trip only once per case is enough)
        b"9223372036854775807".to_vec()
    } else {
        format!("c{}v{}", client, serial).into_bytes()
    }
}

fn gen_step(rng: &mut Rng, mode: Mode, nkeys: usize, client: usize, serial: &mut u64, eval: bool) -> Step {
    let k = rng.gen_range(0..nkeys);
    let yield_before = rng.gen_bool(0.3);
    let fast_via = |rng: &mut Rng| match rng.gen_range(0..3) { 0 => Via::Fast, 1 => Via::Pooled, _ => Via::Batch };
    let class_fast = match mode { Mode::FastOnly => true, Mode::GenericOnly => false, Mode::Mixed => rng.gen_bool(0.5) };
    if class_fast {
        let via = fast_via(rng);
        let is_get = rng.gen_bool(0.5);
        if via == Via::Batch {
            let n = rng.gen_range(1..=3);
            let items = (0..n).map(|j| {
                let kk = if j == 0 { k } else { rng.gen_range(0..nkeys) };
                (kk, if is_get { Prim::Get } else { Prim::Set(gen_value(rng, client, serial)) })
            }).collect();
            return Step { via, items, script: 0, yield_before };
        }
        let p = if is_get { Prim::Get } else { Prim::Set(gen_value(rng, client, serial)) };
        return Step { via, items: vec![(k, p)], script: 0, yield_before };
    }
    let c = rng.gen_range(0..100);
    if eval && c < 14 {
        let (script, prims) = if rng.gen_bool(0.6) {
            (0u8, vec![(k, Prim::Get), (k, Prim::Set(gen_value(rng, client, serial)))])
        } else {
            (1u8, vec![(k, Prim::Incr), (k, Prim::Get)])
        };
        return Step { via: Via::Eval, items: prims, script, yield_before };
    }
    let p = match c % 10 {
        0..=2 => Prim::Get,
        3..=5 => Prim::Set(gen_value(rng, client, serial)),
        6..=7 => Prim::Incr,
        8 => { *serial += 1; Prim::Append(format!("+{}.{}", client, serial).into_bytes()) }
        _ => Prim::Del,
    };
    Step { via: Via::Generic, items: vec![(k, p)], script: 0, yield_before }
}

struct Done {
    inv: u64,
    ret: u64,
    via: String,
    /// per key index: primitives and replies, in command order
    per_key: BTreeMap<usize, (Vec<Prim>, Vec<Rep>)>,
}

async fn run_step(state: &ShardedActorState, keys: &[String], st: &Step) -> Done {
    if st.yield_before {
        tokio::task::yield_now().await;
    }
    let kb = |i: usize| Bytes::from(keys[i].clone().into_bytes());
    let mut per_key: BTreeMap<usize, (Vec<Prim>, Vec<Rep>)> = BTreeMap::new();
    let mut push = |k: usize, p: &Prim, r: Rep| {
        let e = per_key.entry(k).or_insert_with(|| (Vec::new(), Vec::new()));
        e.0.push(p.clone());
        e.1.push(r);
    };
    let (inv, ret, via);
    match st.via {
        Via::Generic => {
            let (k, p) = &st.items[0];
            let cmd = match p {
                Prim::Get => Command::Get(keys[*k].clone()),
                Prim::Set(v) => Command::set(keys[*k].clone(), SDS::new(v.clone())),
                Prim::Incr => Command::Incr(keys[*k].clone()),
                Prim::Append(v) => Command::Append(keys[*k].clone(), SDS::new(v.clone())),
                Prim::Del => Command::Del(vec![keys[*k].clone()]),
            };
            inv = stamp();
            let r = state.execute(&cmd).await;
            ret = stamp();
            via = "execute";
            push(*k, p, canon(&r));
        }
        Via::Fast | Via::Pooled => {
            let (k, p) = &st.items[0];
            let pooled = st.via == Via::Pooled;
            let r;
            match p {
                Prim::Get => {
                    inv = stamp();
                    r = if pooled { state.pooled_fast_get(kb(*k)).await } else { state.fast_get(kb(*k)).await };
                    ret = stamp();
                    via = if pooled { "pooled_fast_get" } else { "fast_get" };
                }
                Prim::Set(v) => {
                    let val = Bytes::from(v.clone());
                    inv = stamp();
                    r = if pooled { state.pooled_fast_set(kb(*k), val).await } else { state.fast_set(kb(*k), val).await };
                    ret = stamp();
                    via = if pooled { "pooled_fast_set" } else { "fast_set" };
                }
                _ => unreachable!("fast paths carry GET/SET only"),
            }
            push(*k, p, canon(&r));
        }
        Via::Batch => {
            let is_get = matches!(st.items[0].1, Prim::Get);
            let rs: Vec<RespValue>;
            if is_get {
                let ks: Vec<Bytes> = st.items.iter().map(|(k, _)| kb(*k)).collect();
                inv = stamp();
                rs = state.fast_batch_get_pipeline(ks).await;
                ret = stamp();
                via = "fast_batch_get_pipeline";
            } else {
                let ps: Vec<(Bytes, Bytes)> = st.items.iter().map(|(k, p)| match p {
                    Prim::Set(v) => (kb(*k), Bytes::from(v.clone())),
                    _ => unreachable!(),
                }).collect();
                inv = stamp();
                rs = state.fast_batch_set_pipeline(ps).await;
                ret = stamp();
                via = "fast_batch_set_pipeline";
            }
            for (j, (k, p)) in st.items.iter().enumerate() {
                let r = rs.get(j).map(canon).unwrap_or_else(|| Rep::Other("missing batch reply".into()));
                push(*k, p, r);
            }
        }
        Via::Eval => {
            let k = st.items[0].0;
            let (script, args) = if st.script == 0 {
                let v = match &st.items[1].1 { Prim::Set(v) => v.clone(), _ => unreachable!() };
                (SCRIPT_GETSET, vec![SDS::new(v)])
            } else {
                (SCRIPT_INCRGET, vec![])
            };
            let cmd = Command::Eval { script: script.to_string(), keys: vec![keys[k].clone()], args };
            inv = stamp();
            let r = state.execute(&cmd).await;
            ret = stamp();
            via = "execute(EVAL)";
            match &r {
                RespValue::Array(Some(a)) if a.len() == 2 => {
                    push(k, &st.items[0].1, canon(&a[0]));
                    push(k, &st.items[1].1, canon(&a[1]));
                }
                // INCR raised inside the script: the script aborts with the error, nothing after runs
                RespValue::Error(e) if st.script == 1 && e.contains("not an integer") => {
                    push(k, &st.items[0].1, Rep::ErrNotInt);
                }
                RespValue::Error(e) if st.script == 1 && e.contains("would overflow") => {
                    push(k, &st.items[0].1, Rep::ErrOverflow);
                }
                other => {
                    push(k, &st.items[0].1, Rep::Other(format!("{:?}", other)));
                }
            }
        }
    }
    Done { inv, ret, via: via.to_string(), per_key }
}

/// A request a saboteur starts and gives up on.
#[derive(Clone, Debug)]
struct SabStep {
    step: Step,
    /// key index `nkeys` in `step.items` = the junk key (never part of a window)
    how: u8, // 0: poll once then drop; 1: tokio::time::timeout(0); 2: spawn + abort; 3: spawn, yield, abort
    /// enters the history as a pending operation (only requests that write)
    record: bool,
}

async fn poll_once<F: std::future::Future>(fut: F) -> Option<F::Output> {
    let mut fut = std::pin::pin!(fut);
    std::future::poll_fn(|cx| match fut.as_mut().poll(cx) {
        std::task::Poll::Ready(v) => std::task::Poll::Ready(Some(v)),
        std::task::Poll::Pending => std::task::Poll::Ready(None),
    })
    .await
    // `fut` is dropped here: the request is abandoned after its message was sent
}

/// Start the request, abandon it; `Some` if it completed before it could be abandoned.
async fn abandon(state: &ShardedActorState, keys: &Arc<Vec<String>>, sab: &SabStep) -> Option<Done> {
    match sab.how {
        0 => poll_once(run_step(state, keys, &sab.step)).await,
        1 => tokio::time::timeout(std::time::Duration::ZERO, run_step(state, keys, &sab.step)).await.ok(),
        _ => {
            let (st, ks, sp) = (state.clone(), keys.clone(), sab.step.clone());
            let h = tokio::spawn(async move { run_step(&st, &ks, &sp).await });
            if sab.how == 3 {
                tokio::task::yield_now().await;
            }
            h.abort();
            h.await.ok()
        }
    }
}

struct CaseRun {
    windows: Vec<Window>,
    panicked: Option<String>,
    abandoned: usize,
    abandoned_pooled: usize,
    completed_before_abandon: usize,
    padding_ops: usize,
}

fn run_case(rt: &tokio::runtime::Runtime, nshards: usize, keys: &[String], mode: Mode,
            scripts: &[Vec<Vec<Step>>], rounds: usize, wave: bool,
            sabs: &[Vec<Vec<SabStep>>], padding: usize) -> CaseRun {
    let nk = keys.len();
    // indices nk and nk+1: the junk key and the padding key (no windows)
    let mut allkeys = keys.to_vec();
    allkeys.push(JUNK_KEY.to_string());
    allkeys.push(PAD_KEY.to_string());
    let keys: Arc<Vec<String>> = Arc::new(allkeys);
    let scripts: Arc<Vec<Vec<Vec<Step>>>> = Arc::new(scripts.to_vec());
    let sabs: Arc<Vec<Vec<Vec<SabStep>>>> = Arc::new(sabs.to_vec());
    rt.block_on(async move {
        let state = ShardedActorState::with_shards(nshards);
        let nclients = scripts.len();
        let mut windows: Vec<Window> = Vec::new();
        let mut init: Vec<Option<Vec<u8>>> = vec![None; nk];
        let mut panicked = None;
        let (mut abandoned, mut abandoned_pooled, mut completed_before_abandon, mut padding_ops) = (0usize, 0usize, 0usize, 0usize);
        let mut pad_value: Option<Vec<u8>> = None;
        let mut pad_serial = 0u64;
        for round in 0..rounds {
            let barrier = Arc::new(tokio::sync::Barrier::new(nclients));
            let mut handles = Vec::new();
            for c in 0..nclients {
                let state = state.clone();
                let keys = keys.clone();
                let scripts = scripts.clone();
                let barrier = barrier.clone();
                handles.push(tokio::spawn(async move {
                    barrier.wait().await;
                    let mut out = Vec::new();
                    for st in scripts[c][round].iter() {
                        if wave {
                            // release the j-th command of every client at the same moment
                            barrier.wait().await;
                        }
                        out.push(run_step(&state, &keys, st).await);
                    }
                    out
                }));
            }
            // saboteurs: start requests on the shared keys and abandon them mid-flight
            let mut sab_handles = Vec::new();
            for sb in 0..sabs.len() {
                let state = state.clone();
                let keys = keys.clone();
                let sabs = sabs.clone();
                sab_handles.push(tokio::spawn(async move {
                    let mut completed: Vec<Done> = Vec::new();
                    let mut pend: Vec<(u64, SabStep)> = Vec::new();
                    let mut n_pooled = 0usize;
                    let mut kept_ghosts = 0usize;
                    for sab in sabs[sb][round].iter() {
                        let inv = stamp();
                        match abandon(&state, &keys, sab).await {
                            // it completed before it could be abandoned: an ordinary completed
                            // operation.  Ghost requests (not recorded) are kept in the history
                            // only up to 5 per round (window size), except when the reply has
                            // a shape the command cannot produce - that is always kept.
                            Some(d) => {
                                let shapes = sab.step.items.iter().all(|(k, p)| d.per_key.get(k).map(|(ps, rs)| {
                                    ps.iter().zip(rs.iter()).filter(|(q, _)| *q == p).all(|(q, r)| shape_ok(q, r))
                                }).unwrap_or(true));
                                if sab.record || !shapes || kept_ghosts < 5 {
                                    if !sab.record { kept_ghosts += 1; }
                                    completed.push(d);
                                }
                            }
                            None => {
                                if sab.step.via == Via::Pooled {
                                    n_pooled += 1;
                                }
                                pend.push((inv, sab.clone()));
                            }
                        }
                        tokio::task::yield_now().await;
                    }
                    (completed, pend, n_pooled)
                }));
            }
            let mut done: Vec<Done> = Vec::new();
            for h in handles {
                match h.await {
                    Ok(v) => done.extend(v),
                    Err(e) => panicked = Some(format!("client task failed: {:?}", e)),
                }
            }
            let mut pend: Vec<(u64, SabStep)> = Vec::new();
            for h in sab_handles {
                match h.await {
                    Ok((c, p, np)) => {
                        completed_before_abandon += c.len();
                        abandoned += p.len();
                        abandoned_pooled += np;
                        done.extend(c);
                        pend.extend(p);
                    }
                    Err(e) => panicked = Some(format!("saboteur task failed: {:?}", e)),
                }
            }
            // a completed request on the junk key answered with an impossible shape
            for d in done.iter() {
                if let Some((ps, rs)) = d.per_key.get(&nk) {
                    if !ps.iter().zip(rs.iter()).all(|(p, r)| shape_ok(p, r)) {
                        windows.push(Window { key: JUNK_KEY.to_string(), round, init: None,
                            ops: vec![OpRec { id: 0, inv: 0, ret: 1, prims: ps.clone(), reps: rs.clone(), pending: false, via: d.via.clone() }] });
                    }
                }
            }
            // padding: cycle the response pool with pooled requests of one sequential client on
            // its own key; every reply is determined exactly (SET -> OK, GET -> the last value)
            for j in 0..padding {
                let kb = Bytes::from(PAD_KEY.as_bytes().to_vec());
                let (prim, rep, i0, i1);
                if j % 2 == 0 {
                    pad_serial += 1;
                    let v = format!("pad{}", pad_serial).into_bytes();
                    i0 = stamp();
                    let r = state.pooled_fast_set(kb, Bytes::from(v.clone())).await;
                    i1 = stamp();
                    prim = Prim::Set(v);
                    rep = canon(&r);
                } else {
                    i0 = stamp();
                    let r = state.pooled_fast_get(kb).await;
                    i1 = stamp();
                    prim = Prim::Get;
                    rep = canon(&r);
                }
                padding_ops += 1;
                let (nx, want) = apply(&pad_value, &prim);
                if rep != want {
                    // a one-operation window on the padding key: not linearizable from the known value
                    let _ = (i0, i1);
                    windows.push(Window { key: PAD_KEY.to_string(), round, init: pad_value.clone(),
                        ops: vec![OpRec { id: 0, inv: 0, ret: 1, prims: vec![prim.clone()], reps: vec![rep], pending: false,
                                          via: format!("padding {} #{}", if j % 2 == 0 { "pooled_fast_set" } else { "pooled_fast_get" }, j) }] });
                }
                pad_value = nx;
            }
            // barrier reads: one per key, through the path class of this case
            let mut finals: Vec<(u64, u64, Rep)> = Vec::new();
            for k in 0..nk {
                let inv = stamp();
                let r = if mode == Mode::FastOnly {
                    state.fast_get(Bytes::from(keys[k].clone().into_bytes())).await
                } else {
                    state.execute(&Command::Get(keys[k].clone())).await
                };
                let ret = stamp();
                finals.push((inv, ret, canon(&r)));
            }
            for k in 0..nk {
                let mut ops: Vec<OpRec> = Vec::new();
                for d in done.iter() {
                    if let Some((ps, rs)) = d.per_key.get(&k) {
                        ops.push(OpRec { id: 0, inv: d.inv, ret: d.ret, prims: ps.clone(), reps: rs.clone(), via: d.via.clone(), pending: false });
                    }
                }
                // abandoned requests that write this key: pending forever (a pending read is dropped)
                for (inv, sab) in pend.iter() {
                    if !sab.record {
                        continue;
                    }
                    let ps: Vec<Prim> = sab.step.items.iter().filter(|(kk, _)| *kk == k).map(|(_, p)| p.clone()).collect();
                    if ps.iter().any(|p| !matches!(p, Prim::Get)) {
                        ops.push(OpRec { id: 0, inv: *inv, ret: 0, prims: ps, reps: vec![], pending: true,
                                         via: format!("ABANDONED {:?} (how {})", sab.step.via, sab.how) });
                    }
                }
                ops.sort_by_key(|o| o.inv);
                let (inv, ret, rep) = finals[k].clone();
                ops.push(OpRec { id: 0, inv, ret, prims: vec![Prim::Get], reps: vec![rep.clone()], pending: false,
                                 via: if mode == Mode::FastOnly { "barrier fast_get".into() } else { "barrier execute(GET)".into() } });
                // stamps -> ranks inside the window
                let mut all: Vec<u64> = ops.iter().flat_map(|o| if o.pending { vec![o.inv] } else { vec![o.inv, o.ret] }).collect();
                all.sort();
                let rank = |x: u64| all.binary_search(&x).unwrap() as u64;
                for (j, o) in ops.iter_mut().enumerate() {
                    o.id = j;
                    o.inv = rank(o.inv);
                    if !o.pending {
                        o.ret = rank(o.ret);
                    }
                }
                windows.push(Window { key: keys[k].clone(), round, init: init[k].clone(), ops });
                init[k] = match rep { Rep::Val(v) => v, _ => None };
            }
        }
        CaseRun { windows, panicked, abandoned, abandoned_pooled, completed_before_abandon, padding_ops }
    })
}

fn overlap_pairs(w: &Window) -> usize {
    let mut n = 0;
    for i in 0..w.ops.len() {
        for j in i + 1..w.ops.len() {
            let (a, b) = (&w.ops[i], &w.ops[j]);
            if !a.pending && !b.pending && a.inv < b.ret && b.inv < a.ret {
                n += 1;
            }
        }
    }
    n
}

fn replay_dir() -> std::path::PathBuf {
    if let Ok(r) = std::env::var("VERIF_ROOT") {
        return std::path::PathBuf::from(r).join("replays").join("C02");
    }
    let exe = std::env::current_exe().unwrap_or_default();
    // <root>/.cache/target/<profile>/c02
    exe.ancestors().nth(4).map(|p| p.join("replays").join("C02")).unwrap_or_else(|| "/verif/replays/C02".into())
}

/// Recorded failing windows for (seed, case), from the replay files the driver wrote.
fn recorded_windows(seed: u64, case: u64) -> Vec<Window> {
    let mut out = Vec::new();
    if let Ok(rd) = std::fs::read_dir(replay_dir()) {
        for e in rd.flatten() {
            let p = e.path();
            if p.extension().map(|x| x != "json").unwrap_or(true) {
                continue;
            }
            if let Ok(txt) = std::fs::read_to_string(&p) {
                if let Ok(v) = serde_json::from_str::<Value>(&txt) {
                    if v["seed"].as_u64() == Some(seed) && v["case"].as_u64() == Some(case) {
                        if let Some(ws) = v["detail"]["failing_windows"].as_array() {
                            out.extend(ws.iter().map(window_of_json));
                        }
                    }
                }
            }
        }
    }
    out
}

fn main() {
    let a: Vec<String> = std::env::args().collect();
    let args = &Args::parse(&a[1..]);
    let mut out = Out::new(&args.out, "C02", args.shards, HEADER);
    let max_clients = args.get("clients", 4) as usize;
    let mixed_multishard = args.get("mixed", 0) == 1;
    let eval = args.get("eval", 0) == 1;
    let wide = args.get("wide", 0) == 1; // shard counts {1,2,4,16} instead of {1,4}
    let workers = args.get("workers", 4) as usize;
    let sab_pct = args.get("sabotage", 35);
    out.nontrivial_rule = format!(
        "one case = one concurrent run of the real ShardedActorState on a {}-worker multi-thread tokio runtime: 2..{} client tasks, 2-4 rounds separated by barriers, <= 14 commands per round over 1-3 shared keys, {} shard counts, entry points execute / fast_* / pooled_fast_* / fast_batch_*_pipeline{}; mixed path classes on > 1 shard: {}; per round and key one window (<= 15 ops incl. the barrier read) judged by Coq lin_check and by the harness's own search; non-trivial = the case has at least one window in which two operations on the same key overlap in time; distinct by the printed histories. Thread scheduling is NOT derived from the seed: the client scripts of case i are (seed,i)-determined, the interleavings are explored, not replayable bit for bit; a failing window is stored in full in the replay file and re-judged by --replay. Key names: plain, hash-tag shapes ({{a}}, x{{a}}y, {{a}}:b, {{}}, unbalanced braces), multi-byte UTF-8, 7/8/9/16/17-byte names. CANCELLATION: in ~{}% of the cases 1-2 saboteur tasks run beside the clients and start pooled / fast / batch / generic / EVAL requests on the shared keys and on a junk key and abandon them mid-flight (future polled once then dropped, tokio::time::timeout(0), spawn + JoinHandle::abort); an abandoned request that writes enters the window as a PENDING operation (may take effect at any instant after its invocation, or never - the search tries every subset), abandoned reads are dropped; after the saboteurs of a round have finished, 72-96 pooled SET/GET of one sequential client on a padding key cycle the 64-slot response pool (every padding reply is determined exactly and checked); 20% of all cases run on a 1-worker runtime. A reply whose shape is impossible for its command (GET answered +OK, SET answered a bulk) is reported as such",
        sab_pct, workers, max_clients, if wide { "{1,2,4,16}" } else { "{1,4}" }, if eval { " / EVAL scripts (GET+SET, INCR+GET on one key)" } else { "" },
        if mixed_multishard { "enabled" } else { "disabled (one class per case) until the C03 routing repair lands" });
    let rt = tokio::runtime::Builder::new_multi_thread().worker_threads(workers).enable_all().build().unwrap();
    // all tasks of a case on ONE worker thread: interleaving only at await points
    let rt1 = tokio::runtime::Builder::new_multi_thread().worker_threads(1).enable_all().build().unwrap();

    let range: Vec<u64> = match args.only { Some(i) => vec![i], None => (0..args.n).collect() };
    for i in range {
        // ---- replay of a recorded failing history
        if args.only.is_some() {
            let rec = recorded_windows(args.seed, i);
            if !rec.is_empty() {
                println!("re-judging {} recorded failing window(s) of seed {} case {} (the schedule itself is not replayable)", rec.len(), args.seed, i);
                let mut terms = Vec::new();
                let mut bad = Vec::new();
                for w in rec.iter() {
                    let v = linearizable(w);
                    println!("  key {:?} round {}: harness verdict linearizable = {}", w.key, w.round, v);
                    println!("  {}", window_term(w, v));
                    terms.push(window_term(w, v));
                    if !v {
                        bad.push(window_json(w, v));
                    }
                }
                out.impl_checks += rec.len() as u64;
                if !bad.is_empty() {
                    out.violation(i, "recorded per-key history is not linearizable", json!({"failing_windows": bad}));
                }
                out.case(i, format!("K2 {}", clist(terms.iter(), |t| format!("({})", t))), true, &terms.join(";"));
                continue;
            }
        }
        let mut rng = case_rng(args.seed, i);
        let shard_set: &[usize] = if wide { &[1, 2, 4, 16] } else { &[1, 4] };
        let nshards = shard_set[rng.gen_range(0..shard_set.len())];
        let nclients = if max_clients <= 4 { rng.gen_range(2..=max_clients.max(2)) } else { rng.gen_range(2..=max_clients) };
        let nkeys = rng.gen_range(1..=3usize);
        let rounds = rng.gen_range(2..=4usize);
        let mode = if nshards == 1 || mixed_multishard {
            match rng.gen_range(0..10) { 0 => Mode::GenericOnly, 1 => Mode::FastOnly, _ => Mode::Mixed }
        } else if rng.gen_bool(0.5) { Mode::GenericOnly } else { Mode::FastOnly };
        let mut pool: Vec<&str> = KEYPOOL.to_vec();
        let mut keys: Vec<String> = Vec::new();
        for _ in 0..nkeys {
            let j = rng.gen_range(0..pool.len());
            keys.push(pool.remove(j).to_string());
        }
        let per_round_total = 14usize;
        let per_client = (per_round_total / nclients).clamp(1, 4);
        let mut serial = 0u64;
        // wave mode: every client issues the same number of commands per round and the j-th
        // commands of all clients are released together by a barrier (maximal overlap)
        let wave = rng.gen_bool(0.7);
        let wave_len: Vec<usize> = (0..rounds).map(|_| rng.gen_range(1..=per_client)).collect();
        let scripts: Vec<Vec<Vec<Step>>> = (0..nclients).map(|c| {
            (0..rounds).map(|r| {
                let n = if wave { wave_len[r] } else { rng.gen_range(1..=per_client) };
                // a batch counts once per key it touches; keep the round total <= 14 per key
                (0..n).map(|_| gen_step(&mut rng, mode, nkeys, c, &mut serial, eval)).collect()
            }).collect()
        }).collect();

        // ---- cancellation: saboteur scripts (seed-determined like the client scripts)
        let single_worker = rng.gen_bool(0.2);
        let sabotage = (nshards == 1 || mixed_multishard) && rng.gen_range(0..100) < sab_pct;
        let mut sabs: Vec<Vec<Vec<SabStep>>> = Vec::new();
        let mut padding = 0usize;
        if sabotage {
            padding = rng.gen_range(72..=96);
            let nsab = rng.gen_range(1..=2usize);
            for sb in 0..nsab {
                let mut per_round = Vec::new();
                for _ in 0..rounds {
                    let attempts = rng.gen_range(6..=20usize);
                    let mut recorded = 0usize;
                    let mut v = Vec::new();
                    for _ in 0..attempts {
                        let how = rng.gen_range(0..4u8);
                        let c = rng.gen_range(0..100);
                        if c < 25 && recorded < 2 {
                            // any command of the case's repertoire on a shared key; pending if it writes
                            let mut st = gen_step(&mut rng, Mode::Mixed, nkeys, 90 + sb, &mut serial, eval);
                            st.yield_before = false;
                            if st.items.iter().any(|(_, p)| !matches!(p, Prim::Get)) {
                                recorded += 1;
                            }
                            v.push(SabStep { step: st, how, record: true });
                        } else {
                            // ghost requests: reads of shared keys / reads and writes of the junk key, mostly pooled
                            let via = match rng.gen_range(0..10) { 0 => Via::Fast, 1 => Via::Generic, _ => Via::Pooled };
                            let junk = rng.gen_bool(0.4);
                            let k = if junk { nkeys } else { rng.gen_range(0..nkeys) };
                            let p = if junk && rng.gen_bool(0.5) { serial += 1; Prim::Set(format!("junk{}", serial).into_bytes()) } else { Prim::Get };
                            v.push(SabStep { step: Step { via, items: vec![(k, p)], script: 0, yield_before: false }, how, record: false });
                        }
                    }
                    per_round.push(v);
                }
                sabs.push(per_round);
            }
        }

        let the_rt = if single_worker { &rt1 } else { &rt };
        let run = match std::panic::catch_unwind(std::panic::AssertUnwindSafe(|| run_case(the_rt, nshards, &keys, mode, &scripts, rounds, wave, &sabs, padding))) {
            Ok(r) => r,
            Err(_) => CaseRun { windows: vec![], panicked: Some("panic while driving the case".into()), abandoned: 0, abandoned_pooled: 0, completed_before_abandon: 0, padding_ops: 0 },
        };
        out.count(if single_worker { "runtime:1-worker" } else { "runtime:multi-worker" });
        out.count(if sabotage { "sabotage:yes" } else { "sabotage:no" });
        if sabotage {
            out.count(&format!("abandoned_requests:{}", match run.abandoned { 0 => "0", 1..=9 => "1-9", 10..=29 => "10-29", 30..=59 => "30-59", _ => "60+" }));
            out.count(&format!("abandoned_pooled:{}", match run.abandoned_pooled { 0 => "0", 1..=9 => "1-9", 10..=29 => "10-29", _ => "30+" }));
            *out.dist.entry("total_abandoned".into()).or_insert(0) += run.abandoned as u64;
            *out.dist.entry("total_abandoned_pooled".into()).or_insert(0) += run.abandoned_pooled as u64;
            *out.dist.entry("total_completed_before_abandon".into()).or_insert(0) += run.completed_before_abandon as u64;
            *out.dist.entry("total_padding_pooled_ops".into()).or_insert(0) += run.padding_ops as u64;
            out.impl_checks += run.padding_ops as u64;
            let pend: usize = run.windows.iter().map(|w| w.ops.iter().filter(|o| o.pending).count()).sum();
            *out.dist.entry("total_pending_ops_in_windows".into()).or_insert(0) += pend as u64;
        }
        for k in keys.iter() {
            out.count(if k.contains('{') || k.contains('}') { "keyshape:braces" } else if !k.is_ascii() { "keyshape:multibyte" } else if [7, 8, 9, 16, 17].contains(&k.len()) { "keyshape:block-boundary" } else { "keyshape:plain" });
        }
        out.count(&format!("shards:{}", nshards));
        out.count(&format!("clients:{}", nclients));
        out.count(&format!("mode:{:?}", mode));
        out.count(if wave { "release:wave" } else { "release:free" });
        for c in scripts.iter() { for r in c.iter() { for s in r.iter() { out.count(&format!("via:{:?}", s.via)); for (_, p) in s.items.iter() { out.count(&format!("prim:{}", match p { Prim::Get => "GET", Prim::Set(_) => "SET", Prim::Incr => "INCR", Prim::Append(_) => "APPEND", Prim::Del => "DEL" })); } } } }
        if let Some(p) = &run.panicked {
            out.violation(i, "a client task or the node panicked during a concurrent run", json!({"panic": p, "shards": nshards, "clients": nclients}));
        }
        let mut terms = Vec::new();
        let mut bad = Vec::new();
        let mut overlaps = 0usize;
        let mut maxlen = 0usize;
        for w in run.windows.iter() {
            let v = linearizable(w);
            out.impl_checks += 1;
            overlaps += overlap_pairs(w);
            maxlen = maxlen.max(w.ops.len());
            terms.push(window_term(w, v));
            if !v {
                bad.push(window_json(w, v));
            }
        }
        out.count(&format!("windows:{}", run.windows.len()));
        out.count(&format!("max_window_ops:{}", maxlen));
        out.count(if overlaps > 0 { "overlap:yes" } else { "overlap:no" });
        out.count(&format!("overlapping_pairs:{}", match overlaps { 0 => "0", 1..=3 => "1-3", 4..=9 => "4-9", 10..=29 => "10-29", _ => "30+" }));
        if !bad.is_empty() {
            let wrong_shape = run.windows.iter().any(|w| !window_shapes_ok(w));
            let what = if wrong_shape {
                "a command was answered with a reply of a shape it cannot produce (a reply that belongs to another request); per-key history not linearizable"
            } else {
                "per-key history of a concurrent run is not linearizable"
            };
            out.violation(i, what, json!({
                "shards": nshards, "clients": nclients, "mode": format!("{:?}", mode), "keys": keys,
                "sabotage": sabotage, "abandoned_requests": run.abandoned, "abandoned_pooled_requests": run.abandoned_pooled,
                "single_worker_runtime": single_worker,
                "failing_windows": bad,
                "note": "the schedule is not derived from the seed; this file holds the full failing window(s); ./check C02 --replay re-judges them in Coq (lin_check) and with the harness's search"}));
        }
        let term = format!("K2 {}", clist(terms.iter(), |t| format!("({})", t)));
        if args.only.is_some() {
            println!("case {}: shards {} clients {} mode {:?} keys {:?} rounds {} wave {} sabotage {} (abandoned {}, pooled {}) single-worker {}", i, nshards, nclients, mode, keys, rounds, wave, sabotage, run.abandoned, run.abandoned_pooled, single_worker);
            for (w, t) in run.windows.iter().zip(terms.iter()) {
                println!("  key {:?} round {} ({} ops, {} overlapping pairs): {}", w.key, w.round, w.ops.len(), overlap_pairs(w), t);
            }
        }
        if i < 3 {
            out.sample(json!({"case": i, "shards": nshards, "clients": nclients, "mode": format!("{:?}", mode),
                              "first_window": run.windows.first().map(|w| window_json(w, true))}));
        }
        out.case(i, term, overlaps > 0, &terms.join(";"));
    }
    out.finish(args.seed);
}
